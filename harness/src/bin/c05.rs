//! C05 — accepted programs compile to well-formed code; limits are reported as errors; determinism.
//!
//! (TV) the Lean verifier `wfChunk` (driver) on the real compiler's output;
//! (K)  the Lean decoder vs the real `InstructionReader` on every chunk, and `Model/Frame.lean` vs
//!      the real register allocator (hook H3, `VerifFrame`) on random operation histories;
//! (D)  compile panics, compile nondeterminism (in process and across processes), internal fault
//!      kinds when a compiled program is run.
use koto_bytecode::verif::{VerifArg, VerifFrame};
use koto_bytecode::{Chunk, Compiler, CompilerSettings, Instruction, InstructionReader, Op};
use koto_memory::Ptr;
use koto_parser::{Ast, Constant, Node, Parser, Span, StringContents};
use kvh::worker::{Reply, Worker};
use kvh::{Args, Driver, Report, Rng};
use serde_json::{json, Value};
use std::collections::BTreeMap;
use std::sync::Mutex;
use std::time::Duration;

// ---------------------------------------------------------------------------------------------
// compile under catch, with the panic location recorded
// ---------------------------------------------------------------------------------------------

static PANIC_LOC: Mutex<String> = Mutex::new(String::new());

fn install_panic_hook() {
    std::panic::set_hook(Box::new(|info| {
        let loc = info.location().map(|l| format!("{}:{}", l.file(), l.line())).unwrap_or_default();
        if let Ok(mut g) = PANIC_LOC.lock() {
            *g = loc;
        }
    }));
}

fn last_panic_loc() -> String {
    PANIC_LOC.lock().map(|g| g.clone()).unwrap_or_default()
}

fn const_kinds(chunk: &Chunk) -> String {
    let n = chunk.constants.size();
    if n == 0 {
        return "-".into();
    }
    (0..n)
        .map(|i| match chunk.constants.get(i) {
            Some(Constant::Str(_)) => 'S',
            Some(Constant::I64(_)) => 'I',
            Some(Constant::F64(_)) => 'F',
            None => '?',
        })
        .collect()
}

/// canonical text of the constant pool (kind + value; floats as bits)
fn const_canon(chunk: &Chunk) -> String {
    let mut s = String::new();
    for i in 0..chunk.constants.size() {
        match chunk.constants.get(i) {
            Some(Constant::Str(x)) => s.push_str(&format!("S{};", kvh::hex(x.as_bytes()))),
            Some(Constant::I64(x)) => s.push_str(&format!("I{};", x)),
            Some(Constant::F64(x)) => s.push_str(&format!("F{:016x};", x.to_bits())),
            None => s.push_str("?;"),
        }
    }
    s
}

// ---------------------------------------------------------------------------------------------
// real InstructionReader, rendered like `Instr.render` of the model (opcode name + operands in
// byte order), `pc:size:Name a b c|…|end@pc`
// ---------------------------------------------------------------------------------------------

fn operands(ins: &Instruction, op: Op, bytes: &[u8], ip: usize) -> Vec<i64> {
    use Instruction::*;
    let r = |x: &u8| *x as i64;
    match ins {
        Error { .. } => vec![],
        NewFrame { register_count } => vec![r(register_count)],
        Copy { target, source } => vec![r(target), r(source)],
        SetNull { register } => vec![r(register)],
        SetBool { register, value } => {
            let expect = matches!(op, Op::SetTrue);
            if *value == expect { vec![r(register)] } else { vec![r(register), -999] }
        }
        SetNumber { register, value } => match op {
            Op::Set0 if *value == 0 => vec![r(register)],
            Op::Set1 if *value == 1 => vec![r(register)],
            Op::SetNumberU8 => vec![r(register), *value],
            Op::SetNumberNegU8 => vec![r(register), -*value],
            _ => vec![r(register), -999],
        },
        LoadFloat { register, constant }
        | LoadInt { register, constant }
        | LoadString { register, constant }
        | LoadNonLocal { register, constant }
        | Debug { register, constant } => vec![r(register), u32::from(*constant) as i64],
        ExportValue { key, value } => vec![r(key), r(value)],
        ExportEntry { entry } => vec![r(entry)],
        Import { register } | ImportAll { register } => vec![r(register)],
        MakeTempTuple { register, start, count } => vec![r(register), r(start), r(count)],
        TempTupleToTuple { register, source } => vec![r(register), r(source)],
        MakeMap { register, size_hint } => vec![r(register), *size_hint as i64],
        SequenceStart { size_hint } | StringStart { size_hint } => vec![*size_hint as i64],
        SequencePush { value } => vec![r(value)],
        SequencePushN { start, count } => vec![r(start), r(count)],
        SequenceToList { register } | SequenceToTuple { register } | StringFinish { register } => vec![r(register)],
        Range { register, start, end } | RangeInclusive { register, start, end } => vec![r(register), r(start), r(end)],
        RangeTo { register, end } | RangeToInclusive { register, end } => vec![r(register), r(end)],
        RangeFrom { register, start } => vec![r(register), r(start)],
        RangeFull { register } => vec![r(register)],
        MakeIterator { register, iterable } => vec![r(register), r(iterable)],
        Function { register, arg_count, optional_arg_count, capture_count, flags, size } => vec![
            r(register),
            r(arg_count),
            r(optional_arg_count),
            r(capture_count),
            u8::from(*flags) as i64,
            *size as i64,
        ],
        Capture { function, target, source } => vec![r(function), r(target), r(source)],
        Negate { register, value } | Not { register, value } | Size { register, value } => vec![r(register), r(value)],
        Add { register, lhs, rhs }
        | Subtract { register, lhs, rhs }
        | Multiply { register, lhs, rhs }
        | Divide { register, lhs, rhs }
        | Remainder { register, lhs, rhs }
        | Power { register, lhs, rhs }
        | Less { register, lhs, rhs }
        | LessOrEqual { register, lhs, rhs }
        | Greater { register, lhs, rhs }
        | GreaterOrEqual { register, lhs, rhs }
        | Equal { register, lhs, rhs }
        | NotEqual { register, lhs, rhs } => vec![r(register), r(lhs), r(rhs)],
        AddAssign { lhs, rhs }
        | SubtractAssign { lhs, rhs }
        | MultiplyAssign { lhs, rhs }
        | DivideAssign { lhs, rhs }
        | RemainderAssign { lhs, rhs }
        | PowerAssign { lhs, rhs } => vec![r(lhs), r(rhs)],
        Jump { offset } | JumpBack { offset } => vec![*offset as i64],
        JumpIfTrue { register, offset } | JumpIfFalse { register, offset } | JumpIfNull { register, offset } => {
            vec![r(register), *offset as i64]
        }
        Call { result, function, frame_base, arg_count, packed_arg_count } => {
            vec![r(result), r(function), r(frame_base), r(arg_count), r(packed_arg_count)]
        }
        CallInstance { result, function, instance, frame_base, arg_count, packed_arg_count } => {
            vec![r(result), r(function), r(instance), r(frame_base), r(arg_count), r(packed_arg_count)]
        }
        Return { register } | Yield { register } | Throw { register } => vec![r(register)],
        IterNext { result, iterator, jump_offset, temporary_output } => match (op, result) {
            (Op::IterNext, Some(res)) if !*temporary_output => vec![r(res), r(iterator), *jump_offset as i64],
            (Op::IterNextTemp, Some(res)) if *temporary_output => vec![r(res), r(iterator), *jump_offset as i64],
            (Op::IterNextQuiet, None) => vec![r(iterator), *jump_offset as i64],
            (Op::IterUnpack, Some(res)) if *jump_offset == 0 => vec![r(res), r(iterator)],
            _ => vec![-999],
        },
        TempIndex { register, value, index } | SliceFrom { register, value, index } | SliceTo { register, value, index } => {
            vec![r(register), r(value), (*index as u8) as i64]
        }
        Index { register, value, index } => vec![r(register), r(value), r(index)],
        IndexMut { register, index, value } => vec![r(register), r(index), r(value)],
        MetaInsert { register, value, id } => vec![r(register), *id as u8 as i64, r(value)],
        MetaInsertNamed { register, value, id, name } => vec![r(register), *id as u8 as i64, r(name), r(value)],
        MetaExport { id, value } => vec![*id as u8 as i64, r(value)],
        MetaExportNamed { id, name, value } => vec![*id as u8 as i64, r(name), r(value)],
        Access { register, value, key } => vec![r(register), r(value), u32::from(*key) as i64],
        TryAccess { register, value, key, jump_offset } => {
            vec![r(register), r(value), u32::from(*key) as i64, *jump_offset as i64]
        }
        AccessString { register, value, key } => vec![r(register), r(value), r(key)],
        TryAccessString { register, value, key, jump_offset } => {
            vec![r(register), r(value), r(key), *jump_offset as i64]
        }
        AccessAssign { register, key, value } => vec![r(register), r(key), r(value)],
        TryStart { arg_register, catch_offset } => vec![r(arg_register), *catch_offset as i64],
        TryEnd => vec![bytes.get(ip + 1).copied().unwrap_or(0) as i64],
        CheckSizeEqual { register, size } | CheckSizeMin { register, size } => vec![r(register), *size as i64],
        AssertType { value, allow_null, type_string } => {
            let expect = matches!(op, Op::AssertOptionalType);
            if *allow_null == expect { vec![r(value), u32::from(*type_string) as i64] } else { vec![-999] }
        }
        CheckType { value, allow_null, type_string, jump_offset } => {
            let expect = matches!(op, Op::CheckOptionalType);
            if *allow_null == expect {
                vec![r(value), u32::from(*type_string) as i64, *jump_offset as i64]
            } else {
                vec![-999]
            }
        }
        StringPush { value, format_options } => {
            let mut v = vec![r(value)];
            match format_options {
                None => v.push(0),
                Some(o) => {
                    let flags: u8 = koto_bytecode::StringFormatFlags::from(*o).into();
                    v.push(flags as i64);
                    if let Some(w) = o.min_width {
                        v.push(w as i64);
                    }
                    if let Some(p) = o.precision {
                        v.push(p as i64);
                    }
                    if let Some(f) = o.fill_character {
                        v.push(u32::from(f) as i64);
                    }
                    if let Some(rp) = o.representation {
                        v.push(rp as u8 as i64);
                    }
                }
            }
            v
        }
    }
}

/// (rendering, instruction count, per-opcode histogram)
fn disasm_real(chunk: &Ptr<Chunk>) -> (String, usize, Vec<String>) {
    let mut reader = InstructionReader::new(chunk.clone());
    let bytes = chunk.bytes.as_slice();
    let mut out: Vec<String> = vec![];
    let mut names = vec![];
    let mut n = 0;
    loop {
        let ip = reader.ip;
        match reader.next() {
            None => {
                // fewer than two bytes left
                out.push(format!("end@{}", bytes.len()));
                break;
            }
            Some(Instruction::Error { .. }) => {
                out.push(format!("bad@{}", ip));
                break;
            }
            Some(ins) => {
                let op = Op::from(bytes[ip]);
                let name = format!("{:?}", op);
                let ops = operands(&ins, op, bytes, ip);
                let mut s = format!("{}:{}:{}", ip, reader.ip - ip, name);
                for o in ops {
                    s.push(' ');
                    s.push_str(&o.to_string());
                }
                out.push(s);
                names.push(name);
                n += 1;
            }
        }
    }
    (out.join("|"), n, names)
}

// ---------------------------------------------------------------------------------------------
// AST shape analysis (by spans): generation filters and cause rules of the listed findings
// ---------------------------------------------------------------------------------------------

type Pos = (u32, u32);
type Rg = (Pos, Pos);

fn rg(s: &Span) -> Rg {
    ((s.start.line, s.start.column), (s.end.line, s.end.column))
}
/// a ⊆ b
fn inside(a: Rg, b: Rg) -> bool {
    b.0 <= a.0 && a.1 <= b.1
}

#[derive(Default, Debug, Clone)]
struct Shape {
    /// `break`/`continue` lexically inside a list / tuple / interpolated string of the same loop — F-C05-5
    jump_in_builder: bool,
    /// `break`/`continue` lexically inside the try block of a `try` that is inside the loop — F-C05-6
    jump_in_try: bool,
    /// a function accesses two or more non-locals (distribution only; capture order was F-C05-2, fixed)
    multi_non_local: bool,
    functions: usize,
    nodes: usize,
}

fn shape_of(ast: &Ast) -> Shape {
    let mut sh = Shape { nodes: ast.nodes().len(), ..Default::default() };
    let mut builders: Vec<Rg> = vec![];
    let mut funcs: Vec<Rg> = vec![];
    let mut loops: Vec<Rg> = vec![];
    let mut try_blocks: Vec<Rg> = vec![];
    let mut returns: Vec<Rg> = vec![];
    let mut loop_jumps: Vec<Rg> = vec![];
    for n in ast.nodes() {
        let s = rg(ast.span(n.span));
        match &n.node {
            Node::List(_) | Node::Tuple { .. } => builders.push(s),
            Node::Str(st) => {
                if let StringContents::Interpolated(_) = &st.contents {
                    builders.push(s)
                }
            }
            Node::Function(f) => {
                funcs.push(s);
                sh.functions += 1;
                if f.accessed_non_locals.len() >= 2 {
                    sh.multi_non_local = true;
                }
            }
            Node::For(_) | Node::Loop { .. } | Node::While { .. } | Node::Until { .. } => loops.push(s),
            Node::Try(t) => try_blocks.push(rg(ast.span(ast.node(t.try_block).span))),
            Node::Return(_) => returns.push(s),
            Node::Break(_) | Node::Continue => loop_jumps.push(s),
            _ => {}
        }
    }
    let crosses = |j: Rg, outer: &Vec<Rg>, scopes: &[&Vec<Rg>]| -> bool {
        outer.iter().any(|b| {
            inside(j, *b) && j != *b && !scopes.iter().any(|sc| sc.iter().any(|s| inside(j, *s) && inside(*s, *b) && *s != *b))
        })
    };
    let _ = &returns; // `return` inside a literal is harmless since fix 97373d1 (the VM discards the builder)
    for j in &loop_jumps {
        if crosses(*j, &builders, &[&funcs, &loops]) {
            sh.jump_in_builder = true;
        }
        // the try block itself may coincide with a loop body's span: a scope equal to the block is
        // outside it only if the loop is the block's parent, which has a strictly larger span
        if try_blocks.iter().any(|b| {
            inside(*j, *b) && !funcs.iter().chain(loops.iter()).any(|s| inside(*j, *s) && inside(*s, *b))
        }) {
            sh.jump_in_try = true;
        }
    }
    sh
}

/// (hash of the AST as parsed, hash with every `accessed_non_locals` list sorted)
fn ast_hashes(ast: &Ast) -> (u64, u64) {
    let mut raw = String::new();
    let mut norm = String::new();
    for n in ast.nodes() {
        match &n.node {
            Node::Function(f) => {
                let anl: Vec<u32> = f.accessed_non_locals.iter().map(|c| u32::from(*c)).collect();
                let mut sorted = anl.clone();
                sorted.sort();
                let head = format!("Function({:?},{},{:?},{})", f.args, f.local_count, f.body, f.is_generator);
                raw.push_str(&format!("{}{:?};", head, anl));
                norm.push_str(&format!("{}{:?};", head, sorted));
            }
            other => {
                let s = format!("{:?};", other);
                raw.push_str(&s);
                norm.push_str(&s);
            }
        }
    }
    (kvh::fnv1a(raw.as_bytes()), kvh::fnv1a(norm.as_bytes()))
}

// ---------------------------------------------------------------------------------------------
// seeded program generator (well-formedness of the bytecode matters; programs need not terminate)
// Since 2f5d1ea (F-C05-5 repaired) conditional `break` / `continue` / `return` are also generated in expression
// position inside list / tuple literals and interpolations (`elem`); `no_jump` only keeps jump STATEMENTS out of
// the one-line expression contexts.
// ---------------------------------------------------------------------------------------------

struct Gen {
    rng: Rng,
    out: String,
    next_id: usize,
}

#[derive(Clone)]
struct Scope {
    vars: Vec<String>,
    /// outer variables a nested function may capture (any number of them)
    cap: Vec<String>,
    in_loop: bool,
    in_fn: bool,
    in_gen: bool,
    /// inside a builder expression (list / tuple / interpolated string): no return/break/continue (F-C05-5)
    no_jump: bool,
}

impl Gen {
    fn fresh(&mut self, p: &str) -> String {
        self.next_id += 1;
        format!("{}{}", p, self.next_id)
    }
    fn var(&mut self, sc: &Scope) -> String {
        let mut pool: Vec<&String> = sc.vars.iter().collect();
        for c in &sc.cap {
            pool.push(c);
        }
        // an id that is assigned nowhere: a non-local lookup (never a capture)
        if pool.is_empty() { "g0".into() } else { (*self.rng.pick(&pool)).clone() }
    }
    /// the outer variables visible to a function nested in `sc` (a random subset, possibly all)
    fn outer_for_nested(&mut self, sc: &Scope, own_name: Option<&String>) -> Vec<String> {
        let mut all: Vec<String> = sc.vars.iter().chain(sc.cap.iter()).cloned().collect();
        if let Some(n) = own_name {
            all.push(n.clone());
        }
        match self.rng.below(4) {
            0 => vec![],
            1 => all.into_iter().filter(|_| self.rng.chance(1, 2)).collect(),
            _ => all,
        }
    }
    fn lit(&mut self) -> String {
        match self.rng.below(9) {
            0 => self.rng.range(0, 1).to_string(),
            1 => self.rng.range(2, 255).to_string(),
            2 => format!("-{}", self.rng.range(1, 255)),
            3 => self.rng.range(256, 100000).to_string(),
            4 => format!("{}.5", self.rng.range(0, 99)),
            5 => format!("'s{}'", self.rng.below(6)),
            6 => "true".into(),
            7 => "null".into(),
            _ => "false".into(),
        }
    }
    /// An element of a list / tuple / interpolation: an expression, or — inside a loop / function — a conditional
    /// `break` / `continue` / `return` in expression position (since 2f5d1ea the compiler finishes the open builders
    /// of the loop body before such a jump; since 97373d1 the VM discards a frame's builders on return).
    fn elem(&mut self, sc: &Scope, d: u32) -> String {
        let inner = Scope { no_jump: true, ..sc.clone() };
        if sc.in_loop && self.rng.chance(1, 6) {
            let c = self.expr(&inner, 1);
            return match self.rng.below(4) {
                0 => format!("(if {} then break)", c),
                1 => format!("(if {} then continue)", c),
                2 => format!("(if {} then break else {})", c, self.lit()),
                _ => format!("(if {} then {} else continue)", c, self.lit()),
            };
        }
        if sc.in_fn && !sc.in_gen && self.rng.chance(1, 12) {
            let c = self.expr(&inner, 1);
            let e = self.expr(&inner, 1);
            return format!("(if {} then return {})", c, e);
        }
        self.expr(&inner, d)
    }
    fn expr(&mut self, sc: &Scope, d: u32) -> String {
        if d == 0 {
            return if self.rng.chance(1, 2) { self.var(sc) } else { self.lit() };
        }
        let inner = Scope { no_jump: true, ..sc.clone() };
        match self.rng.below(22) {
            0 | 1 => self.var(sc),
            2 | 3 => self.lit(),
            4 | 5 => {
                let op = *self.rng.pick(&["+", "-", "*", "/", "%", "<", "<=", ">", ">=", "==", "!=", "and", "or"]);
                format!("({} {} {})", self.expr(sc, d - 1), op, self.expr(sc, d - 1))
            }
            6 => format!("(not {})", self.expr(sc, d - 1)),
            7 => format!("(-{})", self.var(sc)),
            8 => {
                let n = self.rng.below(5);
                let xs: Vec<String> = (0..n).map(|_| self.elem(sc, d - 1)).collect();
                format!("[{}]", xs.join(", "))
            }
            9 => {
                let n = 2 + self.rng.below(3);
                let xs: Vec<String> = (0..n).map(|_| self.elem(sc, d - 1)).collect();
                format!("({})", xs.join(", "))
            }
            10 => {
                let n = self.rng.below(4);
                let xs: Vec<String> = (0..n).map(|i| format!("k{}: {}", i, self.expr(sc, d - 1))).collect();
                format!("{{{}}}", xs.join(", "))
            }
            11 => {
                let _ = &inner;
                let a = if self.rng.chance(1, 2) { self.var(sc) } else { format!("({} + {})", self.var(sc), self.rng.below(500)) };
                let b = if self.rng.chance(1, 2) { self.var(sc) } else { self.rng.below(3000).to_string() };
                if sc.in_loop && self.rng.chance(1, 6) {
                    // a conditional jump in an interpolated expression (no quotes inside the quotes)
                    let v = self.var(sc);
                    let kw = *self.rng.pick(&["break", "continue"]);
                    let n = self.rng.below(3);
                    return format!("'a{{{}}}b{{if {} == {} then {}}}c{{{}}}'", a, v, n, kw, b);
                }
                let fmt = *self.rng.pick(&["", ":>6", ":<4", ":^8.2", ":_>5", ":?", ":x", ":08.3e"]);
                format!("'a{{{}}}b{{{}{}}}'", a, b, fmt)
            }
            12 => format!("({}..{})", self.expr(sc, d - 1), self.expr(sc, d - 1)),
            13 => format!("({}..={})", self.rng.below(5), self.expr(sc, d - 1)),
            14 => format!("{}[{}]", self.var(sc), self.expr(sc, d - 1)),
            15 => format!("{}.k{}", self.var(sc), self.rng.below(3)),
            16 => {
                let n = self.rng.below(4);
                let xs: Vec<String> = (0..n).map(|_| self.expr(sc, d - 1)).collect();
                format!("{}({})", self.var(sc), xs.join(", "))
            }
            17 => format!("(if {} then {} else {})", self.expr(sc, d - 1), self.expr(sc, d - 1), self.expr(sc, d - 1)),
            18 => {
                // inline function literal in value position; may capture one variable
                let p = self.fresh("p");
                let cap = self.outer_for_nested(sc, None);
                let fsc = Scope { vars: vec![p.clone()], cap, in_loop: false, in_fn: true, in_gen: false, no_jump: false };
                format!("(|{}| {})", p, self.expr(&fsc, d - 1))
            }
            19 => format!("{}.size()", self.var(sc)),
            20 => format!("{}({}, {}...)", self.var(sc), self.expr(sc, d - 1), self.var(sc)),
            _ => format!("(size {})", self.var(sc)),
        }
    }
    fn line(&mut self, ind: usize, s: &str) {
        for _ in 0..ind {
            self.out.push_str("  ");
        }
        self.out.push_str(s);
        self.out.push('\n');
    }
    fn block(&mut self, sc: &mut Scope, ind: usize, d: u32) {
        let n = 1 + self.rng.below(3);
        for _ in 0..n {
            self.stmt(sc, ind, d);
        }
    }
    fn pattern(&mut self, sc: &mut Scope, d: u32) -> String {
        match self.rng.below(9) {
            0 => self.rng.range(0, 300).to_string(),
            1 => format!("'s{}'", self.rng.below(4)),
            2 => "_".into(),
            3 => {
                let v = self.fresh("m");
                sc.vars.push(v.clone());
                v
            }
            4 if d > 0 => format!("({}, {})", self.pattern(sc, d - 1), self.pattern(sc, d - 1)),
            5 if d > 0 => format!("({}, ...)", self.pattern(sc, d - 1)),
            6 if d > 0 => format!("(..., {})", self.pattern(sc, d - 1)),
            7 => {
                let v = self.fresh("m");
                sc.vars.push(v.clone());
                format!("{}: {}", v, self.rng.pick(&["Number", "String", "List", "Any", "Bool?"]))
            }
            _ => "null".into(),
        }
    }
    fn stmt(&mut self, sc: &mut Scope, ind: usize, d: u32) {
        let k = if d == 0 { self.rng.below(6) } else { let k = self.rng.below(28); if k >= 24 { 22 } else { k } };
        match k {
            0 | 1 | 2 => {
                let v = if self.rng.chance(1, 2) || sc.vars.is_empty() { self.fresh("v") } else { self.rng.pick(&sc.vars).clone() };
                let e = self.expr(sc, 2);
                self.line(ind, &format!("{} = {}", v, e));
                if !sc.vars.contains(&v) {
                    sc.vars.push(v);
                }
            }
            3 => {
                if sc.vars.is_empty() {
                    return self.stmt(sc, ind, 0);
                }
                let v = self.rng.pick(&sc.vars).clone();
                let op = *self.rng.pick(&["+=", "-=", "*=", "/=", "%="]);
                let e = self.expr(sc, 1);
                self.line(ind, &format!("{} {} {}", v, op, e));
            }
            4 => {
                let (a, b) = (self.fresh("v"), self.fresh("v"));
                let e1 = self.expr(sc, 1);
                let e2 = self.expr(sc, 1);
                self.line(ind, &format!("{}, {} = {}, {}", a, b, e1, e2));
                sc.vars.push(a);
                sc.vars.push(b);
            }
            5 => {
                let e = self.expr(sc, 2);
                let v = self.var(sc);
                self.line(ind, &format!("{}.k0 = {}", v, e));
            }
            6 | 7 => {
                let c = self.expr(sc, 2);
                self.line(ind, &format!("if {}", c));
                self.block(&mut sc.clone(), ind + 1, d - 1);
                if self.rng.chance(1, 2) {
                    let c2 = self.expr(sc, 1);
                    self.line(ind, &format!("else if {}", c2));
                    self.block(&mut sc.clone(), ind + 1, d - 1);
                }
                if self.rng.chance(1, 2) {
                    self.line(ind, "else");
                    self.block(&mut sc.clone(), ind + 1, d - 1);
                }
            }
            8 | 9 => {
                let x = self.fresh("i");
                let it = self.expr(sc, 1);
                if self.rng.chance(1, 4) {
                    let y = self.fresh("i");
                    self.line(ind, &format!("for {}, {} in {}", x, y, it));
                    let mut b = Scope { in_loop: true, no_jump: false, ..sc.clone() };
                    b.vars.push(x);
                    b.vars.push(y);
                    self.block(&mut b, ind + 1, d - 1);
                } else {
                    self.line(ind, &format!("for {} in {}", x, it));
                    let mut b = Scope { in_loop: true, no_jump: false, ..sc.clone() };
                    b.vars.push(x);
                    self.block(&mut b, ind + 1, d - 1);
                }
            }
            10 => {
                let kw = *self.rng.pick(&["while", "until"]);
                let c = self.expr(sc, 2);
                self.line(ind, &format!("{} {}", kw, c));
                let mut b = Scope { in_loop: true, no_jump: false, ..sc.clone() };
                self.block(&mut b, ind + 1, d - 1);
            }
            11 => {
                let v = self.fresh("v");
                self.line(ind, &format!("{} = loop", v));
                let mut b = Scope { in_loop: true, no_jump: false, ..sc.clone() };
                self.block(&mut b, ind + 1, d - 1);
                let e = self.expr(sc, 1);
                self.line(ind + 1, &format!("break {}", e));
                sc.vars.push(v);
            }
            12 => {
                if sc.in_loop && !sc.no_jump {
                    let c = self.expr(sc, 1);
                    let kw = *self.rng.pick(&["break", "continue"]);
                    self.line(ind, &format!("if {} then {}", c, kw));
                } else {
                    self.stmt(sc, ind, 0);
                }
            }
            13 | 14 => {
                self.line(ind, "try");
                let mut b = sc.clone();
                self.block(&mut b, ind + 1, d - 1);
                if self.rng.chance(1, 3) {
                    let e = self.expr(sc, 1);
                    self.line(ind + 1, &format!("throw {}", e));
                }
                if self.rng.chance(1, 3) {
                    let e = self.fresh("e");
                    self.line(ind, &format!("catch {}: String", e));
                    let mut b = sc.clone();
                    b.vars.push(e);
                    self.block(&mut b, ind + 1, d - 1);
                }
                let e = self.fresh("e");
                let cv = if self.rng.chance(1, 4) { "_".to_string() } else { e.clone() };
                self.line(ind, &format!("catch {}", cv));
                let mut b = sc.clone();
                b.vars.push(e);
                self.block(&mut b, ind + 1, d - 1);
                if self.rng.chance(1, 3) {
                    self.line(ind, "finally");
                    self.block(&mut sc.clone(), ind + 1, d - 1);
                }
            }
            15 | 16 => {
                let subj = if self.rng.chance(1, 3) { format!("{}, {}", self.var(sc), self.var(sc)) } else { self.expr(sc, 1) };
                let two = subj.contains(", ") && !subj.starts_with('(') && !subj.starts_with('[') && !subj.starts_with('{') && !subj.starts_with('\'');
                let v = self.fresh("v");
                self.line(ind, &format!("{} = match {}", v, subj));
                let arms = 1 + self.rng.below(3);
                for _ in 0..arms {
                    let mut b = sc.clone();
                    let mut p = if two { format!("{}, {}", self.pattern(&mut b, 1), self.pattern(&mut b, 1)) } else { self.pattern(&mut b, 2) };
                    if !two && self.rng.chance(1, 4) {
                        p = format!("{} or {}", self.rng.below(9), self.rng.range(10, 19));
                    }
                    if self.rng.chance(1, 4) {
                        let g = self.expr(&b, 1);
                        p = format!("{} if {}", p, g);
                    }
                    if self.rng.chance(1, 2) {
                        let e = self.expr(&b, 2);
                        self.line(ind + 1, &format!("{} then {}", p, e));
                    } else {
                        self.line(ind + 1, &format!("{} then", p));
                        self.block(&mut b, ind + 2, d - 1);
                    }
                }
                if self.rng.chance(2, 3) {
                    let e = self.expr(sc, 1);
                    self.line(ind + 1, &format!("else {}", e));
                }
                sc.vars.push(v);
            }
            17 => {
                let v = self.fresh("v");
                self.line(ind, &format!("{} = switch", v));
                sc.vars.push(v);
                for _ in 0..(1 + self.rng.below(2)) {
                    let c = self.expr(sc, 1);
                    let e = self.expr(sc, 1);
                    self.line(ind + 1, &format!("{} then {}", c, e));
                }
                let e = self.expr(sc, 1);
                self.line(ind + 1, &format!("else {}", e));
            }
            18 | 19 | 20 => {
                // named function with a block body
                let f = self.fresh("f");
                let np = self.rng.below(4);
                let mut ps: Vec<String> = (0..np).map(|_| self.fresh("a")).collect();
                let mut sig: Vec<String> = ps.clone();
                let with_default = np > 0 && self.rng.chance(1, 4);
                if with_default {
                    let l = sig.len() - 1;
                    sig[l] = format!("{} = {}", sig[l], self.lit());
                }
                let variadic = self.rng.chance(1, 5);
                if variadic {
                    let r = self.fresh("a");
                    sig.push(format!("{}...", r));
                    ps.push(r);
                }
                if self.rng.chance(1, 6) {
                    let (x, y) = (self.fresh("a"), self.fresh("a"));
                    sig.insert(0, format!("({}, {})", x, y));
                    ps.push(x);
                    ps.push(y);
                }
                if !with_default && !variadic && self.rng.chance(1, 8) {
                    sig.push("_".into());
                }
                let is_gen = self.rng.chance(1, 5);
                // captures: any of the visible outer variables, and the function itself
                let cap = self.outer_for_nested(sc, Some(&f));
                let ret = if self.rng.chance(1, 6) && !is_gen { " -> Any" } else { "" };
                // one in four is a literal in statement position: its value is unused (former F-C05-4)
                let unused = self.rng.chance(1, 4);
                if unused {
                    self.line(ind, &format!("|{}|{}", sig.join(", "), ret));
                } else {
                    self.line(ind, &format!("{} = |{}|{}", f, sig.join(", "), ret));
                }
                let mut b = Scope { vars: ps, cap, in_loop: false, in_fn: true, in_gen: is_gen, no_jump: false };
                self.block(&mut b, ind + 1, d - 1);
                if is_gen {
                    let e = self.expr(&b, 1);
                    self.line(ind + 1, &format!("yield {}", e));
                } else {
                    let e = self.expr(&b, 1);
                    self.line(ind + 1, &e);
                }
                if !unused {
                    sc.vars.push(f);
                }
            }
            21 => {
                if sc.in_fn && !sc.no_jump {
                    let c = self.expr(sc, 1);
                    if sc.in_gen {
                        let e = self.expr(sc, 1);
                        self.line(ind, &format!("yield {}", e));
                    } else {
                        let e = self.expr(sc, 1);
                        self.line(ind, &format!("if {} then return {}", c, e));
                    }
                } else {
                    let e = self.expr(sc, 1);
                    self.line(ind, &format!("debug {}", e));
                }
            }
            22 if self.rng.chance(1, 2) => {
                // an expression of any kind in statement position: its value is discarded
                let e = self.expr(sc, 2);
                self.line(ind, &e);
            }
            22 if self.rng.chance(1, 2) => {
                // one-line function literal as a statement
                let p = self.fresh("p");
                let cap = self.outer_for_nested(sc, None);
                let fsc = Scope { vars: vec![p.clone()], cap, in_loop: false, in_fn: true, in_gen: false, no_jump: false };
                let e = self.expr(&fsc, 2);
                let dflt = if self.rng.chance(1, 3) { format!(" = {}", self.lit()) } else { String::new() };
                self.line(ind, &format!("|{}{}| {}", p, dflt, e));
            }
            22 => {
                let v = self.fresh("v");
                let t = *self.rng.pick(&["Number", "String?", "Any", "List", "Callable"]);
                let e = self.expr(sc, 1);
                self.line(ind, &format!("let {}: {} = {}", v, t, e));
                sc.vars.push(v);
            }
            _ => {
                if ind == 0 && !sc.in_fn {
                    let v = self.fresh("x");
                    let e = self.expr(sc, 1);
                    self.line(ind, &format!("export {} = {}", v, e));
                    sc.vars.push(v);
                } else {
                    let e = self.expr(sc, 2);
                    let v = self.var(sc);
                    self.line(ind, &format!("{}.push {}", v, e));
                }
            }
        }
    }
}

/// Capture-heavy program: functions (nested up to three deep) that read 2..=14 outer variables in a
/// random order, some of them assigned after the function is defined, plus exported ids.
fn gen_capture_program(rng: &mut Rng) -> String {
    let mut s = String::new();
    let n = 2 + rng.below(13);
    let names: Vec<String> = (0..n).map(|i| format!("{}{}", ["a", "zz", "k", "m_", "q"][rng.below(5)], i)).collect();
    for (i, x) in names.iter().enumerate() {
        if rng.chance(1, 6) {
            s.push_str(&format!("export {} = {}\n", x, i));
        } else {
            s.push_str(&format!("{} = {}\n", x, i));
        }
    }
    let pick = |rng: &mut Rng, k: usize| -> Vec<String> {
        let mut v: Vec<String> = vec![];
        for _ in 0..k {
            v.push(names[rng.below(names.len())].clone());
        }
        v
    };
    let nf = 1 + rng.below(4);
    for fi in 0..nf {
        let k = 2 + rng.below(n);
        let used = pick(rng, k);
        match rng.below(4) {
            0 => s.push_str(&format!("f{} = || {}\n", fi, used.join(" + "))),
            1 => {
                s.push_str(&format!("f{} = |p|\n  g = |q| {} + q + p\n  g(p) + {}\n", fi, used.join(" * "), pick(rng, 2).join(" - ")));
            }
            2 => {
                s.push_str(&format!("f{} = |p|\n  h = ||\n    i = || {}\n    i() + {}\n  h() + f{}(p - 1)\n", fi, used.join(" + "), pick(rng, 3).join(" + "), fi));
            }
            _ => {
                s.push_str(&format!("f{} = |p = {}|\n  for x in ({},)\n    yield x + {}\n", fi, used[0], used.join(", "), used[k - 1]));
            }
        }
    }
    s.push_str("f0()\n");
    s
}

/// Every expression kind in statement position (value discarded) in every kind of block. Oracle as
/// for every program: well-formed code (in particular every builder bracket closed, equal builder
/// depths along loop back-edges) or a compile error.
fn discard_programs() -> Vec<(String, String)> {
    let exprs: Vec<(&str, &str)> = vec![
        ("str-interp", "'x{a}y'"), ("str-interp-fmt", "'{a}{a:>5}{a:_^7.2}'"), ("str-nested", "'p{'q{a}'}r'"), ("str-lit", "'lit'"),
        ("list2", "[a, a]"), ("list1", "[a]"), ("list0", "[]"), ("list-nested", "[[a], 'i{a}', (a, a)]"),
        ("tuple2", "(a, a)"), ("tuple1", "(a,)"), ("map1", "{k: a}"), ("map0", "{}"), ("map-str", "{k: 'v{a}', l: [a, a]}"),
        ("range", "a..a"), ("range-incl", "(a..=a)"), ("range-to", "(..a)"), ("range-from", "(a..)"),
        ("access", "a.b.c"), ("method-call", "a.foo(a)"), ("index", "a[a]"), ("call", "g(a)"), ("call-list", "g(a, [a])"),
        ("call-str", "g('s{a}')"), ("pipe", "a -> g"), ("add", "a + a"), ("arith", "a * (a - a) % a"), ("neg", "-a"), ("not", "not a"),
        ("cmp", "a < a"), ("cmp-chain", "a < a <= a"), ("and", "a and a"), ("or-str", "a or 'x{a}'"),
        ("if-expr", "(if a then 'p{a}' else [a])"), ("if-inline", "if a then 'x{a}'"), ("fn-literal", "(|x| 'q{x}')"),
        ("id", "a"), ("int", "1"), ("null", "null"), ("size", "size a"), ("nested-parens", "((('z{a}')))"), ("str-concat", "'a{a}' + 'b{a}'"),
    ];
    let contexts: Vec<(&str, &str)> = vec![
        ("main", "a = 1\ng = |x| x\n@E\n@E\na\n"),
        ("for", "a = 1\ng = |x| x\nfor i in 0..3\n  @E\n  a += 1\na\n"),
        ("for-last", "a = 1\ng = |x| x\nfor i in 0..3\n  a += 1\n  @E\na\n"),
        ("while", "a = 1\ng = |x| x\nwhile a < 4\n  @E\n  a += 1\na\n"),
        ("until", "a = 1\ng = |x| x\nuntil a > 3\n  a += 1\n  @E\na\n"),
        ("loop", "a = 1\ng = |x| x\nloop\n  @E\n  a += 1\n  if a > 3 then break\n  @E\na\n"),
        ("if-arms", "a = 1\ng = |x| x\nif a > 5\n  @E\n  a = 2\nelse if a > 0\n  @E\n  a = 3\nelse\n  @E\n  a = 4\na\n"),
        ("if-arms-last", "a = 1\ng = |x| x\nif a > 0\n  @E\nelse\n  @E\na\n"),
        ("match", "a = 1\ng = |x| x\nmatch a\n  1 then\n    @E\n    a = 2\n  x then\n    @E\na\n"),
        ("switch", "a = 1\ng = |x| x\nswitch\n  a > 5 then\n    @E\n  else\n    @E\n    a = 2\na\n"),
        ("try", "a = 1\ng = |x| x\ntry\n  @E\n  a = 2\n  throw 'e'\ncatch e\n  @E\n  a = 3\nfinally\n  @E\n  a = 4\na\n"),
        ("function", "g = |x| x\nf = |a, g|\n  @E\n  @E\n  a\nf(1, g)\n"),
        ("generator", "g = |x| x\nf = |a, g|\n  @E\n  yield a\n  @E\n  yield a\nf(1, g).to_list()\n"),
        ("fn-loop-try", "g = |x| x\nf = |a, g|\n  for i in 0..2\n    try\n      @E\n      a += 1\n    catch e\n      @E\n    while false\n      @E\n  a\nf(1, g)\n"),
        ("nested-loops", "a = 1\ng = |x| x\nfor i in 0..2\n  for j in 0..2\n    @E\n    if j == 1 then continue\n    @E\n  @E\na\n"),
    ];
    let mut v = vec![];
    for (cn, ct) in &contexts {
        for (en, e) in &exprs {
            v.push((format!("discard-{}:{}", cn, en), ct.replace("@E", e)));
        }
    }
    v
}

/// A function / generator whose *last* statement is a `return` / `return x` / `break` / `continue` /
/// `throw` / `yield`, nested 1..=3 deep in blocks without an else path (former F-C05-7: the implicit
/// Return was dropped and control ran past the end of the unit).
fn gen_tail_program(rng: &mut Rng) -> String {
    let depth = 1 + rng.below(3);
    let wrappers: Vec<usize> = (0..depth).map(|_| rng.below(10)).collect();
    let has_loop = wrappers.iter().any(|w| (1..=4).contains(w));
    let is_gen = rng.chance(1, 4);
    let terminal = match rng.below(7) {
        0 => "return".to_string(),
        1 => "return c".to_string(),
        2 if has_loop => "break".to_string(),
        3 if has_loop => "continue".to_string(),
        4 => "throw 'tail'".to_string(),
        5 if is_gen => "yield c".to_string(),
        _ => "return".to_string(),
    };
    let mut s = String::from("f = |c, n|\n");
    for _ in 0..rng.below(3) {
        s.push_str("  n += 1\n");
    }
    if is_gen && !terminal.starts_with("yield") {
        s.push_str("  yield n\n");
    }
    let mut ind = 1;
    for w in &wrappers {
        let pad = "  ".repeat(ind);
        match w {
            0 => s.push_str(&format!("{}if c\n", pad)),
            1 => s.push_str(&format!("{}for i{} in 0..2\n", pad, ind)),
            2 => s.push_str(&format!("{}while c\n", pad)),
            3 => s.push_str(&format!("{}until not c\n", pad)),
            4 => s.push_str(&format!("{}loop\n{}  if not c then break\n", pad, pad)),
            5 => {
                s.push_str(&format!("{}match c\n{}  true then\n", pad, pad));
                ind += 1;
            }
            6 => {
                s.push_str(&format!("{}switch\n{}  c then\n", pad, pad));
                ind += 1;
            }
            7 => s.push_str(&format!("{}try\n", pad)),
            8 => s.push_str(&format!("{}try\n{}  n += 1\n{}  if c then throw 'x'\n{}catch e{}\n", pad, pad, pad, pad, ind)),
            _ => s.push_str(&format!("{}if n > 100\n{}  n = 0\n{}else if c\n", pad, pad, pad)),
        }
        ind += 1;
    }
    s.push_str(&format!("{}{}\n", "  ".repeat(ind), terminal));
    // close the try wrappers (a try needs its catch)
    let mut level = ind;
    for w in wrappers.iter().rev() {
        level -= 1;
        if *w == 5 || *w == 6 {
            level -= 1;
        }
        if *w == 7 {
            s.push_str(&format!("{}catch e{}\n{}  n += 2\n", "  ".repeat(level), level, "  ".repeat(level)));
        }
    }
    if is_gen {
        s.push_str("r = []\nfor x in f(false, 0)\n  r.push x\ntry\n  for x in f(true, 0).take(3)\n    r.push x\ncatch e\n  r.push 'e'\nr\n");
    } else {
        s.push_str("a = f(false, 0)\nb = try\n  f(true, 0)\ncatch e\n  'e'\na, b\n");
    }
    s
}

/// Loops and try blocks nested up to five deep in every order, with `break` / `continue` (and
/// `return` in functions) at the innermost position: try depth 0..=3 at the jump, nested loops
/// inside try, try inside loop inside try, jumps in catch and finally blocks (former F-C05-6).
fn gen_try_loop_program(rng: &mut Rng) -> String {
    fn emit(rng: &mut Rng, out: &mut String, layers: &[u8], ind: usize, have_loop: bool, in_fn: bool) {
        let pad = "  ".repeat(ind);
        if layers.is_empty() {
            out.push_str(&format!("{}n += 1\n", pad));
            if have_loop {
                match rng.below(5) {
                    0 => out.push_str(&format!("{}if n > 3 then break\n", pad)),
                    1 => out.push_str(&format!("{}if n > 3 then continue\n", pad)),
                    2 => out.push_str(&format!("{}if n > 5\n{}  break\n{}else if n > 2\n{}  continue\n", pad, pad, pad, pad)),
                    3 => out.push_str(&format!("{}break\n", pad)),
                    _ => out.push_str(&format!("{}continue\n", pad)),
                }
            } else if in_fn {
                out.push_str(&format!("{}if n > 3 then return n\n", pad));
            }
            return;
        }
        let rest = &layers[1..];
        match layers[0] {
            0 => {
                out.push_str(&format!("{}for i{} in 0..4\n", pad, ind));
                emit(rng, out, rest, ind + 1, true, in_fn);
            }
            1 => {
                out.push_str(&format!("{}while n < 20\n", pad));
                emit(rng, out, rest, ind + 1, true, in_fn);
            }
            2 => {
                out.push_str(&format!("{}until n > 20\n", pad));
                emit(rng, out, rest, ind + 1, true, in_fn);
            }
            3 => {
                out.push_str(&format!("{}loop\n", pad));
                emit(rng, out, rest, ind + 1, true, in_fn);
                out.push_str(&format!("{}  if n > 30 then break\n", pad));
            }
            4 => {
                // loop used as a value: `break` carries a value
                out.push_str(&format!("{}v{} = loop\n", pad, ind));
                emit(rng, out, rest, ind + 1, false, in_fn);
                out.push_str(&format!("{}  if n > 2 then break n\n", pad));
            }
            k => {
                // 5: jump in the try block, 6: in the catch block, 7: in the finally block
                let simple = format!("{}  n += 2\n", pad);
                out.push_str(&format!("{}try\n", pad));
                if k == 5 {
                    emit(rng, out, rest, ind + 1, have_loop, in_fn);
                    if rng.chance(1, 3) {
                        out.push_str(&format!("{}  throw 'x'\n", pad));
                    }
                } else {
                    out.push_str(&simple);
                    out.push_str(&format!("{}  if n > 1 then throw 'x'\n", pad));
                }
                if rng.chance(1, 4) {
                    out.push_str(&format!("{}catch e{}: Number\n{}  n += 3\n", pad, ind, pad));
                }
                out.push_str(&format!("{}catch e{}\n", pad, ind));
                if k == 6 {
                    emit(rng, out, rest, ind + 1, have_loop, in_fn);
                } else {
                    out.push_str(&simple);
                }
                if k == 7 || rng.chance(1, 4) {
                    out.push_str(&format!("{}finally\n", pad));
                    if k == 7 {
                        emit(rng, out, rest, ind + 1, have_loop, in_fn);
                    } else {
                        out.push_str(&simple);
                    }
                }
            }
        }
        out.push_str(&format!("{}n += 1\n", pad));
    }
    let depth = 2 + rng.below(4);
    let mut layers: Vec<u8> = (0..depth).map(|_| if rng.chance(1, 2) { rng.below(5) as u8 } else { 5 + rng.below(3) as u8 }).collect();
    if !layers.iter().any(|l| *l <= 3) {
        let k = rng.below(layers.len());
        layers[k] = rng.below(4) as u8;
    }
    let mut out = String::from("n = 0\n");
    if rng.chance(1, 3) {
        out.push_str("f = |n|\n");
        emit(rng, &mut out, &layers, 1, false, true);
        out.push_str("  n\nf(0)\n");
    } else {
        emit(rng, &mut out, &layers, 0, false, false);
        out.push_str("n\n");
    }
    out
}

fn gen_program(rng: &mut Rng) -> String {
    let mut g = Gen { rng: rng.fork(), out: String::new(), next_id: 0 };
    let mut sc = Scope { vars: vec![], cap: vec![], in_loop: false, in_fn: false, in_gen: false, no_jump: false };
    let n = 2 + g.rng.below(8);
    let d = 1 + g.rng.below(3) as u32;
    for _ in 0..n {
        g.stmt(&mut sc, 0, d);
    }
    g.out
}

// ---------------------------------------------------------------------------------------------
// size-scaled programs approaching each encoding limit
// ---------------------------------------------------------------------------------------------

/// `n` statements of a few bytes each, indented by `ind` levels, no jumps inside.
fn filler(n: usize, ind: usize, var: &str) -> String {
    let pad = "  ".repeat(ind);
    let mut s = String::with_capacity(n * 16);
    for i in 0..n {
        // 7 bytes (LoadInt/SetNumber + Add) or 2–3 bytes, mixed so that every length is reachable
        match i % 3 {
            0 => s.push_str(&format!("{}{} = {} + 1000\n", pad, var, var)),
            1 => s.push_str(&format!("{}{} = 1\n", pad, var)),
            _ => s.push_str(&format!("{}{} = 2\n", pad, var)),
        }
    }
    s
}

/// (label, source). `fine`: more sizes around the 64 KiB thresholds.
fn scaled_programs(rng: &mut Rng, fine: bool) -> Vec<(String, String)> {
    let mut v: Vec<(String, String)> = vec![];
    // locals at top level and inside a function (255 locals: 1 + 255 no longer fits, former F-C05-3)
    for n in 248..=262usize {
        let mut s = String::new();
        for i in 0..n {
            s.push_str(&format!("x{} = {}\n", i, i % 7));
        }
        s.push_str("x0 + x1\n");
        v.push((format!("locals-main-{}", n), s));
        let mut s = String::from("f = ||\n");
        for i in 0..n {
            s.push_str(&format!("  x{} = {}\n", i, i % 7));
        }
        s.push_str("  x0 + x1\nf()\n");
        v.push((format!("locals-fn-{}", n), s));
    }
    // locals + one capture / placeholders with the sum ≤ 255
    for (l, c) in [(200usize, 1usize), (252, 1), (253, 1)] {
        let mut s = String::from("c0 = 1\nf = |_, _|\n");
        for i in 0..l {
            s.push_str(&format!("  x{} = {}\n", i, i % 5));
        }
        let _ = c;
        s.push_str("  c0 + x0\nf(1, 2)\n");
        // placeholders count as well: 1 + l + 1 capture + 2 placeholders
        if 1 + l + 1 + 2 <= 255 {
            v.push((format!("locals-{}-capture-placeholders", l), s));
        }
    }
    // locals + captures around the limit: 1 + locals + captures in 250..=262 (former F-C05-3 shape)
    for (l, c) in [(248usize, 12usize), (240, 9), (240, 14), (240, 15), (243, 11), (244, 11), (230, 24), (230, 25), (200, 54), (200, 55), (250, 4), (250, 5), (253, 1), (253, 2), (254, 0), (254, 1)] {
        let mut s = String::new();
        for i in 0..c {
            s.push_str(&format!("c{} = {}\n", i, i));
        }
        s.push_str("f = ||\n");
        for i in 0..l {
            s.push_str(&format!("  x{} = {}\n", i, i % 7));
        }
        let caps: Vec<String> = (0..c).map(|i| format!("c{}", i)).collect();
        s.push_str(&format!("  {}\nf()\n", if c == 0 { "x0".to_string() } else { caps.join(" + ") }));
        v.push((format!("locals-{}-captures-{}", l, c), s));
    }
    // temporaries: right-nested arithmetic and nested calls
    for depth in [100usize, 200, 240, 250, 252, 253, 254, 255, 256, 260] {
        let mut s = String::from("a = 1\nx = ");
        for _ in 0..depth {
            s.push_str("a + (");
        }
        s.push('a');
        for _ in 0..depth {
            s.push(')');
        }
        s.push('\n');
        v.push((format!("temps-nested-arith-{}", depth), s));
    }
    for depth in [60usize, 120, 126, 127, 128, 130] {
        let mut s = String::from("f = |x, y| x\nz = ");
        for _ in 0..depth {
            s.push_str("f(1, ");
        }
        s.push('2');
        for _ in 0..depth {
            s.push(')');
        }
        s.push('\n');
        v.push((format!("temps-nested-calls-{}", depth), s));
    }
    // long call argument lists, long list / tuple literals, long temp tuples
    for n in [200usize, 250, 252, 253, 254, 255, 256, 257, 300, 600] {
        let args: Vec<String> = (0..n).map(|i| (i % 9).to_string()).collect();
        v.push((format!("call-args-{}", n), format!("f = |xs...| xs\ny = f({})\n", args.join(", "))));
        v.push((format!("list-literal-{}", n), format!("y = [{}]\nz = ({})\n", args.join(", "), args.join(", "))));
        let ids: Vec<String> = (0..n.min(300)).map(|i| format!("a{}", i)).collect();
        v.push((format!("multi-assign-{}", n), format!("{} = {}\n", ids.join(", "), args[..n.min(300)].join(", "))));
    }
    // function parameters
    for n in [250usize, 253, 254, 255, 256, 257] {
        let ps: Vec<String> = (0..n).map(|i| format!("a{}", i)).collect();
        v.push((format!("fn-params-{}", n), format!("f = |{}| a0\nf(1)\n", ps.join(", "))));
        let us: Vec<String> = (0..n).map(|_| "_".to_string()).collect();
        v.push((format!("fn-placeholders-{}", n), format!("f = |{}| 1\nf(1)\n", us.join(", "))));
    }
    // constants: many distinct constants (var-u32 indices of 2 bytes)
    {
        let mut s = String::new();
        for i in 0..300 {
            s.push_str(&format!("s{} = 'str{}' + '{}'\nn{} = {}\n", i % 20, i, i + 1000, i % 20, 1000 + i));
        }
        v.push(("constants-900".into(), s));
    }
    // jumps around 64 KiB. A filler statement triple is 7 + 2 + 3 = 12 bytes.
    let mut sizes: Vec<usize> = vec![15000, 16350, 16380, 16390, 16400, 17000];
    if fine {
        sizes = (16360..=16400).step_by(1).collect();
        sizes.extend([12000, 15000, 17500]);
    } else {
        sizes.push(16360 + rng.below(40));
        sizes.push(16360 + rng.below(40));
    }
    for n in sizes {
        let body1 = filler(n, 1, "n");
        // `loop` bodies: with an early `break` (forward jump) and with a late one (only the backward jump
        // spans the body: the former F-C05-1 shape)
        v.push((format!("loop-{}", n), format!("n = 0\nloop\n{}  if n > 100000000 then break\n", body1)));
        v.push((format!("loop-continue-{}", n), format!("n = 0\nloop\n  n += 1\n  if n > 9 then break\n{}  if n > 5 then continue\n  n = 7\n", body1)));
        v.push((format!("loop-break-{}", n), format!("n = 0\nloop\n  if n > 5 then break\n{}", body1)));
        v.push((format!("while-{}", n), format!("n = 0\nwhile n < 5\n{}", body1)));
        v.push((format!("until-{}", n), format!("n = 0\nuntil n > 5\n{}", body1)));
        v.push((format!("for-{}", n), format!("n = 0\nfor i in 0..3\n{}", body1)));
        v.push((format!("if-{}", n), format!("n = 0\nif n == 0\n{}else\n  n = 3\n", body1)));
        v.push((format!("fn-body-{}", n), format!("f = |n|\n{}  n\nf(1)\n", body1)));
        v.push((format!("try-{}", n), format!("n = 0\ntry\n{}catch e\n  n = 1\n", body1)));
        v.push((format!("match-arm-{}", n), format!("n = 0\nmatch n\n  0 then\n{}  else\n    n = 1\n", filler(n, 2, "n"))));
    }
    // small `loop`s of every shape are always fine
    v.push(("loop-small".into(), format!("n = 0\nloop\n{}  if n > 3 then break\n", filler(30, 1, "n"))));
    v
}

/// Register pressure: fill the frame's register file to every level 236..=255 (by locals, by call
/// arguments, by nested temporaries), then compile each construct that allocates registers in batches
/// or on demand. Oracle: well-formed code or a compile error, never a panic (former F-C05-8).
fn pressure_programs() -> Vec<(String, String)> {
    let exprs: Vec<(&str, &str)> = vec![
        ("list0", "[]"), ("list1", "[a]"), ("list2", "[a, a]"), ("list3", "[a, a, a]"), ("list9", "[a, 1, 2, 3, 4, 5, 6, 7, 8]"),
        ("tuple0", "()"), ("tuple1", "(a,)"), ("tuple2", "(a, a)"), ("tuple9", "(a, 1, 2, 3, 4, 5, 6, 7, 8)"),
        ("nested-lists", "[[a, a], [a, [a, a]]]"),
        ("map0", "{}"), ("map1", "{k: a}"), ("map3", "{k: a, l: a, m: [a, a]}"),
        ("str1", "'{a}'"), ("str3", "'x{a}y{a:>5}z{a + 1}'"), ("str-nested", "'{[a, a]}{'{a}'}'"),
        ("call1", "g(a)"), ("call3", "g(a, a, a)"), ("call-nested", "g(g(g(a), a), [a, a])"), ("call-packed", "g(a, a...)"),
        ("chain", "a.x.y(a).z[a]"), ("chain-call", "a.foo(a, a).bar(a)"), ("range", "(a..a + 1)"), ("range-list", "[a..a, a..=a]"),
        ("arith", "a + a * (a - a) / a"), ("cmp-chain", "a < a <= a"), ("logic", "a and (a or [a, a])"),
        ("if-expr", "(if a then [a, a] else (a, a))"), ("fn", "(|x, y| [x, y, a])"), ("neg-not", "(-a, not a)"),
    ];
    let stmts: Vec<(&str, &str)> = vec![
        ("match-tuple", "match a\n    (x, y) then x\n    (x, ...) then [x, a]\n    else a"),
        ("match-multi", "match a, a\n    0, 1 then a\n    x, (y, z) if x then [y, z]"),
        ("for-args", "for x, y, z in a\n    [x, y, z]"),
        ("for-nested", "for x in a\n    for y, z in x\n      [x, y, z]"),
        ("unpack", "p, q, r = a"), ("unpack-list", "p, q = [a, a], (a, a)"), ("unpack-call", "p, q = g(a, a)"),
        ("multi-assign-temp", "p, q = a, a"), ("try", "try\n    [a, a]\n  catch e\n    (e, a)"),
        ("while", "while [a, a]\n    break"), ("switch", "switch\n    a then [a, a]\n    else (a, a)"),
        ("compound", "a += [a, a].size()"), ("index-assign", "a[a] = [a, a]"), ("access-assign", "a.k = (a, a)"),
        ("export-map", "export {k: a, l: [a, a]}"), ("import", "from string import to_number, to_upper"), ("debug", "debug [a, a]"),
        ("let-hint", "let t: List = [a, a]"), ("yield", "yield [a, a]"), ("return-list", "return [a, a]"), ("throw", "throw [a, a]"),
    ];
    let mut v = vec![];
    for level in 236..=255usize {
        // (a) locals: the function has `level - 2` own locals + `a`, `g` as arguments: temporary_base = 1 + level
        let mut head = String::from("f = |a, g|\n");
        for i in 0..level.saturating_sub(2) {
            head.push_str(&format!("  x{} = 0\n", i));
        }
        for (name, e) in &exprs {
            v.push((format!("pressure-locals-{}:{}", level, name), format!("{}  r = {}\n  r\n", head, e)));
        }
        for (name, st) in &stmts {
            v.push((format!("pressure-locals-{}:{}", level, name), format!("{}  {}\n  a\n", head, st)));
        }
        // (b) call arguments: `level - 3` preceding arguments in temporaries
        let pre: Vec<String> = (0..level.saturating_sub(3)).map(|i| (i % 10).to_string()).collect();
        // (c) nested temporaries: `level - 3` pending left operands
        for (name, e) in &exprs {
            v.push((format!("pressure-args-{}:{}", level, name), format!("f = |a, g|\n  g({}, {})\n", pre.join(", "), e)));
            let mut s = String::from("f = |a, g|\n  r = ");
            let depth = level.saturating_sub(3);
            for _ in 0..depth {
                s.push_str("1 + (");
            }
            s.push_str(e);
            for _ in 0..depth {
                s.push(')');
            }
            s.push_str("\n  r\n");
            v.push((format!("pressure-nest-{}:{}", level, name), s));
        }
    }
    v
}

/// F-C05-1 shape: a `loop` without an early forward jump whose body exceeds 64 KiB.
fn witness_big_loop() -> String {
    format!("n = 0\nloop\n{}  if n > 100000000 then break\n", filler(16800, 1, "n"))
}
/// F-C05-3 shape: 248 locals + 12 captures.
fn witness_frame_sum() -> String {
    let mut s = String::new();
    for i in 0..12 {
        s.push_str(&format!("c{} = {}\n", i, i));
    }
    s.push_str("f = ||\n");
    for i in 0..248 {
        s.push_str(&format!("  x{} = {}\n", i, i % 7));
    }
    let caps: Vec<String> = (0..12).map(|i| format!("c{}", i)).collect();
    s.push_str(&format!("  {}\nf()\n", caps.join(" + ")));
    s
}

// ---------------------------------------------------------------------------------------------
// (K) Model/Frame.lean vs the real allocator (hook H3)
// ---------------------------------------------------------------------------------------------

fn frame_err(e: &str) -> String {
    let num = |p: &str, s: &str| -> Option<String> { e.strip_prefix(p).and_then(|r| r.strip_suffix(s)).map(|x| x.to_string()) };
    if e == "empty register stack" {
        "E:EmptyRegisterStack".into()
    } else if e == "local register overflow" {
        "E:LocalRegisterOverflow".into()
    } else if e == "the frame has reached the maximum number of registers" {
        "E:StackOverflow".into()
    } else if let Some(n) = num("unable to commit register ", "") {
        format!("E:UnableToCommitRegister({})", n)
    } else if let Some(n) = num("unable to peek register ", "") {
        format!("E:UnableToPeekRegister({})", n)
    } else if let Some(n) = num("unexpected temporary register ", "") {
        format!("E:UnexpectedTemporaryRegister({})", n)
    } else if let Some(n) = num("register ", " hasn't been reserved") {
        format!("E:UnreservedRegister({})", n)
    } else {
        format!("E:?{}", e)
    }
}

#[derive(Clone, Debug)]
enum FOp {
    Push,
    Pop,
    Peek(usize),
    Trunc(usize),
    Assign(u32),
    Reserve(u32),
    Commit(u8),
    Defer(u8, Vec<u8>),
    Export(u32),
    Used,
    Next,
    Avail,
    Size,
    Assigned(u32),
    Aor(u32),
    Captures(Vec<u32>),
}

fn fop_text(o: &FOp) -> String {
    match o {
        FOp::Push => "(push)".into(),
        FOp::Pop => "(pop)".into(),
        FOp::Peek(n) => format!("(peek {})", n),
        FOp::Trunc(n) => format!("(trunc {})", n),
        FOp::Assign(i) => format!("(assign {})", i),
        FOp::Reserve(i) => format!("(reserve {})", i),
        FOp::Commit(r) => format!("(commit {})", r),
        FOp::Defer(r, b) => format!("(defer {} {})", r, kvh::hex(b)),
        FOp::Export(i) => format!("(export {})", i),
        FOp::Used => "(used)".into(),
        FOp::Next => "(next)".into(),
        FOp::Avail => "(avail)".into(),
        FOp::Size => "(size)".into(),
        FOp::Assigned(i) => format!("(assigned {})", i),
        FOp::Aor(i) => format!("(aor {})", i),
        FOp::Captures(v) => format!("(captures{})", v.iter().map(|x| format!(" {}", x)).collect::<String>()),
    }
}

struct FrameCase {
    local_count: u8,
    args: Vec<VerifArg>,
    captures: Vec<u32>,
    ops: Vec<FOp>,
}

fn frame_request(c: &FrameCase) -> String {
    let args: Vec<String> = c
        .args
        .iter()
        .map(|a| match a {
            VerifArg::Local(i) => format!("L{}", i),
            VerifArg::Unpacked(i) => format!("U{}", i),
            VerifArg::Placeholder => "P".into(),
        })
        .collect();
    let caps: Vec<String> = c.captures.iter().map(|x| x.to_string()).collect();
    let ops: Vec<String> = c.ops.iter().map(fop_text).collect();
    format!("frame {} ({}) ({}) {}", c.local_count, args.join(" "), caps.join(" "), ops.join(" ")).trim_end().to_string()
}

fn frame_real(c: &FrameCase) -> String {
    let mut f = match kvh::catch(|| VerifFrame::new(c.local_count, &c.args, &c.captures)) {
        Ok(f) => f,
        Err(_) => return "PANIC".into(),
    };
    let mut out = vec!["new".to_string()];
    let reg = |r: Result<u8, String>| match r {
        Ok(x) => format!("r{}", x),
        Err(e) => frame_err(&e),
    };
    for o in &c.ops {
        let res = kvh::catch(|| match o {
            FOp::Push => reg(f.push_register()),
            FOp::Pop => reg(f.pop_register()),
            FOp::Peek(n) => reg(f.peek_register(*n)),
            FOp::Trunc(n) => match f.truncate_register_stack(*n) {
                Ok(()) => "u".into(),
                Err(e) => frame_err(&e),
            },
            FOp::Assign(i) => reg(f.assign_local_register(*i)),
            FOp::Reserve(i) => reg(f.reserve_local_register(*i)),
            FOp::Commit(r) => match f.commit_local_register(*r) {
                Ok(ops) => format!("d[{}]", ops.iter().map(|b| kvh::hex(b)).collect::<Vec<_>>().join(",")),
                Err(e) => frame_err(&e),
            },
            FOp::Defer(r, b) => match f.defer_op_until_register_is_committed(*r, b.clone()) {
                Ok(()) => "u".into(),
                Err(e) => frame_err(&e),
            },
            FOp::Export(i) => {
                f.add_to_exported_ids(*i);
                "u".into()
            }
            FOp::Used => format!("n{}", f.registers_used()),
            FOp::Next => format!("n{}", f.next_temporary_register()),
            FOp::Avail => format!("n{}", f.available_registers_count()),
            FOp::Size => format!("n{}", f.register_stack_size()),
            FOp::Assigned(i) => match f.get_local_assigned_register(*i) {
                Some(r) => format!("r{}", r),
                None => "none".into(),
            },
            FOp::Aor(i) => match f.get_local_assigned_or_reserved_register(*i) {
                Some((0, r)) => format!("A{}", r),
                Some((_, r)) => format!("R{}", r),
                None => "none".into(),
            },
            FOp::Captures(v) => format!("c[{}]", f.captures_for_nested_frame(v).iter().map(|x| x.to_string()).collect::<Vec<_>>().join(",")),
        });
        match res {
            Ok(s) => out.push(s),
            Err(_) => {
                out.push("PANIC".into());
                break;
            }
        }
    }
    out.join(" ")
}

fn gen_frame_case(rng: &mut Rng) -> FrameCase {
    let near = rng.chance(1, 2);
    let local_count: u8 = if near { rng.range(236, 255) as u8 } else { rng.range(0, 12) as u8 };
    let nargs = rng.below(5);
    let mut args = vec![];
    for _ in 0..nargs {
        args.push(match rng.below(3) {
            0 => VerifArg::Local(rng.below(6) as u32),
            1 => VerifArg::Unpacked(rng.below(6) as u32),
            _ => VerifArg::Placeholder,
        });
    }
    let ncap = if rng.chance(1, 6) { rng.below(20) } else { rng.below(3) };
    let captures: Vec<u32> = (0..ncap).map(|_| 6 + rng.below(4) as u32).collect();
    let nops = if near { 5 + rng.below(60) } else { 5 + rng.below(400) };
    let mut ops = vec![];
    let mut burst = 0usize;
    for _ in 0..nops {
        if burst > 0 {
            burst -= 1;
            ops.push(FOp::Push);
            continue;
        }
        let id = rng.below(14) as u32;
        ops.push(match rng.below(24) {
            0..=5 => FOp::Push,
            6..=8 => FOp::Pop,
            9 => FOp::Peek(rng.below(4)),
            10 => FOp::Trunc(rng.below(6)),
            11 | 12 => FOp::Assign(if rng.chance(1, 3) { 100 + rng.below(300) as u32 } else { id }),
            13 | 14 => FOp::Reserve(if rng.chance(1, 3) { 100 + rng.below(300) as u32 } else { id }),
            15 => FOp::Commit(rng.below(12) as u8),
            16 => FOp::Defer(rng.below(12) as u8, vec![28, rng.below(9) as u8, rng.below(3) as u8, rng.below(9) as u8]),
            17 => FOp::Export(id),
            18 => FOp::Used,
            19 => FOp::Next,
            20 => FOp::Avail,
            21 => {
                if rng.chance(1, 2) {
                    FOp::Size
                } else {
                    FOp::Aor(id)
                }
            }
            22 => {
                if rng.chance(1, 2) {
                    FOp::Assigned(id)
                } else {
                    FOp::Captures((0..rng.below(6)).map(|_| rng.below(14) as u32).collect())
                }
            }
            _ => {
                burst = if rng.chance(1, 3) { 260 } else { rng.below(30) };
                FOp::Push
            }
        });
    }
    FrameCase { local_count, args, captures, ops }
}

// ---------------------------------------------------------------------------------------------
// compile via our own parse (so that the AST that was compiled is known)
// ---------------------------------------------------------------------------------------------

struct Built {
    chunk: Ptr<Chunk>,
    ast: Ast,
    bytes_h: u64,
    consts_h: u64,
    raw_h: u64,
    norm_h: u64,
}

enum Outcome {
    ParseError,
    ParsePanic(String),
    CompileError(String),
    Panic(String, String),
    Ok(Built),
}

fn build(src: &str) -> Outcome {
    let ast = match kvh::catch(|| Parser::parse(src)) {
        Err(p) => return Outcome::ParsePanic(p),
        Ok(Err(_)) => return Outcome::ParseError,
        Ok(Ok(a)) => a,
    };
    let a2 = ast.clone();
    match kvh::catch(move || Compiler::compile_ast(a2, None, CompilerSettings::default())) {
        Err(p) => Outcome::Panic(p, last_panic_loc()),
        Ok(Err(e)) => Outcome::CompileError(e.to_string()),
        Ok(Ok(c)) => {
            let (raw_h, norm_h) = ast_hashes(&ast);
            let bytes_h = kvh::fnv1a(&c.bytes);
            let consts_h = kvh::fnv1a(const_canon(&c).as_bytes());
            Outcome::Ok(Built { chunk: Ptr::from(c), ast, bytes_h, consts_h, raw_h, norm_h })
        }
    }
}

/// Error kinds / messages that mean "the VM met malformed code", not a user-level error.
fn internal_fault(e: &koto_runtime::Error) -> Option<String> {
    use koto_runtime::ErrorKind as K;
    match &e.error {
        K::UnexpectedError => Some("UnexpectedError".into()),
        K::MissingSequenceBuilder => Some("MissingSequenceBuilder".into()),
        K::MissingStringBuilder => Some("MissingStringBuilder".into()),
        K::EmptyCallStack => Some("EmptyCallStack".into()),
        K::StringError(s)
            if s.starts_with("Unexpected opcode")
                || s.starts_with("Instruction access out of bounds")
                || s.starts_with("Invalid function flags")
                || s.starts_with("Invalid string format")
                || s.starts_with("Unexpected meta id") =>
        {
            Some(format!("Instruction::Error({})", s))
        }
        _ => None,
    }
}

/// worker side: `c <xhex source>` compile and report hashes; `r <xhex source>` compile and run.
fn worker_main() {
    install_panic_hook();
    kvh::worker::serve(|line| {
        let (cmd, h) = line.split_once(' ').unwrap_or((line, ""));
        let src = match kvh::unhex(h).and_then(|b| String::from_utf8(b).ok()) {
            Some(s) => s,
            None => return "bad".into(),
        };
        match (cmd, build(&src)) {
            (_, Outcome::ParseError) => "parse-error".into(),
            (_, Outcome::ParsePanic(_)) => "parse-panic".into(),
            (_, Outcome::CompileError(_)) => "compile-error".into(),
            (_, Outcome::Panic(_, _)) => "compile-panic".into(),
            ("c", Outcome::Ok(b)) => format!("ok {:x} {:x} {:x} {:x}", b.bytes_h, b.consts_h, b.raw_h, b.norm_h),
            ("v", Outcome::Ok(b)) => {
                let settings = koto_runtime::KotoVmSettings { execution_limit: Some(Duration::from_millis(500)), ..Default::default() };
                let chunk = b.chunk.clone();
                match kvh::catch(move || {
                    let mut vm = koto_runtime::KotoVm::with_settings(settings);
                    match vm.run(chunk) {
                        Ok(v) => format!("value {}", kvh::canon::value(&v)),
                        // the error kind only: rendering the whole error (source excerpts) is C12's business
                        Err(e) => format!("error {}", e.error.to_string().replace(' ', "_").replace('\n', "/").chars().take(120).collect::<String>()),
                    }
                }) {
                    Ok(s) => s,
                    Err(p) => format!("panic {}@{}", p.replace(' ', "_").chars().take(80).collect::<String>(), last_panic_loc()),
                }
            }
            ("r", Outcome::Ok(b)) => {
                let settings = koto_runtime::KotoVmSettings { execution_limit: Some(Duration::from_millis(60)), ..Default::default() };
                let chunk = b.chunk.clone();
                let r = kvh::catch(move || {
                    let mut vm = koto_runtime::KotoVm::with_settings(settings);
                    match vm.run(chunk) {
                        Ok(_) => "ran".to_string(),
                        Err(e) => match internal_fault(&e) {
                            Some(k) => format!("fault {}", k.replace(' ', "_")),
                            None => "error".to_string(),
                        },
                    }
                });
                match r {
                    Ok(s) => s,
                    Err(p) => {
                        if p.starts_with("Out of bounds access") {
                            format!("fault register-out-of-bounds-panic@{}", last_panic_loc())
                        } else {
                            format!("panic {}@{}", p.replace(' ', "_").chars().take(80).collect::<String>(), last_panic_loc())
                        }
                    }
                }
            }
            _ => "bad".into(),
        }
    });
}

// ---------------------------------------------------------------------------------------------
// the check
// ---------------------------------------------------------------------------------------------

struct Pending {
    origin: String,
    src: String,
    built: Built,
    real_dis: String,
    shape: Shape,
}

struct Ctx {
    rep: Report,
    drv: Driver,
    worker: Worker,
    open: Vec<String>,
    pending: Vec<Pending>,
    pending_bytes: usize,
    known_counts: BTreeMap<String, u64>,
    programs: u64,
    disagreements_checked: u64,
    run_budget: u64,
    sampled: Vec<String>,
}

impl Ctx {
    fn is_open(&self, id: &str) -> bool {
        self.open.iter().any(|x| x == id)
    }
    fn attributed(&mut self, id: &str, origin: &str) {
        let n = self.known_counts.entry(id.to_string()).or_insert(0);
        *n += 1;
        if *n <= 4 {
            self.rep.note(format!("attributed to {} by its cause rule: {}", id, origin));
        }
        self.rep.bump(&format!("attributed:{}:{}", id, origin.split(':').next().unwrap_or("?")));
    }

    /// One program: compile (twice + in a child process), queue the chunk for the model.
    /// Returns true when the program compiled.
    fn submit(&mut self, origin: &str, src: &str, run: bool) -> bool {
        let kind = origin.split(':').next().unwrap_or("?").to_string();
        match build(src) {
            Outcome::ParseError => {
                self.rep.bump(&format!("{}:parse-error", kind));
                false
            }
            Outcome::ParsePanic(msg) => {
                self.rep.bump(&format!("{}:parser-panic(C06)", kind));
                if self.rep.notes.len() < 40 {
                    self.rep.note(format!("parser panic (outside C05's quantifier, see C06): {} — {}", origin, msg.chars().take(80).collect::<String>()));
                }
                false
            }
            Outcome::CompileError(e) => {
                self.rep.case(src, src.len() >= 8);
                self.rep.bump(&format!("{}:compile-error", kind));
                let short: String = e.chars().take(40).collect();
                self.rep.bump(&format!("compile-error={}", short.replace('\n', " ")));
                false
            }
            Outcome::Panic(_, _) if origin.starts_with("boundary-") => {
                // judged by the boundary sweep itself (the worker reports `compile-panic`)
                self.rep.bump(&format!("{}:compile-panic", kind));
                false
            }
            Outcome::Panic(msg, loc) => {
                self.rep.case(src, true);
                self.rep.violation(
                    "D",
                    "C05:compile-panic",
                    json!({"origin": origin, "program": src, "input_hex": kvh::hex(src.as_bytes()), "panic": msg, "location": loc,
                           "note": "the compiler panicked instead of reporting a compile error"}),
                );
                false
            }
            Outcome::Ok(b) => {
                self.programs += 1;
                self.rep.bump(&format!("{}:compiled", kind));
                let shape = shape_of(&b.ast);
                // ---- determinism, in process
                match build(src) {
                    Outcome::Ok(b2) => {
                        self.disagreements_checked += 1;
                        self.compare_builds(origin, src, &b, (b2.bytes_h, b2.consts_h, b2.raw_h, b2.norm_h), "second compilation in the same process", &shape);
                        // the compiler proper as a function of the AST
                        let a = b.ast.clone();
                        if let Ok(Ok(c3)) = kvh::catch(move || Compiler::compile_ast(a, None, CompilerSettings::default())) {
                            self.disagreements_checked += 1;
                            if kvh::fnv1a(&c3.bytes) != b.bytes_h || kvh::fnv1a(const_canon(&c3).as_bytes()) != b.consts_h {
                                self.rep.violation("D", "C05:determinism:compile_ast", json!({"origin": origin, "program": src, "input_hex": kvh::hex(src.as_bytes()),
                                    "note": "compiling the identical AST twice gave different code"}));
                            }
                        }
                    }
                    _ => {
                        self.rep.violation("D", "C05:determinism:outcome", json!({"origin": origin, "program": src, "input_hex": kvh::hex(src.as_bytes()),
                            "note": "the same text compiled once and failed to compile the second time"}));
                    }
                }
                // ---- determinism, across processes
                match self.worker.request(&format!("c {}", kvh::hex(src.as_bytes())), Duration::from_secs(60)) {
                    Reply::Ok(s) => {
                        let f: Vec<&str> = s.split(' ').collect();
                        if f.len() == 5 && f[0] == "ok" {
                            let p = |x: &str| u64::from_str_radix(x, 16).unwrap_or(0);
                            self.disagreements_checked += 1;
                            self.compare_builds(origin, src, &b, (p(f[1]), p(f[2]), p(f[3]), p(f[4])), "compilation in a second process", &shape);
                        } else {
                            self.rep.violation("D", "C05:determinism:outcome", json!({"origin": origin, "program": src, "input_hex": kvh::hex(src.as_bytes()),
                                "child": s, "note": "the text compiled here but not in a second process"}));
                        }
                    }
                    _ => self.rep.note(format!("worker did not answer a compile request ({})", origin)),
                }
                // ---- optional run
                if run && self.run_budget > 0 {
                    self.run_budget -= 1;
                    match self.worker.request(&format!("r {}", kvh::hex(src.as_bytes())), Duration::from_secs(10)) {
                        Reply::Ok(s) => {
                            let k = s.split(' ').next().unwrap_or("?").to_string();
                            self.rep.bump(&format!("run:{}", k));
                            if k == "panic" && self.rep.notes.len() < 60 {
                                self.rep.note(format!("run panicked (not an internal-fault kind of C05; see C06): {} — {}", origin, s));
                                self.rep.sample(json!({"origin": origin, "program": src, "run": s}));
                            }
                            if k == "fault" {
                                self.rep.violation("D", "C05:internal-fault-at-run-time", json!({"origin": origin, "program": src, "input_hex": kvh::hex(src.as_bytes()), "fault": s}));
                            }
                        }
                        Reply::Timeout => self.rep.bump("run:timeout"),
                        Reply::Died(_) => self.rep.bump("run:died"),
                    }
                }
                let (real_dis, n_ins, names) = disasm_real(&b.chunk);
                for n in names {
                    self.rep.bump(&format!("op={}", n));
                }
                self.rep.bump(&format!("chunk_len_log2={}", (b.chunk.bytes.len().max(1) as f64).log2() as u32));
                self.rep.bump(&format!("ast_nodes_log2={}", (shape.nodes.max(1) as f64).log2() as u32));
                self.rep.bump(&format!("functions={}", shape.functions.min(8)));
                self.rep.bump_by("instructions", n_ins as u64);
                let nontrivial = n_ins >= 4;
                self.rep.case(src, nontrivial);
                self.pending_bytes += b.chunk.bytes.len();
                self.pending.push(Pending { origin: origin.to_string(), src: src.to_string(), built: b, real_dis, shape });
                if self.pending.len() >= 200 || self.pending_bytes > 400_000 {
                    self.flush();
                }
                true
            }
        }
    }

    fn compare_builds(&mut self, origin: &str, src: &str, a: &Built, b: (u64, u64, u64, u64), what: &str, shape: &Shape) {
        let same_code = a.bytes_h == b.0 && a.consts_h == b.1;
        if a.norm_h != b.3 {
            self.rep.violation("D", "C05:determinism:parser", json!({"origin": origin, "program": src, "input_hex": kvh::hex(src.as_bytes()), "against": what,
                "note": "the two ASTs differ in more than the order of accessed_non_locals"}));
        } else if a.raw_h != b.2 {
            // same AST up to the order of some function's accessed_non_locals: the parser must produce one order
            // (fix 104324c of F-C05-2 sorts the list)
            self.rep.violation("D", "C05:determinism:capture-order", json!({"origin": origin, "program": src, "input_hex": kvh::hex(src.as_bytes()), "against": what,
                "same_code": same_code, "multi_non_local": shape.multi_non_local,
                "note": "the two ASTs differ in the order of a function's accessed_non_locals"}));
        } else if !same_code {
            self.rep.violation("D", "C05:determinism:compiler", json!({"origin": origin, "program": src, "input_hex": kvh::hex(src.as_bytes()), "against": what,
                "note": "identical ASTs, different code"}));
        }
    }

    fn flush(&mut self) {
        let items = std::mem::take(&mut self.pending);
        self.pending_bytes = 0;
        if items.is_empty() {
            return;
        }
        let mut reqs = vec![];
        for p in &items {
            let h = kvh::hex(&p.built.chunk.bytes);
            reqs.push(format!("wf {} {}", h, const_kinds(&p.built.chunk)));
            reqs.push(format!("dis {}", h));
        }
        let resps = self.drv.batch(&reqs);
        for (i, p) in items.iter().enumerate() {
            let wf = &resps[2 * i];
            let dis = &resps[2 * i + 1];
            self.one(p, wf, dis);
        }
    }

    fn one(&mut self, p: &Pending, wf: &str, dis: &str) {
        let detail = |extra: Value| {
            let mut d = json!({"origin": p.origin, "program": p.src, "input_hex": kvh::hex(p.src.as_bytes()),
                               "chunk_hex": if p.built.chunk.bytes.len() <= 4096 { kvh::hex(&p.built.chunk.bytes) } else { format!("<{} bytes>", p.built.chunk.bytes.len()) },
                               "constants": const_kinds(&p.built.chunk)});
            if let (Some(m), Some(e)) = (d.as_object_mut(), extra.as_object()) {
                for (k, v) in e {
                    m.insert(k.clone(), v.clone());
                }
            }
            d
        };
        // (K) decoder
        self.disagreements_checked += 1;
        if dis != p.real_dis {
            let a: Vec<&str> = dis.split('|').collect();
            let b: Vec<&str> = p.real_dis.split('|').collect();
            let k = a.iter().zip(b.iter()).position(|(x, y)| x != y).unwrap_or(a.len().min(b.len()));
            self.rep.violation(
                "K",
                "K:C05:Model.Decode.decode",
                detail(json!({"first_difference_at_instruction": k, "model": a.get(k), "impl": b.get(k),
                    "note": "the Lean decoder and InstructionReader disagree; instr_roundtrip / wfChunk no longer speak about this reader"})),
            );
        }
        let okind = p.origin.split(':').next().unwrap_or("?").to_string();
        if self.rep.samples.len() < 6 && p.built.chunk.bytes.len() > 24 && p.built.chunk.bytes.len() < 200 && !self.sampled.contains(&okind) {
            self.sampled.push(okind);
            self.rep.sample(json!({"origin": p.origin, "program": p.src, "request": format!("wf {} {}", kvh::hex(&p.built.chunk.bytes), const_kinds(&p.built.chunk)),
                                   "wfChunk": wf, "model_decoding": dis, "impl_decoding": p.real_dis}));
        }
        // (TV) verifier
        if wf == "ok" {
            self.rep.bump("wf=ok");
            return;
        }
        self.rep.bump("wf=fail");
        let reason = wf.strip_prefix("fail ").unwrap_or(wf);
        let (name, rest) = reason.split_once('@').unwrap_or((reason, ""));
        let _ = rest;
        // (F-C05-5, break / continue inside a literal, is repaired — 2f5d1ea —: no failure is attributed any more)
        let id: Option<&str> = None;
        match id {
            Some(id) if self.is_open(id) => self.attributed(id, &p.origin),
            _ => self.rep.violation(
                "D",
                &format!("C05:wfChunk:{}", name),
                detail(json!({"verifier": wf, "shape": format!("{:?}", p.shape),
                    "note": "the compiler accepted the program but the emitted chunk is not well formed"})),
            ),
        }
    }
}

// ---------------------------------------------------------------------------------------------
// sources
// ---------------------------------------------------------------------------------------------

fn walk(dir: &std::path::Path, out: &mut Vec<std::path::PathBuf>) {
    if let Ok(rd) = std::fs::read_dir(dir) {
        let mut es: Vec<_> = rd.filter_map(|e| e.ok()).map(|e| e.path()).collect();
        es.sort();
        for p in es {
            if p.is_dir() {
                if p.file_name().is_some_and(|n| n == "target" || n == ".git") {
                    continue;
                }
                walk(&p, out);
            } else if p.extension().is_some_and(|e| e == "koto" || e == "md") {
                out.push(p);
            }
        }
    }
}

/// koto code blocks of a markdown file, preprocessed like crates/test_utils doc_examples.rs
fn md_blocks(text: &str) -> Vec<String> {
    let mut out = vec![];
    let mut cur: Option<String> = None;
    for line in text.lines() {
        match &mut cur {
            None => {
                let t = line.trim_start();
                if let Some(lang) = t.strip_prefix("```") {
                    if lang.split(',').next() == Some("koto") {
                        cur = Some(String::new());
                    }
                }
            }
            Some(s) => {
                if line.trim_start().starts_with("```") {
                    out.push(cur.take().unwrap());
                } else if line.starts_with("print! ") {
                    s.push_str(&line.replacen("print! ", "print ", 1));
                    s.push('\n');
                } else if line.starts_with("check!") {
                } else {
                    s.push_str(line);
                    s.push('\n');
                }
            }
        }
    }
    out
}

/// (origin, source) of every repository script and documentation example
fn repo_sources() -> Vec<(String, String)> {
    let mut files = vec![];
    walk(std::path::Path::new("/repo"), &mut files);
    let mut out = vec![];
    for f in files {
        let Ok(text) = std::fs::read_to_string(&f) else { continue };
        let name = f.display().to_string();
        if name.ends_with(".koto") {
            out.push((format!("repo:{}", name), text));
        } else {
            for (i, b) in md_blocks(&text).into_iter().enumerate() {
                out.push((format!("doc:{}#{}", name, i), b));
            }
        }
    }
    out
}

/// single-token delete / duplicate / swap-with-next neighbours of `src` (token texts from koto_lexer)
fn token_mutants(src: &str, rng: &mut Rng, cap: usize) -> Vec<(String, String)> {
    let toks: Vec<(usize, usize)> = match kvh::catch(|| {
        koto_lexer::Lexer::new(src)
            .filter(|t| !matches!(t.token, koto_lexer::Token::CommentSingle | koto_lexer::Token::CommentMulti))
            .map(|t| (t.source_bytes.start, t.source_bytes.end))
            .collect::<Vec<_>>()
    }) {
        Ok(t) => t,
        Err(_) => return vec![],
    };
    let toks: Vec<(usize, usize)> = toks.into_iter().filter(|(a, b)| a < b && *b <= src.len() && src.is_char_boundary(*a) && src.is_char_boundary(*b)).collect();
    if toks.is_empty() {
        return vec![];
    }
    let total = toks.len() * 3;
    let mut picks: Vec<usize> = if total <= cap { (0..total).collect() } else { (0..cap).map(|_| rng.below(total)).collect() };
    picks.sort();
    picks.dedup();
    let mut out = vec![];
    for k in picks {
        let (i, m) = (k / 3, k % 3);
        let (a, b) = toks[i];
        let s = match m {
            0 => format!("{}{}", &src[..a], &src[b..]),
            1 => format!("{}{}{}", &src[..b], &src[a..b], &src[b..]),
            _ => {
                if i + 1 >= toks.len() {
                    continue;
                }
                let (c, d) = toks[i + 1];
                if c < b {
                    continue;
                }
                format!("{}{}{}{}{}", &src[..a], &src[c..d], &src[b..c], &src[a..b], &src[d..])
            }
        };
        out.push((["del", "dup", "swap"][m].to_string() + &format!("@{}", i), s));
    }
    out
}

/// Boundary sweep of the compiler's narrowing casts (`as u8` / `as i8` / `as u16`, table checked by
/// translators/cast_table.py): each family drives one cast operand across 127/128, 255/256 (and the
/// register limit), and states the value the program must produce. Oracle: that value, or a compile
/// error. (family, n, program, expected worker reply)
fn boundary_cases() -> Vec<(String, usize, String, String)> {
    let mut v: Vec<(String, usize, String, String)> = vec![];
    let names = |p: &str, n: usize| -> String { (0..n).map(|i| format!("{}{}", p, i)).collect::<Vec<_>>().join(", ") };
    let unders = |n: usize| -> String { vec!["_"; n].join(", ") };
    let ns: Vec<usize> = vec![2, 126, 127, 128, 129, 130, 200, 254, 255, 256, 257, 300];
    for &n in &ns {
        // import item count (compile_import: SequenceStart operand)
        let items: Vec<String> = (0..n).map(|i| format!("a{}: {}", i, i)).collect();
        let imp: Vec<String> = (0..n).map(|i| format!("'a{}'", i)).collect();
        v.push(("import-items".into(), n, format!("m = {{{}}}\nx = from m import {}\nsize x\n", items.join(", "), imp.join(", ")), format!("value i{}", n)));
        // nested argument tuple: size check operand
        let wrong = if n > 256 { n - 256 } else { n + 256 };
        v.push(("nested-arg-size".into(), n, format!(
            "f = |({})| 'ok'\nt = |k| try\n  f((0..k).to_tuple())\ncatch e\n  'err'\nt({}), t({}), t({})\n", unders(n), n, n - 1, wrong),
            "value (t sx6f6b sx657272 sx657272)".into()));
        // nested match pattern: size check operand
        v.push(("match-size".into(), n, format!(
            "m = |k| match (0..k).to_tuple()\n  ({}) then 'ok'\n  else 'no'\nm({}), m({}), m({})\n", unders(n), n, n - 1, wrong),
            "value (t sx6f6b sx6e6f sx6e6f)".into()));
        // element indices (TempIndex operand, read as i8)
        v.push(("nested-arg-index".into(), n, format!("f = |({})| (a0, a{}, a{})\nf((0..{}).to_tuple())\n", names("a", n), n - 2, n - 1, n),
            format!("value (t i0 i{} i{})", n - 2, n - 1)));
        v.push(("match-index-tuple".into(), n, format!("match (0..{}).to_tuple()\n  ({}) then (a0, a{}, a{})\n", n, names("a", n), n - 2, n - 1),
            format!("value (t i0 i{} i{})", n - 2, n - 1)));
        v.push(("match-index-list".into(), n, format!("match (0..{}).to_list()\n  ({}) then (a0, a{}, a{})\n", n, names("a", n), n - 2, n - 1),
            format!("value (t i0 i{} i{})", n - 2, n - 1)));
        v.push(("for-args-index".into(), n, format!("r = null\nfor {} in ((0..{}).to_tuple(),)\n  r = (a0, a{}, a{})\nr\n", names("a", n), n, n - 2, n - 1),
            format!("value (t i0 i{} i{})", n - 2, n - 1)));
        v.push(("multi-assign-index".into(), n, format!("{} = (0..{}).to_tuple()\na0, a{}, a{}\n", names("a", n), n, n - 2, n - 1),
            format!("value (t i0 i{} i{})", n - 2, n - 1)));
        // ellipsis slices (SliceTo / SliceFrom operands, read as i8)
        v.push(("nested-arg-ellipsis-first".into(), n, format!("f = |(rest..., {})| (size rest, a0, a{})\nf((0..{}).to_tuple())\n", names("a", n), n - 1, n + 3),
            format!("value (t i3 i3 i{})", n + 2)));
        v.push(("nested-arg-ellipsis-last".into(), n, format!("f = |({}, rest...)| (a0, a{}, size rest)\nf((0..{}).to_tuple())\n", names("a", n), n - 1, n + 3),
            format!("value (t i0 i{} i3)", n - 1)));
        v.push(("match-ellipsis-first".into(), n, format!("match (0..{}).to_tuple()\n  (rest..., {}) then (size rest, a0, a{})\n", n + 3, names("a", n), n - 1),
            format!("value (t i3 i3 i{})", n + 2)));
        v.push(("match-ellipsis-last".into(), n, format!("match (0..{}).to_tuple()\n  ({}, rest...) then (a0, a{}, size rest)\n", n + 3, names("a", n), n - 1),
            format!("value (t i0 i{} i3)", n - 1)));
        // multi-value match (`match a, b, …`: temp tuple index)
        v.push(("match-multi-value".into(), n, format!("match {}\n  {} then (a0, a{})\n", (0..n).map(|i| i.to_string()).collect::<Vec<_>>().join(", "), names("a", n), n - 1),
            format!("value (t i0 i{})", n - 1)));
        // call argument count, packed arguments after n plain ones, list / map / interpolation sizes
        let nums: Vec<String> = (0..n).map(|i| i.to_string()).collect();
        // The same index operands with elements that take NO register each (`_`, literals, chain targets): with
        // named elements the register limit (255) is reached long before a u8 index wraps, and an i8 index (≥ 128)
        // was only reached where the value came from an iterator. These shapes reach every index ≥ 128 in a small frame.
        let sparse = format!("{}, a", unders(n - 1));
        v.push(("nested-arg-index-sparse".into(), n, format!("f = |({})| a\nf((0..{}).to_tuple())\n", sparse, n), format!("value i{}", n - 1)));
        v.push(("match-index-sparse".into(), n, format!("match (0..{}).to_tuple()\n  ({}) then a\n", n, sparse), format!("value i{}", n - 1)));
        v.push(("match-nested-literals".into(), n, format!("match (0..{}).to_tuple()\n  ({}) then 'hit'\n  else 'else'\n", n, nums.join(", ")), "value sx686974".into()));
        v.push(("for-args-index-sparse".into(), n, format!("r = null\nfor {} in ((0..{}).to_tuple(),)\n  r = a\nr\n", sparse, n), format!("value i{}", n - 1)));
        v.push(("args-sparse".into(), n, format!("f = |{}| a\nf({})\n", sparse, nums.join(", ")), format!("value i{}", n - 1)));
        v.push(("multi-assign-index-sparse".into(), n, format!("{} = (0..{}).to_tuple()\na\n", sparse, n), format!("value i{}", n - 1)));
        // multi-assignment out of a temporary tuple (`… = 1, 2, …`: TempIndex, index read as i8)
        v.push(("multi-assign-temp-sparse".into(), n, format!("{} = {}\na\n", sparse, nums.join(", ")), format!("value i{}", n - 1)));
        v.push(("multi-assign-temp-chain".into(), n, format!("m = (0..{}).to_list()\n{} = {}\n(m[0], m[{}], m[{}])\n", n,
            (0..n).map(|i| format!("m[{}]", i)).collect::<Vec<_>>().join(", "), (0..n).map(|i| (1000 + i).to_string()).collect::<Vec<_>>().join(", "), n - 2, n - 1),
            format!("value (t i1000 i{} i{})", 1000 + n - 2, 1000 + n - 1)));
        v.push(("multi-assign-temp-fields".into(), n, format!("m = {{}}\n{} = {}\n(size(m), m.k0, m.k{})\n",
            (0..n).map(|i| format!("m.k{}", i)).collect::<Vec<_>>().join(", "), nums.join(", "), n - 1),
            format!("value (t i{} i0 i{})", n, n - 1)));
        // the VALUE of such a multi-assignment (the temporary tuple rebuilt as a tuple, index per value)
        v.push(("multi-assign-temp-result".into(), n, format!("x = a, b = {}\n(size(x), x[{}], x[{}], a, b)\n", nums.join(", "), n - 2, n - 1),
            format!("value (t i{} i{} i{} i0 i1)", n, n - 2, n - 1)));
        // multi-value match (`match a, b, …`) with patterns that take no register
        v.push(("match-multi-literals".into(), n, format!("match {}\n  {} then 'hit'\n  else 'else'\n", nums.join(", "), nums.join(", ")), "value sx686974".into()));
        v.push(("match-multi-sparse".into(), n, format!("match {}\n  {} then a\n  else 'else'\n", nums.join(", "), sparse), format!("value i{}", n - 1)));
        v.push(("call-args".into(), n, format!("f = |xs...| (size xs, xs[{}])\nf({})\n", n - 1, nums.join(", ")), format!("value (t i{} i{})", n, n - 1)));
        v.push(("call-packed-after".into(), n, format!("f = |xs...| (size xs, xs[{}])\np = (7, 8)\nf({}, p...)\n", n + 1, nums.join(", ")), format!("value (t i{} i8)", n + 2)));
        v.push(("list-literal".into(), n, format!("x = [{}]\n(size(x), x[{}])\n", nums.join(", "), n - 1), format!("value (t i{} i{})", n, n - 1)));
        v.push(("tuple-literal".into(), n, format!("x = ({})\n(size(x), x[{}])\n", nums.join(", "), n - 1), format!("value (t i{} i{})", n, n - 1)));
        let entries: Vec<String> = (0..n).map(|i| format!("k{}: {}", i, i)).collect();
        v.push(("map-literal".into(), n, format!("x = {{{}}}\n(size(x), x.k{})\n", entries.join(", "), n - 1), format!("value (t i{} i{})", n, n - 1)));
        let interp: String = (0..n).map(|_| "{a}".to_string()).collect();
        v.push(("interpolation-nodes".into(), n, format!("a = 7\nsize '{}'\n", interp), format!("value i{}", n)));
        // optional arguments and captures (Function operands, Capture index)
        let opts: Vec<String> = (0..n).map(|i| format!("o{} = {}", i, i)).collect();
        v.push(("optional-args".into(), n, format!("f = |{}| (o0, o{})\nf()\n", opts.join(", "), n - 1), format!("value (t i0 i{})", n - 1)));
        let caps: String = (0..n).map(|i| format!("c{} = {}\n", i, i)).collect();
        v.push(("captures".into(), n, format!("{}f = || {}\nf()\n", caps, (0..n).map(|i| format!("c{}", i)).collect::<Vec<_>>().join(" + ")), format!("value i{}", n * (n - 1) / 2)));
        // assignment statements through a chain target (compile_assign, value in a temporary)
        let assigns: String = (0..n).map(|i| format!("m.k{} = {}\n", i, i)).collect();
        v.push(("chain-assign-statements".into(), n, format!("m = {{}}\n{}size m\n", assigns), format!("value i{}", n)));
        let assigns: String = (0..n).map(|i| format!("  l[0] = {}\n", i)).collect();
        v.push(("index-assign-statements".into(), n, format!("f = |l|\n{}  l[0]\nf([0])\n", assigns), format!("value i{}", n - 1)));
        let assigns: String = (0..n).map(|i| format!("y = m.k = {}\n", i)).collect();
        v.push(("chain-assign-values".into(), n, format!("m = {{}}\ny = 0\n{}y, m.k\n", assigns), format!("value (t i{} i{})", n - 1, n - 1)));
    }
    for &n in &[500usize, 1000, 3000] {
        let assigns: String = (0..n).map(|i| format!("m.k{} = {}\n", i % 50, i)).collect();
        v.push(("chain-assign-statements".into(), n, format!("m = {{}}\n{}size m\n", assigns), "value i50".into()));
    }
    // integer literals around the SetNumberU8 / SetNumberNegU8 / LoadInt boundaries
    v.push(("int-literals".into(), 0, "(0, 1, 2, 127, 128, 254, 255, 256, 257, -1, -2, -127, -128, -254, -255, -256, -257, 65535, 65536, -65536)\n".into(),
        "value (t i0 i1 i2 i127 i128 i254 i255 i256 i257 i-1 i-2 i-127 i-128 i-254 i-255 i-256 i-257 i65535 i65536 i-65536)".into()));
    // a function that captures itself through a still-reserved local while nested in a literal
    for (k, (prog, exp)) in [
        ("g = [[|| g], [1, 2]]\nsize g[0][0]()\n", "value i2"),
        ("g = [|| g]\nsize g[0]()\n", "value i1"),
        ("g = (|| g, 5)\ng[0]()[1]\n", "value i5"),
        ("g = {f: || g, l: [1, 2]}\nsize g.f().l\n", "value i2"),
        ("g = [1, [2, || g], [3]]\nsize g[1][1]()\n", "value i3"),
        ("g = || g\ntype g()()\n", "value sx46756e6374696f6e"),
        ("f = ([|| f], [1, 2, 3])[0][0]\ntype f()\n", "value sx46756e6374696f6e"),
        ("f = [|| f, 7][0]\ntype f()\n", "value sx46756e6374696f6e"),
        // wave 4: the function is a call argument, gone when `x` is committed; the VM has a message for exactly this
        // (run_capture_value: "function not found while attempting to capture a value") but the register holds Null
        ("x = (1..10).find |n| n == x\nx\n", "error function_not_found_while_attempting_to_capture_a_value"),
        // wave 5: the deferred Capture runs although the branch that creates the function was not taken
        ("f = if false then (|n| f n) else 42\nf\n", "value i42"),
    ].iter().enumerate() {
        v.push(("deferred-self-capture".into(), k, prog.to_string(), exp.to_string()));
    }
    v
}

/// The open finding (if any) whose documented shape covers a failing boundary case. (F-C05-9, -10, -11, -13 are
/// repaired — d0940df, d6cca87, b710daa —, and F-C05-15, -16 — 07b081f —: their families are must-pass now: the stated
/// value or a compile error; values counted from the end of the temporary tuple are a violation.)
fn boundary_finding(family: &str, _n: usize) -> Option<&'static str> {
    match family {
        "deferred-self-capture" => Some("F-C05-12"),
        _ => None,
    }
}

/// `break` / `continue` in expression position inside list / tuple literals and interpolated strings (nested up to
/// three deep, also in a literal of more than 64 elements, which is built in batches), in every kind of loop, plain /
/// inside a try block in the loop / in a loop inside a try block / as a call argument. Oracle: the program must give the
/// same value as its REFERENCE, in which the hole is the value the expression has when it does not jump and the jump is a
/// statement of its own in front of the literal (the elements are pure, so nothing observable happens between).
/// (label, program, reference)
fn jump_in_builder_grid() -> Vec<(String, String, String)> {
    let big: String = (100..170).map(|k| k.to_string()).collect::<Vec<_>>().join(", ");
    let templates: Vec<(&str, String)> = vec![
        ("L-mid", "[i, @H, 9]".into()), ("T-first", "(@H, i)".into()), ("L-last", "[i, 8, @H]".into()),
        ("S-mid", "'a{i}b{@H}c'".into()), ("S-first", "'{@H}x{i}'".into()),
        ("LL", "[[i, @H], 7]".into()), ("LT", "[(1, @H), [2]]".into()), ("SL", "'p{[i, @H]}q'".into()),
        ("LS", "[0, 's{@H}t', i]".into()), ("TSL", "('u{i}', [@H])".into()), ("SS", "\"a{'b{@H}c'}d\"".into()),
        ("LLL", "[[[@H, i]], 2]".into()), ("LSTL", "[1, 'x{(i, [@H])}y']".into()), ("SLS", "'a{[\"b{@H}\"]}c'".into()),
        ("big-last", format!("[{}, @H]", big)), ("big-mid", format!("[{}, @H, {}]", big, big)),
        ("big-nested", format!("[0, [{}, @H], (5, '{{i}}')]", big)),
    ];
    // (name, hole expression, its value when it does not jump, the jump as a statement)
    let holes: Vec<(&str, &str, &str, &str)> = vec![
        ("if-break", "(if i == 1 then break)", "null", "if i == 1 then break"),
        ("if-continue", "(if i == 1 then continue)", "null", "if i == 1 then continue"),
        ("if-break-else", "(if i == 2 then break else 2)", "2", "if i == 2 then break"),
        ("if-else-continue", "(if i != 2 then 4 else continue)", "4", "if i == 2 then continue"),
        ("break", "(break)", "null", "break"),
        ("continue", "(continue)", "null", "continue"),
    ];
    let loops: Vec<(&str, &str)> = vec![
        ("for", "for i in 0..4\n"),
        ("while", "i = -1\nwhile i < 3\n  i += 1\n"),
        ("until", "i = -1\nuntil i >= 3\n  i += 1\n"),
        ("loop", "i = -1\nloop\n  i += 1\n  if i > 3 then break\n"),
    ];
    let mut v = vec![];
    for (tn, t) in &templates {
        for (hn, hole, val, stmt) in &holes {
            for (ln, head) in &loops {
                for ctx in ["plain", "try-in-loop", "loop-in-try", "call-arg", "nested-loop"] {
                    let lit_a = t.replace("@H", hole);
                    let lit_b = t.replace("@H", val);
                    let mk = |lit: &str, pre: Option<&str>| -> String {
                        let head_ind = |ind: &str| -> String { head.lines().map(|l| format!("{}{}\n", ind, l)).collect() };
                        let pre_line = |ind: &str| -> String { pre.map(|p| format!("{}{}\n", ind, p)).unwrap_or_default() };
                        match ctx {
                            "plain" => format!("r = []\n{}{}  v = {}\n  r.push v\nr.push 'end'\nr\n", head_ind(""), pre_line("  "), lit),
                            "call-arg" => format!("r = []\n{}{}  r.push {}\nr.push 'end'\nr\n", head_ind(""), pre_line("  "), lit),
                            "try-in-loop" => format!(
                                "r = []\n{}  try\n{}    v = {}\n    r.push v\n  catch e\n    r.push 'caught'\n  finally\n    r.push 'f'\ntry\n  throw 'x'\ncatch e2\n  r.push 'outer'\nr\n",
                                head_ind(""), pre_line("    "), lit),
                            "loop-in-try" => format!(
                                "r = []\ntry\n{}{}    v = {}\n    r.push v\n  throw 'after'\ncatch e\n  r.push 'caught {{e}}'\nr\n",
                                head_ind("  "), pre_line("    "), lit),
                            // the loop is itself an element of an outer literal, whose builder the jump must NOT finish
                            _ => format!("r = []\ny = [0, (for j in 0..2\n{}{}    v = {}\n    r.push v\n), 's{{size r}}']\n(y, r)\n",
                                head_ind("  "), pre_line("    "), lit),
                        }
                    };
                    let a = mk(&lit_a, None);
                    let b = mk(&lit_b, Some(stmt));
                    v.push((format!("jump-in-builder:{}:{}:{}:{}", tn, hn, ln, ctx), a, b));
                }
            }
        }
    }
    v
}

/// Register-stack discipline. Constructs that need CONSECUTIVE registers (list / tuple literals via SequencePushN, call
/// arguments, temporary tuples, interpolations, nested ones) with an element — first, middle — that is a conditional with
/// an early exit carrying a computed value in one branch (return / throw / break with value / break / continue), run with
/// the exit taken and not taken; and with an element that is a block containing an UNUSED function literal with
/// default arguments. Oracle: the same value as the REFERENCE (element = its plain value, the exit as a statement in
/// front). A temporary that the compiler forgets to release inside the element shifts the later elements.
/// (label, program, reference)
fn register_discipline_grid() -> Vec<(String, String, String)> {
    let containers: Vec<(&str, &str)> = vec![
        ("list-first", "[@E, 3, 4]"), ("list-mid", "[1, @E, 4]"), ("tuple-first", "(@E, 3, 4)"), ("tuple-mid", "(1, @E, 4)"),
        ("call-first", "g(@E, 3, 4)"), ("call-mid", "g(1, @E, 4)"), ("call-variadic", "h(@E, 3, 4)"), ("call-variadic-mid", "h(0, @E, 3, 4)"),
        ("interp-first", "'{@E}-{3}-{4}'"), ("interp-mid", "'{1}-{@E}-{4}'"),
        ("nested-list", "[0, [@E, 3], 4]"), ("call-list", "g(1, [@E, 2], (3, @E, 5))"), ("list-long", "[@E, 3, 4, 5, 6, 7, 8, 9, 10, 11, 12, 13]"),
        ("map", "{a: @E, b: 3, c: 4}"), ("binary", "(@E) * 100 + g(1, 2, 3)[1]"), ("index", "[10, 20, 30, 40][@E] + (@E, 7)[1]"),
    ];
    // in a function: (name, element, exit statement)
    let fn_exits: Vec<(&str, &str, &str)> = vec![
        ("return-computed", "(if c then return a + 1 else 2)", "if c then return a + 1"),
        ("return-computed-swapped", "(if not c then 2 else return a * 2)", "if c then return a * 2"),
        ("return-list", "(if c then return [a, a + 1] else 2)", "if c then return [a, a + 1]"),
        ("throw-computed", "(if c then throw 'e{a + 1}' else 2)", "if c then throw 'e{a + 1}'"),
        ("return-call", "(if c then return g(a, a + 1, 2)[1] else 2)", "if c then return g(a, a + 1, 2)[1]"),
    ];
    let loop_exits: Vec<(&str, &str, &str)> = vec![
        ("break-computed", "(if c then break a + 1 else 2)", "if c then break a + 1"),
        ("break", "(if c then break else 2)", "if c then break"),
        ("continue", "(if c and i == 1 then continue else 2)", "if c and i == 1 then continue"),
        ("break-list", "(if c then break [a, a + 1] else 2)", "if c then break [a, a + 1]"),
    ];
    let pre = "g = |a, b, c| (a, b, c)\nh = |xs...| xs\n";
    let mut v = vec![];
    for (cn, cont) in &containers {
        for (en, elem, stmt) in &fn_exits {
            let mk = |lit: String, st: Option<&str>| format!(
                "{}f = |c, a|\n{}  x = {}\n  (x, a)\nt = |c| try\n  f c, 5\ncatch e\n  'caught {{e}}'\n(t(false), t(true))\n",
                pre, st.map(|s| format!("  {}\n", s)).unwrap_or_default(), lit);
            v.push((format!("reg-discipline:{}:{}", cn, en), mk(cont.replace("@E", elem), None), mk(cont.replace("@E", "2"), Some(stmt))));
        }
        for (en, elem, stmt) in &loop_exits {
            let mk = |lit: String, st: Option<&str>| format!(
                "{}f = |c, a|\n  r = []\n  i = 0\n  z = loop\n    i += 1\n    if i > 3 then break 0\n{}    x = {}\n    r.push x\n  (r, z, i)\n(f(false, 5), f(true, 5))\n",
                pre, st.map(|s| format!("    {}\n", s)).unwrap_or_default(), lit);
            v.push((format!("reg-discipline:{}:{}", cn, en), mk(cont.replace("@E", elem), None), mk(cont.replace("@E", "2"), Some(stmt))));
        }
    }
    // an unused function literal with default arguments inside an element (finding F-C05-17, fixed by 22cfce0)
    for nd in 1..=3usize {
        for computed in [false, true] {
            let defaults: Vec<String> = (0..nd).map(|k| if computed { format!("d{} = q + {}", k, k) } else { format!("d{} = {}", k, 7 + k) }).collect();
            let func = format!("|{}| d0", defaults.join(", "));
            for (shape, open, close) in [("list", "[", "]"), ("tuple", "(", ")")] {
                for pos in 0..2usize {
                    let block = format!("  if true\n    {}\n    1\n  ,\n", func);
                    let (a, b) = if pos == 0 { (format!("{}  2,\n  3\n", block), "1, 2, 3".to_string()) } else { (format!("  0,\n{}  2,\n  3\n", block), "0, 1, 2, 3".to_string()) };
                    v.push((format!("reg-discipline:unused-fn-defaults:{}:{}:{}:{}", shape, nd, computed, pos),
                        format!("q = 40\nx = {}\n{}{}\nx\n", open, a, close), format!("q = 40\nx = {}{}{}\nx\n", open, b, close)));
                }
            }
            v.push((format!("reg-discipline:unused-fn-defaults:temp-tuple:{}:{}", nd, computed),
                format!("q = 40\na, b = 1, if true\n  {}\n  2\n(a, b)\n", func), "a, b = 1, 2\n(a, b)\n".to_string()));
            v.push((format!("reg-discipline:unused-fn-defaults:call:{}:{}", nd, computed),
                format!("q = 40\ng = |a, b, c| (a, b, c)\ng (if true\n  {}\n  1\n), 2, 3\n", func), "g = |a, b, c| (a, b, c)\ng 1, 2, 3\n".to_string()));
        }
    }
    v
}

/// Loops nested through literals: outer loop -> literal -> element that is an inner loop whose break / continue stays
/// inside the literal (so the jump must NOT finish the outer literal's builder), two and three levels, for lists, tuples
/// and interpolations; the innermost loop may again contain a literal with a jump. Reference: the inner loop evaluated
/// into a local in front of the literal. (label, program, reference)
fn nested_loop_literal_grid() -> Vec<(String, String, String)> {
    let mut v = vec![];
    let lits: Vec<(&str, &str, &str)> = vec![("list", "[i, ", ", 9]"), ("tuple", "(i, ", ", 9)"), ("interp", "'a{i}b{", "}c'"), ("list-first", "[", ", i]"), ("nested", "[i, (7, ", "), 9]")];
    let inner_bodies: Vec<(&str, &str)> = vec![
        ("break", "if j == 1 then break\nj\n"), ("continue", "if j == 1 then continue\nj\n"), ("break-value", "if j == 1 then break j + 10\nj\n"),
        ("literal-continue", "w = [j, (if j == 1 then continue)]\nw\n"), ("literal-break", "w = (j, 'p{if j == 2 then break}q')\nw\n"),
        ("unconditional-break", "break\n"),
    ];
    let heads: Vec<(&str, &str)> = vec![("for", "for j in 0..3"), ("while", "j = -1\n@while j < 2\n  j += 1"), ("loop", "j = -1\n@loop\n  j += 1\n  if j > 2 then break")];
    for (ln, lo, lc) in &lits {
        for (bn, body) in &inner_bodies {
            for (hn, head) in &heads {
                for levels in [2usize, 3] {
                    if *hn != "for" {
                        continue; // (an inner loop in expression position has no room for a counter statement: `for` only)
                    }
                    // inner loop as a parenthesised multi-line expression at indentation `ind`
                    let inner = |ind: usize, body: &str| -> String {
                        let pad = "  ".repeat(ind);
                        let b: String = body.lines().map(|l| format!("{}  {}\n", pad, l)).collect();
                        format!("(for j in 0..3\n{}{})", b, pad)
                    };
                    let _ = head;
                    let (a, b);
                    if levels == 2 {
                        a = format!("r = []\nfor i in 0..3\n  v = {}{}{}\n  r.push v\nr\n", lo, inner(1, body), lc);
                        let bb: String = body.lines().map(|l| format!("    {}\n", l)).collect();
                        b = format!("r = []\nfor i in 0..3\n  t = for j in 0..3\n{}  v = {}t{}\n  r.push v\nr\n", bb, lo, lc);
                    } else {
                        // outer loop -> literal -> middle loop -> literal -> inner loop
                        let mid_body_a = format!("u = [k, {}]\nu\n", inner(2, body).replace("\n", "\n"));
                        let mb: String = mid_body_a.lines().map(|l| format!("    {}\n", l)).collect();
                        a = format!("r = []\nfor i in 0..2\n  v = {}(for k in 0..2\n{}  ){}\n  r.push v\nr\n", lo, mb, lc);
                        let bb: String = body.lines().map(|l| format!("      {}\n", l)).collect();
                        b = format!("r = []\nfor i in 0..2\n  m = for k in 0..2\n    t = for j in 0..3\n{}    u = [k, t]\n    u\n  v = {}m{}\n  r.push v\nr\n", bb, lo, lc);
                    }
                    v.push((format!("nested-loop-literal:{}:{}:{}:{}", ln, bn, hn, levels), a, b));
                }
            }
        }
    }
    v
}

/// `n` constants of mixed kinds (integers, floats, strings) defined in front of a program, so that every constant
/// the program itself adds gets an index >= n: with n around 2^7 / 2^14 the variable-length operands need 2 / 3 bytes.
fn const_pool_prelude(n: usize) -> String {
    if n == 0 {
        return String::new();
    }
    let xs: Vec<String> = (0..n.saturating_sub(1)).map(|i| match i % 3 {
        0 => format!("{}", 7_000_000 + i),
        1 => format!("{}.25", 7_000_000 + i),
        _ => format!("'zc{}'", i),
    }).collect();
    // (`zc` itself is the n-th constant)
    format!("zc = [{}]\n", xs.join(", "))
}

/// One program that uses every instruction with a variable-length operand (constant / key / type-name / identifier
/// indices, size hints, format widths) — map patterns in match arms, catch, let, for and function arguments, access and
/// access-assign, meta keys, import / export, string / number constants, non-locals, type checks, formatted
/// interpolation — behind constant pools of different sizes, at top level and inside a function.
/// Oracle: wfChunk, the decoder comparison operand for operand (flush), and the same VALUE as with an empty pool.
/// (label, program, pool size, runs by value)
fn varint_programs() -> Vec<(String, String, usize, bool)> {
    let body = |long: usize| -> String {
        let long_lit = "w".repeat(long);
        format!(concat!(
            "m = {{alpha: 1, beta: 2, @meta tag: 'T'}}\n",
            "a1 = m.alpha\n",
            "m.beta = 5\n",
            "m.gamma = 'g'\n",
            "s1 = 'fresh string'\n",
            "n1 = 123456789\n",
            "f1 = 2.71828\n",
            "k = size m\n",
            "let t1: Number = n1\n",
            "let t2: String? = null\n",
            "chk = |v|\n",
            "  match v\n",
            "    {{alpha, delta}} then 'ad{{alpha}}{{delta}}'\n",
            "    {{alpha}} then 'a{{alpha}}'\n",
            "    x: Number then 'num'\n",
            "    y: String? then 'optstr'\n",
            "    else 'else'\n",
            "r1 = chk m\n",
            "r2 = chk 5\n",
            "r3 = chk null\n",
            "r4 = chk [1]\n",
            "r5 = chk {{omega: 1}}\n",
            "g = |{{beta}}, z: Number = 4| beta + z\n",
            "r6 = g m\n",
            "r7 = 0\n",
            "for {{alpha, beta}} in [m]\n",
            "  r7 = alpha + beta\n",
            "let {{gamma}} = m\n",
            "r8 = try\n",
            "  throw m\n",
            "catch {{nosuch}}\n",
            "  'wrong'\n",
            "catch {{alpha}}\n",
            "  'caught{{alpha}}'\n",
            "export eta = 7\n",
            "from m import alpha as imported_alpha\n",
            "fm = '{{n1:_>12}}|{{f1:9.3}}|{{n1:<130}}|{{n1:*^9}}|{long_lit}{{s1}}'\n",
            "(a1, m.beta, s1, n1, f1, k, r1, r2, r3, r4, r5, r6, r7, gamma, r8, eta, imported_alpha, size(fm) - {long}, koto.type(m))\n"),
            long_lit = long_lit, long = long)
    };
    let mut v = vec![];
    for &n in &[0usize, 100, 126, 127, 128, 129, 130, 200, 16383, 16384, 16385] {
        // the long literal pushes the StringStart size hint over the same boundaries
        let long = if n >= 16000 { 17000 } else if n >= 100 { 300 } else { 3 };
        let pre = const_pool_prelude(n);
        v.push((format!("varint:top:{}", n), format!("{}{}", pre, body(long)), n, true));
        let indented: String = body(long).lines().map(|l| format!("  {}\n", l)).collect();
        if n == 16383 || n == 16385 {
            continue;
        }
        // `export` / `let` inside a function are fine; the result is the function's value
        v.push((format!("varint:fn:{}", n), format!("{}main = ||\n{}main()\n", pre, indented), n, true));
        if ![0, 128, 200, 16384].contains(&n) {
            continue;
        }
        // compile-only: `debug` (prints) and format widths / precisions beyond one byte
        v.push((format!("varint:compile-only:{}", n), format!("{}x = 1.5\ndebug x\ny = '{{x:200}}{{x:.200}}{{x:20000.17000}}'\nmm = {{{}}}\n", pre,
            (0..(n + 3)).map(|i| format!("k{}: 0", i)).collect::<Vec<_>>().join(", ")), n, false));
    }
    v
}

/// Literals of DIFFERENT kinds that collide under a plausible de-duplication key — an integer and a float with the
/// same 64 bits, a float and an integer with the same value, a string and an identifier with the same text, integers on
/// both sides of the small-int / pooled boundary — in one chunk, in both orders. Each program checks itself:
/// (label, program, expected worker reply)
fn constant_collision_programs() -> Vec<(String, String, String)> {
    let mut v = vec![];
    let floats: [f64; 10] = [0.5, 1.0, 2.0, 1.5, 0.1, 3.25, 1e10, 255.0, 256.0, 1e-3];
    for int_first in [false, true] {
        let mut p = String::new();
        let mut expect = vec![];
        for (k, f) in floats.iter().enumerate() {
            let bits = f.to_bits() as i64;
            let fl = format!("{:?}", f);
            let (a, b) = (format!("f{} = {}\n", k, fl), format!("i{} = {}\n", k, bits));
            if int_first { p += &b; p += &a; } else { p += &a; p += &b; }
            expect.push(kvh::canon::float(*f));
            expect.push(format!("i{}", bits));
            expect.push(format!("i{}", bits + 1));
        }
        let items: Vec<String> = (0..floats.len()).map(|k| format!("f{}, i{}, i{} + 1", k, k, k)).collect();
        p += &format!("({})\n", items.join(", "));
        v.push((format!("const-collision:bits:{}", if int_first { "int-first" } else { "float-first" }), p, format!("value (t {})", expect.join(" "))));
    }
    // same value, different kind; small ints next to pooled ints; negative numbers
    // (the canonical value tells integers `i…` from floats `f<bits>`)
    let p = "(255, 256, 255.0, 256.0, -255, -256, -255.0, -256.0, 0, 0.0, 1, 1.0, 65536, 65536.0)\n";
    let e = format!("value (t i255 i256 {} {} i-255 i-256 {} {} i0 {} i1 {} i65536 {})",
        kvh::canon::float(255.0), kvh::canon::float(256.0), kvh::canon::float(-255.0), kvh::canon::float(-256.0), kvh::canon::float(0.0), kvh::canon::float(1.0), kvh::canon::float(65536.0));
    v.push(("const-collision:value".into(), p.into(), e));
    // a string and an identifier / key / type name with the same text share one constant (same kind: allowed)
    let p = "size_ = 'size'\nm = {size: 3, Number: 'n'}\nlet x: Number = m.size\n(size_, size([1, 2]), m.size, m.Number, 'Number', x)\n";
    let e = format!("value (t s{} i2 i3 s{} s{} i3)", kvh::hex(b"size"), kvh::hex(b"n"), kvh::hex(b"Number"));
    v.push(("const-collision:text".into(), p.into(), e));
    // digits as a string, as an integer and as a float
    let p = "('123456', 123456, 123456.0, '1.5', 1.5, '4602678819172646912', 4602678819172646912, 0.5)\n";
    let e = format!("value (t s{} i123456 {} s{} {} s{} i4602678819172646912 {})", kvh::hex(b"123456"), kvh::canon::float(123456.0), kvh::hex(b"1.5"), kvh::canon::float(1.5),
        kvh::hex(b"4602678819172646912"), kvh::canon::float(0.5));
    v.push(("const-collision:digits".into(), p.into(), e));
    v
}

/// Widths (in bytes) of the variable-length operands in a chunk, per opcode: instruction length minus its length with
/// one-byte operands. (`StringPush`: the extra bytes of all its optional operands together.)
fn varint_widths(chunk: &Ptr<Chunk>, out: &mut BTreeMap<String, std::collections::BTreeSet<usize>>) {
    let mut reader = InstructionReader::new(chunk.clone());
    let bytes = chunk.bytes.as_slice();
    loop {
        let ip = reader.ip;
        match reader.next() {
            None | Some(Instruction::Error { .. }) => break,
            Some(_) => {
                let op = Op::from(bytes[ip]);
                let len = reader.ip - ip;
                let base = match op {
                    Op::LoadFloat | Op::LoadInt | Op::LoadString | Op::LoadNonLocal | Op::MakeMap | Op::Debug | Op::AssertType | Op::AssertOptionalType => Some(3),
                    Op::SequenceStart | Op::StringStart => Some(2),
                    Op::Access => Some(4),
                    Op::TryAccess => Some(6),
                    Op::CheckType | Op::CheckOptionalType => Some(5),
                    Op::StringPush => {
                        let flags = bytes.get(ip + 2).copied().unwrap_or(0);
                        Some(3 + ((flags >> 2) & 0xf).count_ones() as usize)
                    }
                    _ => None,
                };
                if let Some(b) = base {
                    if len >= b {
                        out.entry(format!("{:?}", op)).or_default().insert(1 + len - b);
                    }
                }
            }
        }
    }
}

/// Functions with `d` default arguments per level, `k` closures nested in them, `c` captured locals, reading an id
/// that is NOT capturable when the functions are created (it only exists as an export made later, by another function,
/// through a map inserted into the exports, or is a prelude name), then CALLED. Every frame on the way down must be created
/// with the module's non-locals (Function flag NON_LOCAL_ACCESS = accessed_non_locals > captures; defaults do not count);
/// otherwise the VM raises its internal UnexpectedError when the inner closure is created, or the lookup fails.
/// (label, program, expected worker reply)
fn nonlocal_grid() -> Vec<(String, String, String)> {
    let mut v = vec![];
    for d in 0..=3usize {
        for k in 1..=3usize {
            for (c, wher) in [(0usize, "all"), (2, "all"), (0, "outer"), (1, "outer"), (0, "inner"), (2, "inner"), (1, "middle")] {
                if d == 0 && wher != "all" {
                    continue;
                }
                // which levels have the default arguments: an outer function with defaults around closures without is
                // the shape in which a wrong flag on the outer function surfaces as UnexpectedError
                let dl = |lvl: usize| -> usize {
                    match wher {
                        "all" => d,
                        "outer" => if lvl == 0 { d } else { 0 },
                        "inner" => if lvl == k { d } else { 0 },
                        _ => if lvl != 0 && lvl != k { d } else { 0 },
                    }
                };
                for (kind, late_def, late_use, late_val) in [
                    ("export-later", "export late = 10\n", "late", 10i64),
                    ("export-by-function", "setter = || export late = 10\nsetter()\n", "late", 10),
                    ("export-map", "export {late: 10}\n", "late", 10),
                    ("prelude", "", "size([7, 8, 9])", 3),
                ] {
                    let mut p = String::new();
                    let mut sum: i64 = 5 + late_val;
                    for i in 0..c {
                        p += &format!("c{} = {}\n", i, 100 * (i + 1));
                        sum += 100 * (i as i64 + 1);
                    }
                    let defaults = |lvl: usize| -> Vec<String> { (0..dl(lvl)).map(|i| format!("a{}_{} = {}", lvl, i, i + 1)).collect() };
                    let mut terms: Vec<String> = vec!["x".into(), late_use.to_string()];
                    for i in 0..c {
                        terms.push(format!("c{}", i));
                    }
                    for lvl in 0..=k {
                        for i in 0..dl(lvl) {
                            terms.push(format!("a{}_{}", lvl, i));
                            sum += i as i64 + 1;
                        }
                    }
                    // level 0 = make, levels 1..k-1 intermediate, level k innermost (takes x first)
                    for lvl in 0..=k {
                        let ind = "  ".repeat(lvl);
                        let mut args = defaults(lvl);
                        if lvl == k {
                            args.insert(0, "x".into());
                        }
                        let name = if lvl == 0 { "make".to_string() } else { format!("f{}", lvl) };
                        p += &format!("{}{} = |{}|\n", ind, name, args.join(", "));
                    }
                    p += &format!("{}{}\n", "  ".repeat(k + 1), terms.join(" + "));
                    for lvl in (1..=k).rev() {
                        p += &format!("{}f{}\n", "  ".repeat(lvl), lvl);
                    }
                    p += late_def;
                    p += &format!("make(){}(5)\n", "()".repeat(k - 1));
                    v.push((format!("nonlocal-grid:{}:d{}{}k{}c{}", kind, d, wher, k, c), p, format!("value i{}", sum)));
                }
            }
        }
    }
    v
}

/// Must-pass behavioural cases of repaired findings: (name, program, canonical value of the program).
fn behaviour_cases() -> Vec<(&'static str, String, String)> {
    let s = |x: &str| format!("value s{}", kvh::hex(x.as_bytes()));
    vec![
        ("F-C05-5(return in interpolation, 97373d1)", "f = ||\n  x = '{1}{return 2}'\n  x\n'a{f()}b'\n".into(), s("a2b")),
        ("F-C05-5(return in list, 97373d1)", "f = ||\n  [[1, 2], (return 5)]\nx = [10, f(), 30]\n'{x}'\n".into(), s("[10, 5, 30]")),
        ("builder open when an error is caught (97373d1)", "f = ||\n  try\n    'p{throw 1}'\n  catch _\n    'q'\nr = try\n  [1, (throw 'x')]\ncatch e\n  'c'\n'a{f()}b{r}{[7, 8]}'\n".into(), s("aqbc[7, 8]")),
        ("F-C05-4(unused function literal, 30b24e7)", "|| 42\nfor i in 0..2\n  |x| x + i\n'hello'\n".into(), s("hello")),
        ("F-C05-6(break out of try, 0e9e81b)", "r = []\nfor x in (1, 2)\n  try\n    break\n  catch e\n    r.push 'caught'\ntry\n  throw 'boom'\ncatch e2\n  r.push 'outer {e2}'\n'{r}'\n".into(), s("['outer boom']")),
        ("F-C05-6(continue out of nested try)", "n = 0\nfor x in 0..3\n  try\n    try\n      n += 1\n      continue\n    catch a\n      n += 100\n  catch b\n    n += 1000\ntry\n  throw 'z'\ncatch c\n  n += 10\nn\n".into(), "value i13".into()),
        ("non-locals reach a function with an optional argument and the closure nested in it (NON_LOCAL_ACCESS flag)",
            "make_adder = |n = 1|\n  add = |x| x + n + offset\n  add\nexport offset = 10\nadder = make_adder()\nf = |n = 1| n + offset\n(adder(5), f(), f(2))\n".into(), "value (t i16 i11 i12)".into()),
        ("F-C05-5(continue in list literal, 2f5d1ea)", "r = []\nfor x in (1, 2)\n  y = [1, (if x == 1 then continue), 3]\n  r.push y\n'{r}'\n".into(), s("[[1, null, 3]]")),
        ("F-C05-5(break in interpolation, 2f5d1ea)", "r = ''\nfor x in (1, 2)\n  r = 'a{x}{if x == 1 then break}'\n'<{r}>'\n".into(), s("<>")),
        ("F-C05-5(continue in interpolation, 2f5d1ea)", "out = []\nfor i in 0..4\n  s = \"a{i}b{if i < 2 then continue}c\"\n  out.push s\n'{out}'\n".into(), s("['a2bnullc', 'a3bnullc']")),
        ("F-C05-5(break in a nested literal of more than 64 elements, inside an outer literal, 2f5d1ea)",
            format!("y = [0, (for i in 0..3\n  x = [{}, (if i == 1 then break else 2)]\n), 5]\n'{{y}}'\n", (100..170).map(|k| k.to_string()).collect::<Vec<_>>().join(", ")), s("[0, null, 5]")),
        ("F-C05-17(unused function literal with a default inside a list element, 22cfce0)", "x = [\n  if true\n    |d = 7| d\n    1\n  ,\n  2,\n  3\n]\n'{x}'\n".into(), s("[1, 2, 3]")),
        ("F-C05-17(unused function literal with a default inside a temporary tuple, 22cfce0)", "a, b = 1, if true\n  |x = 7| x\n  2\n'{(a, b)}'\n".into(), s("(1, 2)")),
        ("F-C05-7(bare return nested in a block, aad4e1c)", "f = |c|\n  if c\n    return\ng = |c|\n  for i in 0..2\n    if c\n      return\n'{f false}{f true}{g false}'\n".into(), s("nullnullnull")),
    ]
}

fn witnesses(id: &str) -> Vec<String> {
    match id {
        "F-C05-1" => vec![witness_big_loop()],
        "F-C05-2" => vec!["a = 1\nb = 2\nc = 3\nd = 4\nf = || a + b + c + d\nf()\n".into()],
        "F-C05-3" => vec![witness_frame_sum(), {
            let mut s = String::new();
            for i in 0..255 {
                s.push_str(&format!("x{} = 0\n", i));
            }
            s
        }],
        "F-C05-4" => vec!["|| 42\nprint 'hello'\n".into()],
        "F-C05-5" => vec!["for x in (1, 2)\n  y = [1, (if x == 1 then continue), 3]\n".into(), "r = ''\nfor x in (1, 2)\n  r = 'a{x}{if x == 1 then break}'\nr\n".into(),
            "for i in 0..4\n  s = \"a{i}b{if i < 2 then continue}c\"\n  print s\n".into()],
        "F-C05-7" => vec!["f = |c|\n  if c\n    return\nprint f false\n".into()],
        "F-C05-8" => vec![{
            // 253 locals, then a two-element list: available_registers_count() == 0
            let mut s = String::from("f = ||\n");
            for i in 0..253 {
                s.push_str(&format!("  x{} = 0\n", i));
            }
            s.push_str("  y = [1, 2]\n  y\n");
            s
        }],
        "F-C05-6" => vec!["for x in (1, 2)\n  try\n    break\n  catch e\n    print 'caught {e}'\nthrow 'boom'\n".into()],
        _ => vec![],
    }
}

fn main() {
    if std::env::args().any(|a| a == "--worker") {
        return worker_main();
    }
    // deep recursion in the parser/compiler for the nesting programs: run on a big stack
    let h = std::thread::Builder::new().stack_size(1 << 30).spawn(real_main).unwrap();
    let code = h.join().unwrap_or(2);
    std::process::exit(code);
}

fn real_main() -> i32 {
    install_panic_hook();
    let args = Args::parse();
    let mut rep = Report::new("C05", &args);
    rep.rule = "cases = programs handed to the real compiler (repository scripts, documentation examples, their single-token delete/duplicate/swap neighbours, seeded generated programs, loop x try-block nestings with break/continue/return, every expression kind in statement position x every block kind, functions ending in a nested jump, register-pressure x construct grid, a behavioural boundary sweep of the compiler's narrowing casts, capture-heavy programs (also compiled in two fresh processes each), size-scaled programs at the u8/u16 limits) plus register-allocator histories; every compiled chunk goes through wfChunk and the decoder correspondence, and is compiled again in this process and in a child process; distinct = distinct source texts / histories; non-trivial = chunk with at least 4 instructions, or a history with at least 3 operations".into();
    let open: Vec<String> = rep.known_open().iter().filter_map(|e| e.get("id").and_then(|x| x.as_str()).map(|s| s.to_string())).collect();
    let drv = Driver::spawn(&args.driver);
    let worker = Worker::spawn(&["--worker".to_string()]);
    let thorough = args.thorough();
    let mut cx = Ctx {
        rep,
        drv,
        worker,
        open,
        pending: vec![],
        pending_bytes: 0,
        known_counts: Default::default(),
        programs: 0,
        disagreements_checked: 0,
        run_budget: if thorough { 33000 } else { 2200 },
        sampled: vec![],
    };
    let mut rng = Rng::new(args.seed);
    let t0 = std::time::Instant::now();

    if let Some(p) = &args.replay {
        let v: Value = serde_json::from_str(&std::fs::read_to_string(p).expect("replay file")).unwrap();
        if let Some(hx) = v["detail"]["input_hex"].as_str() {
            let src = String::from_utf8(kvh::unhex(hx).unwrap()).unwrap();
            println!("program:\n{}", src);
            cx.submit("replay:", &src, true);
            cx.flush();
        } else if let Some(req) = v["detail"]["request"].as_str() {
            println!("model: {}", cx.drv.ask(req));
        }
        return cx.rep.finish();
    }

    // 0. regression corpus
    if let Some(dir) = &args.corpus {
        if let Ok(rd) = std::fs::read_dir(dir) {
            let mut ps: Vec<_> = rd.filter_map(|e| e.ok()).map(|e| e.path()).collect();
            ps.sort();
            for p in ps {
                if p.extension().is_some_and(|e| e == "koto") {
                    if let Ok(s) = std::fs::read_to_string(&p) {
                        cx.submit(&format!("corpus:{}", p.display()), &s, false);
                    }
                }
            }
        }
    }

    // 1. repository scripts and documentation examples, and their token neighbourhood
    let sources = repo_sources();
    let cap = if thorough { 1500 } else { 14 };
    let mut n_mut = 0u64;
    for (origin, src) in &sources {
        let ok = cx.submit(origin, src, false);
        if !ok {
            continue;
        }
        let mut r = rng.fork();
        for (m, s) in token_mutants(src, &mut r, cap) {
            n_mut += 1;
            cx.submit(&format!("mutant:{}:{}", origin, m), &s, false);
        }
    }
    cx.rep.bump_by("token_mutants_tried", n_mut);
    cx.flush();
    let t_phase = std::time::Instant::now();
    cx.rep.note(format!("phase repo+mutants done at {:.1}s", t0.elapsed().as_secs_f64()));

    // 2. generated programs
    let n_gen = if thorough { 80000 } else { 1500 };
    let n_run_gen = if thorough { 12000 } else { 400 };
    for i in 0..n_gen {
        let src = gen_program(&mut rng);
        cx.submit(&format!("gen:{}", i), &src, i < n_run_gen);
    }
    cx.flush();

    cx.rep.note(format!("phase generated done at {:.1}s", t0.elapsed().as_secs_f64()));
    let _ = t_phase;
    // 2a. loops x try blocks with break / continue / return at every depth (former F-C05-6)
    let n_tl = if thorough { 12000 } else { 600 };
    for i in 0..n_tl {
        let src = gen_try_loop_program(&mut rng);
        cx.submit(&format!("tryloop:{}", i), &src, true);
    }
    cx.flush();

    // 2a''. every expression kind in statement position in every kind of block
    for (label, src) in discard_programs() {
        let compiled = cx.submit(&label, &src, true);
        if !compiled {
            cx.rep.bump("discard=rejected");
        }
    }
    cx.flush();

    // 2a'. functions ending in a nested jump (former F-C05-7)
    let n_tail = if thorough { 8000 } else { 500 };
    for i in 0..n_tail {
        let src = gen_tail_program(&mut rng);
        cx.submit(&format!("tail:{}", i), &src, true);
    }
    cx.flush();

    // 2b. capture-heavy programs: additionally compiled in two fresh processes each
    let n_cap = if thorough { 1500 } else { 120 };
    for i in 0..n_cap {
        let src = gen_capture_program(&mut rng);
        let ok = cx.submit(&format!("captures:{}", i), &src, false);
        if !ok {
            cx.rep.violation("D", "C05:capture-program-rejected", json!({"program": src, "input_hex": kvh::hex(src.as_bytes()),
                "note": "a capture-heavy generated program did not compile (generator or compiler defect)"}));
            continue;
        }
        if let Outcome::Ok(b) = build(&src) {
            let shape = shape_of(&b.ast);
            for _ in 0..2 {
                let mut wk = Worker::spawn(&["--worker".to_string()]);
                if let Reply::Ok(r) = wk.request(&format!("c {}", kvh::hex(src.as_bytes())), Duration::from_secs(30)) {
                    let f: Vec<&str> = r.split(' ').collect();
                    if f.len() == 5 && f[0] == "ok" {
                        let p = |x: &str| u64::from_str_radix(x, 16).unwrap_or(0);
                        cx.disagreements_checked += 1;
                        cx.compare_builds(&format!("captures:{}", i), &src, &b, (p(f[1]), p(f[2]), p(f[3]), p(f[4])), "compilation in a fresh process", &shape);
                    }
                }
            }
            cx.rep.bump(&format!("capture_program_non_locals_max={}", b.ast.nodes().iter().filter_map(|n| if let Node::Function(f) = &n.node { Some(f.accessed_non_locals.len()) } else { None }).max().unwrap_or(0).min(16)));
        }
    }
    cx.flush();
    cx.rep.note(format!("phase capture-heavy done at {:.1}s", t0.elapsed().as_secs_f64()));

    // 3. size-scaled programs
    for (label, src) in scaled_programs(&mut rng, thorough) {
        let compiled = cx.submit(&format!("scaled:{}", label), &src, false);
        cx.rep.bump(&format!("scaled:{}={}", label.rsplit_once('-').map(|x| x.0).unwrap_or(&label), if compiled { "compiled" } else { "rejected" }));
    }
    cx.flush();

    // 3b. register pressure x constructs (former F-C05-8)
    for (label, src) in pressure_programs() {
        let compiled = cx.submit(&label, &src, false);
        let kind = label.split(':').next().unwrap_or("?").rsplit_once('-').map(|x| x.0.to_string()).unwrap_or_default();
        cx.rep.bump(&format!("{}={}", kind, if compiled { "compiled" } else { "rejected" }));
    }
    cx.flush();
    cx.rep.note(format!("phase scaled done at {:.1}s", t0.elapsed().as_secs_f64()));
    // 4. (K) register allocator histories
    let n_frame = if thorough { 100000 } else { 3000 };
    let mut k_fail = 0;
    let mut batch: Vec<FrameCase> = vec![];
    let mut run_batch = |cx: &mut Ctx, batch: &mut Vec<FrameCase>| {
        let reqs: Vec<String> = batch.iter().map(frame_request).collect();
        let resps = cx.drv.batch(&reqs);
        for ((c, req), model) in batch.iter().zip(reqs.iter()).zip(resps.iter()) {
            let real = frame_real(c);
            cx.rep.case(req, c.ops.len() >= 3);
            cx.disagreements_checked += 1;
            for tok in real.split(' ') {
                let k = if tok.starts_with("E:") { tok.split('(').next().unwrap() } else if tok == "PANIC" { "PANIC" } else { "ok" };
                cx.rep.bump(&format!("frame_obs={}", k));
            }
            if &real != model {
                k_fail += 1;
                if k_fail <= 3 {
                    cx.rep.violation("K", "K:C05:Model.Frame.step", json!({"request": req, "impl": real, "model": model,
                        "note": "the allocator model and koto_bytecode's Frame disagree; frame_inv no longer speaks about this code"}));
                }
            } else if cx.rep.samples.len() < 8 && c.ops.len() < 14 && real.contains("E:") {
                cx.rep.sample(json!({"request": req, "impl": real, "model": model}));
            }
        }
        batch.clear();
    };
    // boundary histories first: 254 / 255 pushes on the smallest frame, locals up to the base
    for tb_locals in [0u8, 1, 200, 250, 253, 254] {
        let mut ops: Vec<FOp> = (0..256).map(|_| FOp::Push).collect();
        ops.push(FOp::Used);
        ops.push(FOp::Next);
        for i in 0..(tb_locals as u32 + 2) {
            ops.push(FOp::Assign(1000 + i));
        }
        batch.push(FrameCase { local_count: tb_locals, args: vec![], captures: vec![], ops });
    }
    for _ in 0..n_frame {
        batch.push(gen_frame_case(&mut rng));
        if batch.len() >= 500 {
            run_batch(&mut cx, &mut batch);
        }
    }
    run_batch(&mut cx, &mut batch);

    cx.rep.note(format!("phase allocator done at {:.1}s", t0.elapsed().as_secs_f64()));
    // 4a. functions with defaults x nested closures x captures reading late non-locals, called
    for (label, prog, expect) in nonlocal_grid() {
        cx.submit(&label, &prog, false);
        let got = match cx.worker.request(&format!("v {}", kvh::hex(prog.as_bytes())), Duration::from_secs(20)) {
            Reply::Ok(s) => s,
            Reply::Timeout => "timeout".into(),
            Reply::Died(x) => format!("died {}", x),
        };
        cx.rep.case(&label, true);
        if got != expect {
            let internal = got.starts_with("error an_unexpected_error") || got.starts_with("panic");
            cx.rep.violation("D", if internal { "C05:internal-fault-at-run-time" } else { "C05:nonlocal-grid" }, json!({"case": label, "program": prog,
                "input_hex": kvh::hex(prog.as_bytes()), "expected": expect, "observed": got,
                "note": "a called closure nested in functions with default arguments does not see a non-local that is available when it runs"}));
        } else {
            cx.rep.bump("nonlocal-grid=ok");
        }
    }
    cx.flush();
    // 4a'. break / continue inside literals and interpolations, against the reference with the jump as a statement
    let mut grids = jump_in_builder_grid();
    grids.extend(nested_loop_literal_grid());
    grids.extend(register_discipline_grid());
    for (label, prog, reference) in grids {
        cx.submit(&label, &prog, false);
        let mut ask = |p: &str| match cx.worker.request(&format!("v {}", kvh::hex(p.as_bytes())), Duration::from_secs(20)) {
            Reply::Ok(s) => s,
            Reply::Timeout => "timeout".into(),
            Reply::Died(x) => format!("died {}", x),
        };
        let got = ask(&prog);
        let want = ask(&reference);
        cx.rep.case(&label, true);
        if !want.starts_with("value ") {
            cx.rep.violation("K", &format!("C05:{}:reference", label.split(':').next().unwrap_or("grid")), json!({"case": label, "reference": reference, "observed": want,
                "note": "the reference program of the grid does not produce a value (harness defect)"}));
        } else if got == "compile-error" {
            // rejecting the program is not misbehaviour (`'{(break)}'`: "the compiled expression has no output")
            cx.rep.bump(&format!("{}=compile-error", label.split(':').next().unwrap_or("grid")));
        } else if got != want {
            cx.rep.violation("D", &format!("C05:{}", label.split(':').next().unwrap_or("grid")), json!({"case": label, "program": prog, "input_hex": kvh::hex(prog.as_bytes()),
                "reference": reference, "expected": want, "observed": got,
                "note": "the program behaves differently from its reference (the jump / early exit as a statement in front of the literal, the inner loop or element evaluated on its own)"}));
        } else {
            cx.rep.bump(&format!("{}=ok", label.split(':').next().unwrap_or("grid")));
        }
    }
    cx.flush();
    // 4a''. variable-length operands at every width (constant pools of 2^7 / 2^14 entries in front of one program that
    // uses every instruction with such an operand), and constants of different kinds that collide under a shared key
    {
        let mut widths: BTreeMap<String, std::collections::BTreeSet<usize>> = BTreeMap::new();
        let mut base_value: BTreeMap<String, String> = BTreeMap::new();
        for (label, prog, n, by_value) in varint_programs() {
            let compiled = cx.submit(&label, &prog, false);
            cx.rep.case(&label, true);
            if !compiled {
                cx.rep.violation("D", "C05:varint:does-not-compile", json!({"case": label, "pool": n, "input_hex": kvh::hex(prog.as_bytes()),
                    "note": "the program compiles with an empty constant pool prelude but not behind this one"}));
                continue;
            }
            if let Outcome::Ok(b) = build(&prog) {
                varint_widths(&b.chunk, &mut widths);
            }
            if by_value {
                let got = match cx.worker.request(&format!("v {}", kvh::hex(prog.as_bytes())), Duration::from_secs(30)) {
                    Reply::Ok(s) => s,
                    Reply::Timeout => "timeout".into(),
                    Reply::Died(x) => format!("died {}", x),
                };
                let kind = label.split(':').nth(1).unwrap_or("?").to_string();
                if n == 0 {
                    if !got.starts_with("value ") {
                        cx.rep.violation("K", "C05:varint:reference", json!({"case": label, "observed": got, "program": prog,
                            "note": "the reference program (empty pool) does not produce a value (harness defect or a defect in one of its constructs)"}));
                    }
                    base_value.insert(kind, got);
                } else if base_value.get(&kind) != Some(&got) {
                    cx.rep.violation("D", "C05:varint:value", json!({"case": label, "pool": n, "input_hex": kvh::hex(prog.as_bytes()),
                        "expected": base_value.get(&kind), "observed": got,
                        "note": "the same program behaves differently when its constant indices need more bytes"}));
                } else {
                    cx.rep.bump("varint=ok");
                }
            }
        }
        cx.flush();
        // every instruction with a variable-length operand was seen with 1-, 2- and 3-byte operands
        for op in ["LoadFloat", "LoadInt", "LoadString", "LoadNonLocal", "MakeMap", "SequenceStart", "StringStart", "Access", "TryAccess", "Debug",
                   "AssertType", "AssertOptionalType", "CheckType", "CheckOptionalType", "StringPush"] {
            let seen = widths.get(op).cloned().unwrap_or_default();
            cx.rep.bump(&format!("varint-widths:{}={:?}", op, seen));
            let need: &[usize] = &[1, 2, 3];
            if !need.iter().all(|w| seen.contains(w)) {
                cx.rep.violation("K", "C05:varint:coverage", json!({"op": op, "widths_seen": format!("{:?}", seen),
                    "note": "the sweep no longer produces this instruction at every operand width (harness coverage requirement)"}));
            }
        }
        for (label, prog, expect) in constant_collision_programs() {
            cx.submit(&label, &prog, false);
            let got = match cx.worker.request(&format!("v {}", kvh::hex(prog.as_bytes())), Duration::from_secs(20)) {
                Reply::Ok(s) => s,
                Reply::Timeout => "timeout".into(),
                Reply::Died(x) => format!("died {}", x),
            };
            cx.rep.case(&label, true);
            if got != expect {
                cx.rep.violation("D", "C05:const-collision", json!({"case": label, "program": prog, "input_hex": kvh::hex(prog.as_bytes()),
                    "expected": expect, "observed": got, "note": "literals of different kinds with a colliding key do not keep their own values"}));
            } else {
                cx.rep.bump("const-collision=ok");
            }
        }
        cx.flush();
    }
    // 4b. behavioural must-pass cases of the repaired findings
    for (name, prog, expect) in behaviour_cases() {
        cx.submit(&format!("behaviour:{}", name), &prog, false);
        let got = match cx.worker.request(&format!("v {}", kvh::hex(prog.as_bytes())), Duration::from_secs(20)) {
            Reply::Ok(s) => s,
            Reply::Timeout => "timeout".into(),
            Reply::Died(x) => format!("died {}", x),
        };
        cx.rep.case(&format!("behaviour {}", name), true);
        if got != expect {
            cx.rep.violation("D", "C05:behaviour", json!({"case": name, "program": prog, "input_hex": kvh::hex(prog.as_bytes()), "expected": expect, "observed": got,
                "note": "a repaired finding's must-pass case does not behave as specified"}));
        } else {
            cx.rep.bump("behaviour=ok");
        }
    }
    cx.flush();

    // 4c. boundary sweep of the narrowing casts: the stated value or a compile error
    for (family, n, prog, expect) in boundary_cases() {
        let label = format!("boundary-{}:{}", family, n);
        cx.submit(&label, &prog, false);
        let got = match cx.worker.request(&format!("v {}", kvh::hex(prog.as_bytes())), Duration::from_secs(30)) {
            Reply::Ok(s) => s,
            Reply::Timeout => "timeout".into(),
            Reply::Died(x) => format!("died {}", x),
        };
        cx.rep.case(&format!("boundary {} {}", family, n), true);
        // a compile error is an acceptable outcome at a size limit — except where the construct's register use
        // does not depend on n at all (a sequence of assignment statements)
        let limit_ok = !family.ends_with("-statements") && !family.ends_with("-values");
        // a frame that uses (nearly) all 255 registers cannot start a call: the VM reports that as a run-time error
        // (not for list / tuple literals: 91d516a builds them in batches of 64, they are must-pass by value)
        let runtime_limit = limit_ok && n >= 250 && family != "list-literal" && family != "tuple-literal"
            && got.starts_with("error too_many_registers_are_in_use");
        let verdict = if got == expect {
            "value-ok"
        } else if got == "compile-error" && limit_ok {
            "compile-error"
        } else if runtime_limit {
            "register-limit-reported-at-run-time"
        } else {
            "WRONG"
        };
        cx.rep.bump(&format!("boundary:{}={}", family, verdict));
        if verdict == "WRONG" {
            match boundary_finding(&family, n) {
                Some(id) if cx.is_open(id) => cx.attributed(id, &label),
                _ => cx.rep.violation("D", &format!("C05:boundary:{}", family), json!({"family": family, "n": n, "program": if prog.len() < 6000 { prog.clone() } else { format!("<{} bytes, see input_hex>", prog.len()) },
                    "input_hex": kvh::hex(prog.as_bytes()), "expected": format!("{} (or a compile error)", expect), "observed": got,
                    "note": "a size limit is neither honoured nor reported: the program compiles and misbehaves"})),
            }
        }
    }
    cx.flush();

    // 5. listed findings: replay the witnesses
    for e in cx.rep.known_entries() {
        let Some(id) = e.get("id").and_then(|x| x.as_str()).map(|s| s.to_string()) else { continue };
        let known = e.get("status").and_then(|x| x.as_str()) == Some("known");
        let mut failing: Vec<String> = vec![];
        for w in witnesses(&id) {
            let f = match id.as_str() {
                "F-C05-2" => {
                    // six fresh processes
                    let mut hs = std::collections::BTreeSet::new();
                    for _ in 0..6 {
                        let mut wk = Worker::spawn(&["--worker".to_string()]);
                        if let Reply::Ok(s) = wk.request(&format!("c {}", kvh::hex(w.as_bytes())), Duration::from_secs(30)) {
                            hs.insert(s.split(' ').nth(1).unwrap_or("").to_string());
                        }
                    }
                    if hs.len() > 1 { Some(format!("{} different codes in 6 processes", hs.len())) } else { None }
                }
                "F-C05-3" => match build(&w) {
                    Outcome::Panic(m, l) => Some(format!("compiler panic `{}` at {}", m, l)),
                    _ => None,
                },
                _ => match build(&w) {
                    Outcome::Ok(b) => {
                        let r = cx.drv.ask(&format!("wf {} {}", kvh::hex(&b.chunk.bytes), const_kinds(&b.chunk)));
                        if r == "ok" { None } else { Some(format!("compiles; wfChunk: {}", r)) }
                    }
                    Outcome::Panic(m, l) => Some(format!("compiler panic `{}` at {}", m, l)),
                    _ => None,
                },
            };
            if let Some(f) = f {
                failing.push(f);
            }
        }
        let n = cx.known_counts.get(&id).copied().unwrap_or(0);
        // findings of the boundary sweep: their witnesses are the sweep's own cases (run above)
        if id == "F-C05-12" && n > 0 {
            failing.push(format!("{} boundary-sweep cases of its families give a wrong value / spurious error", n));
        }
        if known && !failing.is_empty() {
            cx.rep.known(&id, &format!("witness still fails: {} ({} programs of this run attributed to it by its cause rule)", failing.join("; "), n));
        } else if known {
            cx.rep.note(format!("{}: the listed witness no longer fails (entry is stale)", id));
        } else if !failing.is_empty() {
            cx.rep.violation("D", &format!("C05:regression:{}", id), json!({"program": witnesses(&id).first(), "observed": failing,
                "note": "a finding recorded as fixed fails again"}));
        }
    }
    let kc = cx.known_counts.clone();
    for (id, n) in kc {
        cx.rep.bump_by(&format!("attributed_to_{}", id), n);
    }
    cx.rep.extra.insert("programs".into(), json!(cx.programs));
    cx.rep.extra.insert("disagreements_checked".into(), json!(cx.disagreements_checked));
    cx.rep.extra.insert("driver_requests".into(), json!(cx.drv.requests));
    cx.rep.extra.insert("repo_sources".into(), json!(sources.len()));
    cx.rep.finish()
}
