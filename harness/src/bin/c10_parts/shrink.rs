// ---- judging one variant against the base layout, and shrinking a failing (program, variant) ------

#[derive(Clone, Debug)]
enum Verdict {
    Fine,
    Rejected(bool, String),
    AstDiffers(String, String),
    BehaviourDiffers(String, String),
    Panic(String),
}

impl Verdict {
    fn kind(&self) -> u8 {
        match self {
            Verdict::Fine => 0,
            Verdict::Rejected(..) => 1,
            Verdict::AstDiffers(..) => 2,
            Verdict::BehaviourDiffers(..) => 3,
            Verdict::Panic(_) => 4,
        }
    }
}

struct BaseObs {
    src: String,
    parsed: Parsed,
    beh: String,
}

fn observe_base(prog: &[S]) -> Result<BaseObs, Verdict> {
    let (lines, _, _) = render(prog, 0, None, Opts::default());
    let src = join(&lines);
    match parse_real(&src) {
        Ok(Ok(parsed)) => {
            let beh = behaviour(&src);
            Ok(BaseObs { src, parsed, beh })
        }
        Ok(Err((ind, m))) => Err(Verdict::Rejected(ind, m)),
        Err(p) => Err(Verdict::Panic(p)),
    }
}

fn judge(base: &BaseObs, src: &str, strict: bool) -> Verdict {
    match parse_real(src) {
        Err(p) => Verdict::Panic(p),
        Ok(Err((ind, m))) => Verdict::Rejected(ind, m),
        Ok(Ok(p)) => {
            let (a, b) = if strict { (&p.strict, &base.parsed.strict) } else { (&p.erased, &base.parsed.erased) };
            if a != b {
                let at = a.bytes().zip(b.bytes()).position(|(x, y)| x != y).unwrap_or(a.len().min(b.len()));
                let lo = (0..=at.saturating_sub(100)).rev().find(|i| a.is_char_boundary(*i) && b.is_char_boundary(*i)).unwrap_or(0);
                let cut = |s: &str| {
                    let hi = (lo + 260).min(s.len());
                    let hi = (hi..=s.len()).find(|i| s.is_char_boundary(*i)).unwrap_or(s.len());
                    s.get(lo..hi).unwrap_or("").to_string()
                };
                return Verdict::AstDiffers(cut(a), cut(b));
            }
            let beh = behaviour(src);
            if beh != base.beh {
                return Verdict::BehaviourDiffers(beh, base.beh.clone());
            }
            Verdict::Fine
        }
    }
}

#[derive(Clone, Copy)]
struct VariantSpec {
    vseed: u64,
    o: Opts,
    trivia: Option<u64>,
    strict: bool,
}

fn render_variant(prog: &[S], v: &VariantSpec, mask: Option<&[bool]>) -> (Vec<Line>, Used, Vec<bool>) {
    let (mut lines, mut used, taken) = render(prog, v.vseed, mask, v.o);
    if let Some(t) = v.trivia {
        lines = add_trivia(&lines, &mut Rng::new(t), &mut used);
    }
    (lines, used, taken)
}

fn blocks_mut(s: &mut S) -> Vec<&mut Vec<S>> {
    match s {
        S::If(arms, els) => arms.iter_mut().map(|a| &mut a.1).chain(els.iter_mut()).collect(),
        S::For(_, _, b) | S::While(_, b) | S::Until(_, b) | S::Loop(b) | S::Func(_, _, b) => vec![b],
        S::Try(b, _, c, f) => vec![b, c].into_iter().chain(f.iter_mut()).collect(),
        S::Match(_, arms, els) => arms.iter_mut().map(|a| &mut a.2).chain(els.iter_mut()).collect(),
        S::Switch(arms, els) => arms.iter_mut().map(|a| &mut a.1).chain(els.iter_mut()).collect(),
        _ => vec![],
    }
}

fn count_stmts(b: &mut Vec<S>) -> usize {
    let mut n = b.len();
    for s in b.iter_mut() {
        for c in blocks_mut(s) {
            n += count_stmts(c);
        }
    }
    n
}

/// delete the n-th statement (preorder); blocks never become empty
fn delete_nth(b: &mut Vec<S>, n: &mut isize) -> bool {
    let mut i = 0;
    while i < b.len() {
        if *n == 0 {
            if b.len() > 1 {
                b.remove(i);
                return true;
            }
            return false;
        }
        *n -= 1;
        for c in blocks_mut(&mut b[i]) {
            if *n < 0 {
                return false;
            }
            let before = *n;
            if delete_nth(c, n) {
                return true;
            }
            if *n == before && false {
                return false;
            }
        }
        i += 1;
    }
    false
}

/// hoist: replace the n-th compound statement by the statements of its first block
fn hoist_nth(b: &mut Vec<S>, n: &mut isize) -> bool {
    let mut i = 0;
    while i < b.len() {
        if *n == 0 {
            let mut s = b[i].clone();
            let inner: Option<Vec<S>> = blocks_mut(&mut s).into_iter().next().map(|x| x.clone());
            if let Some(inner) = inner {
                if !matches!(b[i], S::Func(..)) {
                    b.splice(i..=i, inner);
                    return true;
                }
            }
            return false;
        }
        *n -= 1;
        for c in blocks_mut(&mut b[i]) {
            if hoist_nth(c, n) {
                return true;
            }
        }
        i += 1;
    }
    false
}

struct Shrunk {
    base: String,
    variant: String,
    verdict: Verdict,
    freedoms: Vec<String>,
}

fn shrink(prog: &[S], v: &VariantSpec, want: u8) -> Option<Shrunk> {
    let mut prog: Vec<S> = prog.to_vec();
    let (_, _, taken) = render_variant(&prog, v, None);
    let mut mask = taken;
    let check = |prog: &[S], mask: &[bool]| -> Option<(BaseObs, Vec<Line>, Used, Verdict)> {
        let base = observe_base(prog).ok()?;
        let (lines, used, _) = render_variant(prog, v, Some(mask));
        let verdict = judge(&base, &join(&lines), v.strict);
        if verdict.kind() == want { Some((base, lines, used, verdict)) } else { None }
    };
    check(&prog, &mask)?;
    let mut budget = 4000;
    loop {
        let mut progress = false;
        // layout decisions
        for i in 0..mask.len() {
            if mask[i] && budget > 0 {
                budget -= 1;
                mask[i] = false;
                if check(&prog, &mask).is_none() {
                    mask[i] = true;
                } else {
                    progress = true;
                }
            }
        }
        // statements
        let mut n = 0;
        loop {
            let total = count_stmts(&mut prog.clone());
            if n >= total || budget <= 0 {
                break;
            }
            let mut changed = false;
            for op in 0..2 {
                let mut cand = prog.clone();
                let mut k = n as isize;
                let done = if op == 0 { delete_nth(&mut cand, &mut k) } else { hoist_nth(&mut cand, &mut k) };
                if done {
                    budget -= 1;
                    // the opportunity numbering shifts: accept the candidate with the current mask or
                    // with the freshly taken decisions
                    if check(&cand, &mask).is_some() {
                        prog = cand;
                        changed = true;
                        break;
                    }
                    let (_, _, t2) = render_variant(&cand, v, None);
                    if check(&cand, &t2).is_some() {
                        prog = cand;
                        mask = t2;
                        changed = true;
                        break;
                    }
                }
            }
            if changed {
                progress = true;
            } else {
                n += 1;
            }
        }
        if !progress || budget <= 0 {
            break;
        }
    }
    let (base, mut lines, used, mut verdict) = check(&prog, &mask)?;
    // trivia: drop inserted lines (multi-line comments as a unit), restore decorated line ends
    let mut i = 0;
    while i < lines.len() {
        if lines[i].trivia {
            let opens = lines[i].text.matches("#-").count() > lines[i].text.matches("-#").count();
            let len = if opens { 3.min(lines.len() - i) } else { 1 };
            let balanced = opens || lines[i].text.matches("#-").count() == lines[i].text.matches("-#").count();
            if balanced && lines[i].text != "  still the comment" {
                let mut cand = lines.clone();
                cand.drain(i..i + len);
                let vd = judge(&base, &join(&cand), v.strict);
                if vd.kind() == want {
                    lines = cand;
                    verdict = vd;
                    continue;
                }
            }
        } else if !lines[i].orig.is_empty() && lines[i].orig != lines[i].text {
            let mut cand = lines.clone();
            cand[i].text = cand[i].orig.clone();
            let vd = judge(&base, &join(&cand), v.strict);
            if vd.kind() == want {
                lines = cand;
                verdict = vd;
            }
        }
        i += 1;
    }
    Some(Shrunk {
        base: base.src,
        variant: join(&lines),
        verdict,
        freedoms: used.iter().map(|(k, n)| format!("{}×{}", k, n)).collect(),
    })
}
