// ---- closers on their own line, paren-free argument lists over several lines, keyword values ------
//
// Three systematic streams of line-breaking variants. Oracle as for the other line-breaking
// variants: accepted, erased Ast and behaviour identical to the one-line form. Acceptance is
// asserted for every class except those in `LAYOUT_NOT_ACCEPTED` (what the unchanged tree refuses,
// determined with `--layout-matrix`; each entry says why it is not a documented layout or which
// finding it is); for those only "if accepted then identical" holds.

const L_PRELUDE: &str = "f = |a, b = 0, c = 0, d = 0, e = 0| (a, b, c, d, e)\nmsg = |a, b = 0| 'm{a}-{b}'\no = {m: |a, b = 0, c = 0| (a, b, c)}\nl = [10, 20, 30, 40]\nshow = |a, b = 0, c = 0, d = 0| print 'shown', a, b, c, d\nn = 3\n";

/// classes the unchanged tree (/repo at e003922) does not accept
const LAYOUT_NOT_ACCEPTED: &[(&str, &str)] = &[
    ("closer:index", "consume_index_expression parses with a restricted context: no line break inside `l[…]` (not a documented layout)"),
    ("free-call:index-expression", "consume_index_expression parses with a restricted context: no paren-free call inside `l[…]`"),
    ("chain-after:F-C10-12", "F-C10-12: after a multi-line parenthesised argument list the next chain link must be deeper than the line of the `)`"),
    ("header:F-C10-4", "F-C10-4: the body must be deeper than the header's LAST line (parse_indented_block measures against the line the header ends on); reported as an indentation error on a complete program"),
    ("match-pos:closer-after-block-body", "parse_indented_block: the last line of an indented block ends at a line break — a closing bracket directly after it is refused for every kind of block (if, function, arm body); uniform, not a documented layout"),
];

#[derive(Clone, Copy, PartialEq)]
enum LOracle {
    Full,       // erased Ast + behaviour
    AcceptOnly, // `debug`: the recorded expression text and line number legitimately differ
    Behaviour,  // the one-line form goes through a temporary: only acceptance and behaviour are compared
}

fn ind(n: usize) -> String {
    " ".repeat(n)
}

impl Ctx {
    fn layout_check(&mut self, class: &str, base: &str, var: &str, oracle: LOracle, matrix: &mut Option<std::collections::BTreeMap<String, (u64, u64, String)>>) {
        let bobs = match parse_real(base) {
            Ok(Ok(p)) => BaseObs { src: base.to_string(), parsed: p, beh: behaviour(base) },
            r => {
                let d = match r {
                    Ok(Err((_, m))) => m,
                    Err(p) => p,
                    _ => String::new(),
                };
                if let Some(m) = matrix {
                    let e = m.entry(format!("{} ONE-LINE-FORM-REJECTED", class)).or_insert((0, 0, String::new()));
                    e.0 += 1;
                    e.2 = format!("{}\n{}", d, base);
                } else {
                    self.fail("D", "C10:layout:one-line-form-rejected", json!({"input": base, "error": d, "class": class}));
                }
                return;
            }
        };
        let verdict = if oracle == LOracle::AcceptOnly {
            match parse_real(var) {
                Ok(Ok(_)) => Verdict::Fine,
                Ok(Err((i, m))) => Verdict::Rejected(i, m),
                Err(p) => Verdict::Panic(p),
            }
        } else if oracle == LOracle::Behaviour {
            match parse_real(var) {
                Ok(Ok(_)) => {
                    let b = behaviour(var);
                    if b == bobs.beh { Verdict::Fine } else { Verdict::BehaviourDiffers(b, bobs.beh.clone()) }
                }
                Ok(Err((i, m))) => Verdict::Rejected(i, m),
                Err(p) => Verdict::Panic(p),
            }
        } else {
            judge(&bobs, var, false)
        };
        if let Some(m) = matrix {
            let e = m.entry(class.to_string()).or_insert((0, 0, String::new()));
            e.0 += 1;
            if verdict.kind() == 0 {
                e.1 += 1;
            } else if e.2.is_empty() {
                e.2 = format!("{:?}\n{}", verdict, var.lines().skip(6).collect::<Vec<_>>().join("\n")).chars().take(600).collect();
            }
            return;
        }
        self.pairs += 1;
        self.checked += 2;
        self.rep.case(var, true);
        self.rep.bump("variant=layout-stream");
        self.rep.bump(&format!("layout:{}", class));
        let not_asserted = LAYOUT_NOT_ACCEPTED.iter().any(|(c, _)| class.starts_with(c));
        match &verdict {
            Verdict::Fine => {}
            Verdict::Rejected(i, msg) => {
                if *i {
                    // second sentence of the property: a complete, accepted program's layout variant
                    // is never reported as an indentation error
                    self.rep.bump(if not_asserted { "complete-program-indentation-error:attributed-to-known-finding" } else { "complete-program-indentation-error:UNLISTED" });
                }
                if !not_asserted {
                    self.fail(
                        "D",
                        if *i { "C10:complete-program-indentation-error:layout-stream" } else { "C10:variant-rejected:layout-stream" },
                        json!({"input": var, "base": base, "class": class, "error": msg, "is_indentation_error": i,
                               "note": "a line-breaking layout accepted by the unchanged tree is rejected"}),
                    );
                } else {
                    self.rep.bump(&format!("layout-not-asserted-rejected:{}", class));
                }
            }
            v => {
                let name = match v {
                    Verdict::AstDiffers(..) => "ast-differs",
                    Verdict::BehaviourDiffers(..) => "behaviour-differs",
                    _ => "parser-panic",
                };
                self.fail("D", &format!("C10:{}:layout-stream", name), json!({"input": var, "base": base, "class": class, "verdict": format!("{:?}", v)}));
            }
        }
        if self.k_budget_layout > 0 {
            self.k_budget_layout -= 1;
            self.trace_k(var, "layout-stream");
        }
    }

    fn layout_stream(&mut self, rng: &mut Rng, rounds: usize, matrix: bool) {
        let mut m = if matrix { Some(std::collections::BTreeMap::new()) } else { None };
        for round in 0..rounds {
            self.closers(rng, round, &mut m);
            self.free_args(rng, round, &mut m);
            self.keyword_values(rng, round, &mut m);
            self.map_key_forms(rng, &mut m);
            self.tuple_bodies(rng, &mut m);
            self.match_switch_positions(rng, &mut m);
            self.header_breaks(rng, &mut m);
            self.multi_assign_results(rng, &mut m);
            self.free_call_positions(rng, &mut m);
            self.chain_after_multiline(rng, &mut m);
        }
        if let Some(m) = m {
            for (k, (tot, ok, sample)) in &m {
                println!("{:64} accepted {}/{}", k, ok, tot);
                if ok != tot {
                    println!("    {}", sample.replace('\n', "\n    "));
                }
            }
        }
    }

    // (A) closing bracket on its own line at every indentation >= the statement's
    fn closers(&mut self, rng: &mut Rng, round: usize, m: &mut Option<std::collections::BTreeMap<String, (u64, u64, String)>>) {
        let ctxs: [(&str, &str, &str, usize); 8] = [
            ("call", "x = f(", ")", 4),
            ("method-call", "x = o.m(", ")", 3),
            ("list", "x = [", "]", 4),
            ("tuple", "x = (", ")", 4),
            ("map", "x = {", "}", 3),
            ("index", "x = l[", "]", 1),
            ("nested-call-list", "x = f([", "])", 3),
            ("call-in-call", "x = f(1, f(", "))", 3),
        ];
        for (name, open, close, max_n) in ctxs {
            for stmt_ind in [0usize, 2] {
                let n = if name == "tuple" { 2 + rng.below(max_n - 1) } else { 1 + rng.below(max_n) };
                let elems: Vec<String> = (0..n)
                    .map(|i| {
                        let v = match rng.below(4) {
                            0 => format!("n + {}", i),
                            1 => format!("l[{}]", i % 4),
                            _ => format!("{}", i + 1),
                        };
                        if name == "map" { format!("k{}: {}", i, v) } else { v }
                    })
                    .collect();
                let pad = ind(stmt_ind);
                let wrap = |body: String| -> String {
                    if stmt_ind == 0 { format!("{}{}\nprint x\n", L_PRELUDE, body) } else { format!("{}if n == 3\n{}\n  print x\n", L_PRELUDE, body) }
                };
                let base = wrap(format!("{}{}{}{}", pad, open, elems.join(", "), close));
                let ei = stmt_ind + *rng.pick(&[2usize, 4, 6]);
                for first_on_opener in [false, true] {
                    // closer: after the last element, or on its own line at indentation k
                    let mut closers: Vec<Option<usize>> = vec![None];
                    for k in stmt_ind..=ei + 3 {
                        closers.push(Some(k));
                    }
                    for c in closers {
                        if round > 0 && !rng.chance(1, 2) {
                            continue;
                        }
                        let mut s = format!("{}{}", pad, open);
                        for (i, e) in elems.iter().enumerate() {
                            if i == 0 && first_on_opener {
                                s.push_str(e);
                            } else {
                                s.push_str(&format!("\n{}{}", ind(ei), e));
                            }
                            if i + 1 < n {
                                s.push(',');
                            }
                        }
                        let rel = match c {
                            None => "same-line".to_string(),
                            Some(k) => {
                                s.push_str(&format!("\n{}", ind(k)));
                                (if k == stmt_ind { "at-statement" } else if k < ei { "between" } else if k == ei { "at-elements" } else { "deeper" }).to_string()
                            }
                        };
                        s.push_str(close);
                        if first_on_opener && n == 1 && c.is_none() {
                            continue; // identical to the one-line form
                        }
                        let class = format!("closer:{}:{}:closer-{}", name, if first_on_opener { "first-on-opener-line" } else { "elements-on-own-lines" }, rel);
                        self.layout_check(&class, &base, &wrap(s), LOracle::Full, m);
                    }
                }
            }
        }
    }

    // (B) paren-free calls with 1..5 arguments over 2..4 lines, continuation lines at equal indentation
    fn free_args(&mut self, rng: &mut Rng, round: usize, m: &mut Option<std::collections::BTreeMap<String, (u64, u64, String)>>) {
        let ctxs: [(&str, &str, usize, bool); 5] = [
            ("assign", "x = f", 5, true),
            ("statement", "show", 4, false),
            ("method", "x = o.m", 3, true),
            ("return", "return f", 5, true),
            ("nested-rightmost", "x = f 7, f", 4, true),
        ];
        for (name, head, max_n, has_x) in ctxs {
            for n in 1..=max_n {
                let args: Vec<String> = (0..n)
                    .map(|i| match rng.below(4) {
                        0 => format!("n + {}", i),
                        1 => format!("l[{}]", i % 4),
                        2 => format!("({} * 2)", i + 1),
                        _ => format!("{}", i + 1),
                    })
                    .collect();
                let in_fn = name == "return";
                let stmt_ind = if in_fn { 2 } else { 0 };
                let pad = ind(stmt_ind);
                let wrap = |body: String| -> String {
                    if in_fn {
                        format!("{}g = ||\n{}\nx = g()\nprint x\n", L_PRELUDE, body)
                    } else if has_x {
                        format!("{}{}\nprint x\n", L_PRELUDE, body)
                    } else {
                        format!("{}{}\n", L_PRELUDE, body)
                    }
                };
                let base = wrap(format!("{}{} {}", pad, head, args.join(", ")));
                let ci = stmt_ind + *rng.pick(&[2usize, 4, 3, 8]);
                for first_on_call_line in [true, false] {
                    // split the arguments over lines: `per_line` pattern
                    for pattern in 0..3 {
                        if round > 0 && !rng.chance(1, 2) {
                            continue;
                        }
                        // group sizes: 0 = one per line, 1 = two per line, 2 = random
                        let mut groups: Vec<Vec<&String>> = vec![];
                        let mut it = args.iter().peekable();
                        while it.peek().is_some() {
                            let k = match pattern {
                                0 => 1,
                                1 => 2,
                                _ => 1 + rng.below(3),
                            };
                            groups.push(it.by_ref().take(k).collect());
                        }
                        let lines = groups.len() + if first_on_call_line { 0 } else { 1 };
                        if lines < 2 || lines > 5 {
                            continue;
                        }
                        let mut s = format!("{}{}", pad, head);
                        for (gi, g) in groups.iter().enumerate() {
                            let txt = g.iter().map(|x| x.as_str()).collect::<Vec<_>>().join(", ");
                            if gi == 0 && first_on_call_line {
                                s.push(' ');
                            } else {
                                s.push_str(&format!("\n{}", ind(ci)));
                            }
                            s.push_str(&txt);
                            if gi + 1 < groups.len() {
                                s.push(',');
                            }
                        }
                        let class = format!("free-args:{}:{}:lines={}", name, if first_on_call_line { "first-arg-on-call-line" } else { "first-arg-on-next-line" }, lines.min(4));
                        self.layout_check(&class, &base, &wrap(s), LOracle::Full, m);
                    }
                }
            }
        }
    }

    // (C) every keyword that takes a value, with the value on following indented lines / in block form
    fn keyword_values(&mut self, rng: &mut Rng, _round: usize, m: &mut Option<std::collections::BTreeMap<String, (u64, u64, String)>>) {
        // (keyword class, lines before the keyword statement (indent 2 inside), keyword text, lines after, kind of value, oracle)
        struct K {
            name: &'static str,
            pre: &'static str,
            kw: &'static str,
            post: &'static str,
            ind: usize,
            value: &'static str, // "any" | "string" | "bool"
            oracle: LOracle,
        }
        let ks = [
            K { name: "return", pre: "g = ||\n", kw: "return", post: "x = g()\nprint x\n", ind: 2, value: "any", oracle: LOracle::Full },
            K { name: "yield", pre: "g = ||\n", kw: "yield", post: "print g().to_tuple()\n", ind: 2, value: "any", oracle: LOracle::Full },
            K { name: "break", pre: "x = loop\n", kw: "break", post: "print x\n", ind: 2, value: "any", oracle: LOracle::Full },
            K { name: "throw", pre: "try\n", kw: "throw", post: "catch err\n  print err\n", ind: 2, value: "string", oracle: LOracle::Full },
            K { name: "debug", pre: "", kw: "debug", post: "", ind: 0, value: "any", oracle: LOracle::AcceptOnly },
            K { name: "not", pre: "", kw: "x = not", post: "print x\n", ind: 0, value: "bool", oracle: LOracle::Full },
            K { name: "export-assign", pre: "", kw: "export x =", post: "print x\n", ind: 0, value: "any", oracle: LOracle::Full },
            K { name: "export-map", pre: "", kw: "export", post: "print ka, kb\n", ind: 0, value: "map", oracle: LOracle::Full },
            K { name: "let", pre: "", kw: "let x =", post: "print x\n", ind: 0, value: "any", oracle: LOracle::Full },
            K { name: "let-typed", pre: "", kw: "let x: Any =", post: "print x\n", ind: 0, value: "any", oracle: LOracle::Full },
            K { name: "assign", pre: "", kw: "x =", post: "print x\n", ind: 0, value: "any", oracle: LOracle::Full },
            K { name: "compound-assign", pre: "x = 1\n", kw: "x +=", post: "print x\n", ind: 0, value: "int", oracle: LOracle::Full },
        ];
        for k in &ks {
            let pad = ind(k.ind);
            let ci = k.ind + *rng.pick(&[2usize, 4]);
            let a = 1 + rng.below(5);
            let b = 1 + rng.below(5);
            // (value class, one-line text, broken text relative to the keyword line)
            let mut forms: Vec<(&str, String, String)> = vec![];
            match k.value {
                "any" | "int" => {
                    forms.push(("value-on-next-line", format!(" n + {}", a), format!("\n{}n + {}", ind(ci), a)));
                    forms.push(("operator-chain-continued", format!(" n + {} * {}", a, b), format!(" n +\n{}{} * {}", ind(ci), a, b)));
                    forms.push(("chain-continued", " l.first()".to_string(), format!(" l\n{}.first()", ind(ci))));
                    if k.value == "any" {
                        forms.push(("call-args-on-next-line", format!(" f {}, {}", a, b), format!(" f\n{}{}, {}", ind(ci), a, b)));
                        forms.push(("call-args-continued", format!(" f {}, {}", a, b), format!(" f {},\n{}{}", a, ind(ci), b)));
                        forms.push(("call-on-next-line", format!(" f {}, {}", a, b), format!("\n{}f {}, {}", ind(ci), a, b)));
                        forms.push(("map-block", format!(" {{ka: {}, kb: {}}}", a, b), format!("\n{}ka: {}\n{}kb: {}", ind(ci), a, ind(ci), b)));
                        forms.push(("list-broken", format!(" [{}, {}]", a, b), format!(" [\n{}{},\n{}{}\n{}]", ind(ci), a, ind(ci), b, pad)));
                        forms.push(("paren-call-broken", format!(" f({}, {})", a, b), format!(" f(\n{}{},\n{}{}\n{})", ind(ci), a, ind(ci), b, pad)));
                    }
                }
                "string" => {
                    forms.push(("value-on-next-line", format!(" msg({})", a), format!("\n{}msg({})", ind(ci), a)));
                    forms.push(("operator-chain-continued", format!(" msg({}) + 'z'", a), format!(" msg({}) +\n{}'z'", a, ind(ci))));
                    forms.push(("call-args-on-next-line", format!(" msg {}, {}", a, b), format!(" msg\n{}{}, {}", ind(ci), a, b)));
                    forms.push(("call-args-continued", format!(" msg {}, {}", a, b), format!(" msg {},\n{}{}", a, ind(ci), b)));
                    forms.push(("call-on-next-line", format!(" msg {}, {}", a, b), format!("\n{}msg {}, {}", ind(ci), a, b)));
                }
                "bool" => {
                    forms.push(("value-on-next-line", format!(" n > {}", a), format!("\n{}n > {}", ind(ci), a)));
                    forms.push(("operator-chain-continued", format!(" n > {} and n < 9", a), format!(" n > {} and\n{}n < 9", a, ind(ci))));
                }
                _ => {
                    forms.push(("map-block", format!(" {{ka: {}, kb: {}}}", a, b), format!("\n{}ka: {}\n{}kb: {}", ind(ci), a, ind(ci), b)));
                }
            }
            for (vc, one, broken) in forms {
                let base = format!("{}{}{}{}{}\n{}", L_PRELUDE, k.pre, pad, k.kw, one, k.post);
                let var = format!("{}{}{}{}{}\n{}", L_PRELUDE, k.pre, pad, k.kw, broken, k.post);
                self.layout_check(&format!("keyword:{}:{}", k.name, vc), &base, &var, k.oracle, m);
            }
        }
    }
}

// ---- checked table: the arms of parse_term (which keywords start a term, which take a value) -------

/// every `Token::X` that heads an arm of `parse_term` (parser.rs at e003922); `true`: the keyword is
/// followed by a value expression and is covered by `keyword_values`
const PARSE_TERM_ARMS: &[(&str, bool)] = &[
    ("Null", false), ("True", false), ("False", false), ("RoundOpen", false), ("Number", false), ("StringStart", false),
    ("Id", false), ("Self_", false), ("At", false), ("Underscore", false), ("SquareOpen", false), ("CurlyOpen", false),
    ("If", false), ("Match", false), ("Switch", false), ("Function", false), ("Subtract", false),
    ("Not", true), ("Yield", true), ("Loop", false), ("For", false), ("While", false), ("Until", false),
    ("Break", true), ("Continue", false), ("Return", true), ("Throw", true), ("Debug", true),
    ("From", false), ("Import", false), ("Export", true), ("Try", false), ("Let", true),
    ("Await", false), ("Const", false), ("Error", false),
];

impl Ctx {
    fn parse_term_table_check(&mut self) {
        let path = format!("{}/crates/parser/src/parser.rs", repo_root());
        let Ok(src) = std::fs::read_to_string(&path) else { return };
        let Some(start) = src.find("fn parse_term(") else {
            self.fail("K", "K:C10:parse_term-table", json!({"input": path, "note": "fn parse_term not found"}));
            return;
        };
        let body = &src[start..];
        let end = body.find("\n    fn ").map(|e| e).unwrap_or(body.len());
        // arm heads: lines of the top-level `match peeked.token` (12 spaces of indentation)
        let mut found: Vec<String> = vec![];
        for line in body[..end].lines() {
            if let Some(rest) = line.strip_prefix("            Token::") {
                if rest.contains("=>") {
                    for part in rest.split("=>").next().unwrap_or("").split('|') {
                        let name: String = part.trim().trim_start_matches("Token::").chars().take_while(|c| c.is_alphanumeric() || *c == '_').collect();
                        if !name.is_empty() {
                            found.push(name);
                        }
                    }
                }
            }
        }
        found.sort();
        found.dedup();
        let mut pinned: Vec<String> = PARSE_TERM_ARMS.iter().map(|(n, _)| n.to_string()).collect();
        pinned.sort();
        self.checked += found.len() as u64;
        self.rep.bump_by("interface_check:parse_term_arms", found.len() as u64);
        if found != pinned {
            let new: Vec<&String> = found.iter().filter(|x| !pinned.contains(x)).collect();
            let gone: Vec<&String> = pinned.iter().filter(|x| !found.contains(x)).collect();
            self.fail(
                "K",
                "K:C10:parse_term-table",
                json!({"input": path, "new_arms": new, "missing_arms": gone,
                       "note": "the set of tokens that start a term changed: review whether the new keyword takes a value and extend PARSE_TERM_ARMS / keyword_values"}),
            );
        }
        self.rep.extra.insert(
            "value_taking_keywords".into(),
            json!(PARSE_TERM_ARMS.iter().filter(|(_, v)| *v).map(|(n, _)| *n).collect::<Vec<_>>()),
        );
    }
}

// ---- (D) block maps: every key form in every position x every way of reaching the block -----------
// ---- (E) paren-free tuples as inline vs block bodies, with the result used ------------------------

impl Ctx {
    fn map_key_forms(&mut self, rng: &mut Rng, m: &mut Option<std::collections::BTreeMap<String, (u64, u64, String)>>) {
        let keys: [(&str, &str); 12] = [
            ("id", "ka"),
            ("string-single", "'k a'"),
            ("string-double", "\"k b\""),
            ("raw-0", "r'k\\c'"),
            ("raw-0-double", "r\"k\\d\""),
            ("raw-1", "r#'k'e'#"),
            ("raw-2", "r##\"k#\"f\"##"),
            ("string-escape", "'k\\tx'"),
            ("string-interpolated", "'k{n}'"),
            ("meta-type", "@type"),
            ("meta-named", "@meta kz"),
            ("id-keyword-like", "then_"),
        ];
        // (way, lines before, text that ends the line in front of the block, indent of the block, lines after)
        let ways: [(&str, &str, &str, usize, &str); 9] = [
            ("after-assign", "", "x =", 2, "show_map x\n"),
            ("after-return", "g = ||\n", "  return", 4, "show_map g()\n"),
            ("after-yield", "g = ||\n", "  yield", 4, "show_map g().next().get()\n"),
            ("after-break", "x = loop\n", "  break", 4, "show_map x\n"),
            ("chain-call-arg", "", "x = o.id", 2, "show_map x\n"),
            ("nested-map-value", "", "x =\n  outer:", 4, "show_map x.outer\n"),
            ("function-body-first-line", "", "g = ||", 2, "show_map g()\n"),
            ("if-body-first-line", "", "x = if n == 3", 2, "else\n  0\nshow_map x\n"),
            ("after-compound-target", "y = {}\n", "y.inner =", 2, "show_map y.inner\n"),
        ];
        let prelude = "n = 3\no = {id: |v| v}\nshow_map = |v|\n  print koto.type(v), (v.keys().to_tuple()), (v.values().to_tuple())\n";
        for (kname, key) in keys {
            for pos in 0..3 {
                for (wname, pre, head, bi, post) in ways {
                    if m.is_none() && !rng.chance(1, 2) && kname != "raw-0" {
                        continue;
                    }
                    let value = if kname == "meta-type" { "'T'".to_string() } else { format!("{}", 1 + rng.below(9)) };
                    let mut entries: Vec<(String, String)> = vec![("kb".into(), "2".into()), ("kc".into(), "n + 1".into())];
                    entries.insert(pos.min(2), (key.to_string(), value));
                    // inline form in the same position
                    let inline = format!("{{{}}}", entries.iter().map(|(k, v)| format!("{}: {}", k, v)).collect::<Vec<_>>().join(", "));
                    let block: String = entries.iter().map(|(k, v)| format!("\n{}{}: {}", ind(bi), k, v)).collect();
                    let (base, var) = if wname == "nested-map-value" {
                        (format!("{}{}x =\n  outer: {}\n{}", prelude, pre, inline, post), format!("{}{}{}{}\n{}", prelude, pre, head, block, post))
                    } else if wname == "function-body-first-line" || wname == "if-body-first-line" {
                        (format!("{}{}{}\n{}{}\n{}", prelude, pre, head, ind(bi), inline, post), format!("{}{}{}{}\n{}", prelude, pre, head, block, post))
                    } else {
                        (format!("{}{}{} {}\n{}", prelude, pre, head, inline, post), format!("{}{}{}{}\n{}", prelude, pre, head, block, post))
                    };
                    let class = format!("map-key:{}:{}:{}", kname, ["first", "middle", "last"][pos], wname);
                    self.layout_check(&class, &base, &var, LOracle::Full, m);
                }
            }
        }
    }

    fn tuple_bodies(&mut self, rng: &mut Rng, m: &mut Option<std::collections::BTreeMap<String, (u64, u64, String)>>) {
        // the result is used: type, comparison, indexing, size, unpacking — after other values were created
        let uses = "other = 10, 20, 30\nprint x\nprint koto.type(x), x == ('t', n), x == ('e', n, 1)\nprint x[0], size x\nfirst, second = x\nprint first, second, other\n";
        let a = rng.below(2); // which branch runs
        let sel = if a == 0 { "n" } else { "0" };
        // (class, block form, inline form)
        let cases: Vec<(&str, String, String)> = vec![
            ("match-then-arm", format!("x = match {s}\n  3 then\n    't', n\n  else\n    'e', n, 1\n", s = sel), format!("x = match {s}\n  3 then 't', n\n  else\n    'e', n, 1\n", s = sel)),
            ("match-else-arm", format!("x = match {s}\n  3 then\n    't', n\n  else\n    'e', n, 1\n", s = sel), format!("x = match {s}\n  3 then\n    't', n\n  else 'e', n, 1\n", s = sel)),
            ("match-both-arms", format!("x = match {s}\n  3 then\n    't', n\n  else\n    'e', n, 1\n", s = sel), format!("x = match {s}\n  3 then 't', n\n  else 'e', n, 1\n", s = sel)),
            ("switch-then-arm", format!("x = switch\n  {s} == 3 then\n    't', n\n  else\n    'e', n, 1\n", s = sel), format!("x = switch\n  {s} == 3 then 't', n\n  else\n    'e', n, 1\n", s = sel)),
            ("switch-else-arm", format!("x = switch\n  {s} == 3 then\n    't', n\n  else\n    'e', n, 1\n", s = sel), format!("x = switch\n  {s} == 3 then\n    't', n\n  else 'e', n, 1\n", s = sel)),
            ("if-else-inline", format!("x = if {s} == 3\n  't', n\nelse\n  'e', n, 1\n", s = sel), format!("x = if {s} == 3 then 't', n else 'e', n, 1\n", s = sel)),
            ("function-inline-body", format!("g = |v|\n  't', v\nx = g n\n"), format!("g = |v| 't', v\nx = g n\n")),
            ("function-with-match", format!("g = |v|\n  match v\n    3 then\n      't', v\n    else\n      'e', v, 1\nx = g {s}\n", s = sel), format!("g = |v|\n  match v\n    3 then 't', v\n    else 'e', v, 1\nx = g {s}\n", s = sel)),
            ("assignment-rhs", format!("x =\n  't', n\n"), format!("x = 't', n\n")),
            ("match-in-function-result-unpacked", format!("g = |v|\n  match v\n    3 then\n      't', v\n    else\n      'e', v, 1\nx = g {s}\nk1, k2 = g {s}\nprint k1, k2\n", s = sel), format!("g = |v|\n  match v\n    3 then 't', v\n    else 'e', v, 1\nx = g {s}\nk1, k2 = g {s}\nprint k1, k2\n", s = sel)),
        ];
        for (class, block, inline) in cases {
            let base = format!("n = 3\n{}{}", block, uses);
            let var = format!("n = 3\n{}{}", inline, uses);
            self.layout_check(&format!("tuple-body:{}:branch={}", class, if a == 0 { "then" } else { "else" }), &base, &var, LOracle::Full, m);
        }
    }
}

// ---- (F) block match / switch wherever an expression may stand (shape of F-C10-6, fixed in 1846795) --

impl Ctx {
    fn match_switch_positions(&mut self, rng: &mut Rng, m: &mut Option<std::collections::BTreeMap<String, (u64, u64, String)>>) {
        let prelude = "f = |v, w = 0| (v, w)\ny = 1\nn = 3\n";
        for is_match in [true, false] {
            let sel = rng.below(3);
            let narms = 1 + rng.below(3);
            let with_else = rng.chance(2, 3);
            // the arms, relative to indentation `ai`
            let arms = |ai: usize| -> String {
                let mut s = String::new();
                for a in 0..narms {
                    let head = if is_match { format!("{} then", a) } else { format!("{} == {} then", sel, a) };
                    if (a + sel) % 2 == 0 {
                        s.push_str(&format!("\n{}{} {}", ind(ai), head, 10 + a));
                    } else {
                        s.push_str(&format!("\n{}{}\n{}{}", ind(ai), head, ind(ai + 2), 10 + a));
                    }
                }
                if with_else {
                    s.push_str(&format!("\n{}else 99", ind(ai)));
                }
                s
            };
            let head = if is_match { format!("match {}", sel) } else { "switch".to_string() };
            let base = format!("{}t = {}{}\nPOS\nprint x\nprint n\n", prelude, head, arms(2));
            // (position, one-line use of the temporary, layout with the block in place)
            let ci = *rng.pick(&[2usize, 4]);
            let positions: Vec<(&str, String, String)> = vec![
                ("parens:closer-own-line", "x = (t)".into(), format!("x = ({}{}\n)", head, arms(2))),
                // indentation 3: level with neither the arms (2) nor an arm's block body (4); a closer level
                // with a block body is a line of that block
                ("parens:closer-own-line-deeper", "x = (t)".into(), format!("x = ({}{}\n   )", head, arms(2))),
                ("closer-after-last-arm:parens", "x = (t)".into(), format!("x = ({}{})", head, arms(2))),
                ("list:own-lines", "x = [t]".into(), format!("x = [\n{}{}{}\n]", ind(ci), head, arms(ci + 2))),
                ("list:second-element", "x = [7, t]".into(), format!("x = [\n{}7,\n{}{}{}\n]", ind(ci), ind(ci), head, arms(ci + 2))),
                ("tuple:own-lines", "x = (7, t)".into(), format!("x = (\n{}7,\n{}{}{}\n)", ind(ci), ind(ci), head, arms(ci + 2))),
                ("map-value", "x = {k: t}".into(), format!("x = {{\n{}k: {}{}\n}}", ind(ci), head, arms(ci + 2))),
                ("call-parens:on-opener-line", "x = f(t)".into(), format!("x = f({}{}\n)", head, arms(2))),
                ("call-parens:own-line", "x = f(t)".into(), format!("x = f(\n{}{}{}\n)", ind(ci), head, arms(ci + 2))),
                ("closer-after-last-arm:call-parens", "x = f(t)".into(), format!("x = f({}{})", head, arms(2))),
                ("call-parens:second-argument", "x = f(7, t)".into(), format!("x = f(7,\n{}{}{}\n)", ind(ci), head, arms(ci + 2))),
                ("paren-free-arg:on-call-line", "x = f t".into(), format!("x = f {}{}", head, arms(2))),
                ("paren-free-arg:own-line", "x = f t".into(), format!("x = f\n{}{}{}", ind(ci), head, arms(ci + 2))),
                ("paren-free-arg:second-own-line", "x = f 7, t".into(), format!("x = f 7,\n{}{}{}", ind(ci), head, arms(ci + 2))),
                ("operand:continuation-line", "x = 1 + t".into(), format!("x = 1 +\n{}{}{}", ind(ci), head, arms(ci + 2))),
                ("operand:same-line", "x = 1 + t".into(), format!("x = 1 + {}{}", head, arms(2))),
                ("after-assign:next-line", "x = t".into(), format!("x =\n{}{}{}", ind(ci), head, arms(ci + 2))),
                ("return-value:next-line", "g = ||\n  return t\nx = g()".into(), format!("g = ||\n  return\n    {}{}\nx = g()", head, arms(6))),
            ];
            for (pos, one, block) in positions {
                // with an else arm the value never is null + 1
                if pos.starts_with("operand") && !with_else {
                    continue;
                }
                // the closer directly after the last arm: asserted when that arm's body is inline
                let last_inline = with_else || (narms - 1 + sel) % 2 == 0;
                let pos_s = if pos.starts_with("closer-after-last-arm") && !last_inline { pos.replace("closer-after-last-arm", "closer-after-block-body") } else { pos.to_string() };
                let pos = pos_s.as_str();
                let b = base.replace("POS", &one);
                let v = format!("{}t = 0\n{}\nprint x\nprint n\n", prelude, block);
                let b = b.replace(&format!("t = {}", head), &format!("t = 0\nt = {}", head));
                self.layout_check(&format!("match-pos:{}:{}", pos, if is_match { "match" } else { "switch" }), &b, &v, LOracle::Behaviour, m);
            }
        }
    }
}
