// ---- (G) header expressions of block constructs broken across lines --------------------------------
// ---- (H) multi-assignment right-hand sides, paren-free vs parenthesised, result used ---------------
// ---- (I) paren-free calls in every expression position vs the parenthesised spelling ---------------

const L2_PRELUDE: &str = "add = |a, b| a + b\ncnt = |v| v.count()\nmsg = |a, b = 0| 'm{a}-{b}'\nxs = [10, 20, 30]\nn = 3\n";

impl Ctx {
    fn header_breaks(&mut self, rng: &mut Rng, m: &mut Option<std::collections::BTreeMap<String, (u64, u64, String)>>) {
        // body indentation is 2 (statement at 0) or 4 (statement at 2, inside `if n == 3`)
        for stmt_ind in [0usize, 2] {
            let bi = stmt_ind + 2;
            let pad = ind(stmt_ind);
            let a = 1 + rng.below(3);
            // (form, one-line text, broken text given continuation indent ci and closer placement)
            // every legal break point of a header expression is inside brackets (conditions are
            // parsed with an inline context)
            let forms = |ci: usize, closer_own: Option<usize>| -> Vec<(&'static str, String, String)> {
                let close = match closer_own {
                    Some(k) => format!("\n{})", ind(k)),
                    None => ")".to_string(),
                };
                let closeb = match closer_own {
                    Some(k) => format!("\n{}]", ind(k)),
                    None => "]".to_string(),
                };
                vec![
                    ("call-args", format!("add({}, 2)", a), format!("add({},\n{}2{}", a, ind(ci), close)),
                    ("call-args-own-lines", format!("add({}, 2)", a), format!("add(\n{}{},\n{}2{}", ind(ci), a, ind(ci), close)),
                    ("parenthesised-operator", format!("({} + 2)", a), format!("({} +\n{}2{}", a, ind(ci), close)),
                    ("list-literal", format!("cnt([{}, 2])", a), format!("cnt([{},\n{}2{})", a, ind(ci), closeb)),
                ]
            };
            for ci in [stmt_ind + 1, bi, bi + 2, bi + 10] {
                for closer_own in [None, Some(stmt_ind), Some(bi), Some(ci)] {
                    if m.is_none() && !rng.chance(1, 2) {
                        continue;
                    }
                    for (fname, one, broken) in forms(ci, closer_own) {
                        let last = closer_own.unwrap_or(ci);
                        let rel = if last < bi { "last-header-line-shallower-than-body" } else if last == bi { "last-header-line-level-with-body" } else { "last-header-line-deeper-than-body" };
                        // (construct, header with H standing for the expression, body + rest)
                        let constructs: Vec<(&str, String, String)> = vec![
                            ("if", "if H == 3".into(), format!("{}print 'yes'\n{}else\n{}print 'no'\n", ind(bi), pad, ind(bi))),
                            ("if-trailing", "if 3 == H".into(), format!("{}print 'yes'\n", ind(bi))),
                            ("else-if", format!("if n == 0\n{}print 'zero'\n{}else if H == 3", ind(bi), pad), format!("{}print 'yes'\n", ind(bi))),
                            ("while", "k = 0\nWPADwhile k < H".into(), format!("{}k += 1\n{}print k\n", ind(bi), pad)),
                            ("until", "k = 0\nWPADuntil k >= H".into(), format!("{}k += 1\n{}print k\n", ind(bi), pad)),
                            ("for", "for i in 0..H".into(), format!("{}print i\n", ind(bi))),
                            ("for-list", "for i in [H, 7]".into(), format!("{}print i\n", ind(bi))),
                            ("match-subject", "match H".into(), format!("{}3 then print 'three'\n{}else print 'other'\n", ind(bi), ind(bi))),
                            ("match-subject-assigned", "z = match H".into(), format!("{}3 then 'three'\n{}else 'other'\n{}print z\n", ind(bi), ind(bi), pad)),
                            ("switch-arm-condition", "switch".into(), format!("{}H == 3 then print 'three'\n{}else print 'other'\n", ind(bi), ind(bi))),
                            ("function-default-arg", "g = |v = H|".into(), format!("{}v + 1\n{}print g()\n", ind(bi), pad)),
                            ("catch-after-try", format!("try\n{}throw msg H\n{}catch e", ind(bi), pad), format!("{}print e\n", ind(bi))),
                        ];
                        for (cname, header, rest) in constructs {
                            if cname == "switch-arm-condition" || cname == "catch-after-try" {
                                // the expression sits on a line at the body's indentation: arguments of a
                                // parenthesised call must be deeper than the line with the `(`
                                if closer_own.is_some() || (fname.starts_with("call-args") && ci <= bi) {
                                    continue;
                                }
                            }
                            let wrap = |expr: &str| -> String {
                                let h = header.replace("WPAD", &pad).replace('H', expr);
                                let body = if cname == "switch-arm-condition" { rest.replace('H', expr) } else { rest.clone() };
                                let pre = if stmt_ind > 0 { "if n == 3\n" } else { "" };
                                format!("{}{}{}{}\n{}", L2_PRELUDE, pre, pad, h, body)
                            };
                            // F-C10-4: every construct whose body goes through parse_indented_block right
                            // after the header (match / switch measure against the keyword's line)
                            let f4 = !rel.contains("shallower") && !matches!(cname, "match-subject" | "match-subject-assigned" | "switch-arm-condition" | "catch-after-try");
                            let class = if f4 { format!("header:F-C10-4:{}:{}:{}", cname, fname, rel) } else { format!("header:{}:{}:{}", cname, fname, rel) };
                            self.layout_check(&class, &wrap(&one), &wrap(&broken), LOracle::Full, m);
                        }
                    }
                }
            }
            // function parameter lists over several lines
            for ci in [stmt_ind + 1, bi, bi + 3] {
                for closer_own in [false, true] {
                    let one = format!("{}g = |a, b = 2|\n{}a + b\n{}print g 1\n", pad, ind(bi), pad);
                    let broken = if closer_own {
                        format!("{}g = |\n{}a,\n{}b = 2\n{}|\n{}a + b\n{}print g 1\n", pad, ind(ci), ind(ci), pad, ind(bi), pad)
                    } else {
                        format!("{}g = |a,\n{}b = 2|\n{}a + b\n{}print g 1\n", pad, ind(ci), ind(bi), pad)
                    };
                    let last = if closer_own { stmt_ind } else { ci };
                    let rel = if last < bi { "last-header-line-shallower-than-body" } else if last == bi { "last-header-line-level-with-body" } else { "last-header-line-deeper-than-body" };
                    let pre = if stmt_ind > 0 { "if n == 3\n" } else { "" };
                    self.layout_check(
                        &format!("header:{}function-parameters:{}:{}", if rel.contains("shallower") { "" } else { "F-C10-4:" }, if closer_own { "closer-own-line" } else { "closer-after-last" }, rel),
                        &format!("{}{}{}", L2_PRELUDE, pre, one),
                        &format!("{}{}{}", L2_PRELUDE, pre, broken),
                        LOracle::Full,
                        m,
                    );
                }
            }
        }
    }

    fn multi_assign_results(&mut self, rng: &mut Rng, m: &mut Option<std::collections::BTreeMap<String, (u64, u64, String)>>) {
        for targets in 2..=3usize {
            for values in 1..=4usize {
                let ts: Vec<String> = (0..targets).map(|i| format!("t{}", i)).collect();
                let vs: Vec<String> = (0..values).map(|i| if rng.chance(1, 3) { format!("n + {}", i) } else { format!("{}", i + 1) }).collect();
                let rel = if values < targets { "fewer-values" } else if values == targets { "equal" } else { "more-values" };
                let shows: String = ts.iter().map(|t| format!("print {}\n", t)).collect();
                // the right-hand side: paren-free vs parenthesised (a single value is not a tuple)
                let free = vs.join(", ");
                let paren = if values == 1 { format!("({},)", vs[0]) } else { format!("({})", vs.join(", ")) };
                let free = if values == 1 { format!("{},", vs[0]) } else { free };
                let lhs = if targets == 1 { format!("{},", ts[0]) } else { ts.join(", ") };
                let lhs = if targets == 1 { ts[0].clone() + "," } else { lhs };
                let uses: Vec<(&str, String, String)> = vec![
                    ("result-assigned", format!("r = {} = {}\nprint r\nprint koto.type r\n{}", lhs, paren, shows), format!("r = {} = {}\nprint r\nprint koto.type r\n{}", lhs, free, shows)),
                    ("function-result", format!("g = ||\n  {} = {}\nr = g()\nprint r\nprint size r\n", lhs, paren), format!("g = ||\n  {} = {}\nr = g()\nprint r\nprint size r\n", lhs, free)),
                    ("result-unused", format!("{} = {}\n{}", lhs, paren, shows), format!("{} = {}\n{}", lhs, free, shows)),
                    ("result-assigned-next-line", format!("r = {} = {}\nprint r\n{}", lhs, paren, shows), format!("r = {} =\n  {}\nprint r\n{}", lhs, free, shows)),
                    ("result-in-list", format!("r = [({} = {})]\nprint r\n{}", lhs, paren, shows), format!("r = [({} = {})]\nprint r\n{}", lhs, free, shows)),
                ];
                for (uname, base, var) in uses {
                    if targets == 1 && uname == "result-in-list" {
                        continue;
                    }
                    self.layout_check(
                        &format!("multi-assign:{}:targets={}:{}", uname, targets.min(2), rel),
                        &format!("{}{}", L2_PRELUDE, base),
                        &format!("{}{}", L2_PRELUDE, var),
                        LOracle::Behaviour,
                        m,
                    );
                }
            }
        }
    }

    fn free_call_positions(&mut self, rng: &mut Rng, m: &mut Option<std::collections::BTreeMap<String, (u64, u64, String)>>) {
        // (call name, parenthesised spelling, paren-free spelling)
        let k = 1 + rng.below(3);
        let calls: Vec<(&str, String, String)> = vec![
            ("one-arg", "cnt(xs)".into(), "cnt xs".into()),
            ("two-args", format!("add({}, 2)", k), format!("add {}, 2", k)),
            ("core-size", "size(xs)".into(), "size xs".into()),
            ("method", "xs.get(1)".into(), "xs.get 1".into()),
        ];
        for (cname, paren, free) in calls {
            let two = cname == "two-args";
            // (position, program with C standing for the call) — the call is the rightmost part of its
            // sub-expression, so the paren-free spelling takes exactly the same arguments
            let mut positions: Vec<(&str, String)> = vec![
                ("range-end-exclusive", "r = 0..C\nprint r\n".into()),
                ("range-end-inclusive", "r = 0..=C\nprint r\n".into()),
                ("range-end-in-for", "for i in 0..C\n  print i\n".into()),
                ("range-end-inclusive-in-for", "for i in 1..=C\n  print i\n".into()),
                ("range-open-start", "r = ..C\nprint r\n".into()),
                ("range-open-start-inclusive", "r = ..=C\nprint r\n".into()),
                ("binary-right-operand", "r = 1 + C\nprint r\n".into()),
                ("binary-right-operand-of-comparison", "r = 2 < C\nprint r\n".into()),
                ("binary-right-operand-of-and", "r = true and C\nprint r\n".into()),
                ("list-entry-single", "r = [C]\nprint r\n".into()),
                ("call-arg-parenthesised-call", "r = msg(C)\nprint r\n".into()),
                ("call-arg-last-of-parenthesised-call", "r = msg(1, C)\nprint r\n".into()),
                ("call-arg-paren-free-call", "r = msg C\nprint r\n".into()),
                ("call-arg-last-of-paren-free-call", "r = msg 1, C\nprint r\n".into()),
                ("if-condition-right-operand", "if 2 < C\n  print 'big'\nelse\n  print 'small'\n".into()),
                ("if-condition-inline", "if 2 < C then print 'big' else print 'small'\n".into()),
                ("while-condition-right-operand", "k = 0\nwhile k < C\n  k += 1\nprint k\n".into()),
                ("until-condition-right-operand", "k = 0\nuntil k >= C\n  k += 1\nprint k\n".into()),
                ("match-subject", "match C\n  3 then print 'three'\n  else print 'other'\n".into()),
                ("match-arm-body", "r = match n\n  3 then C\n  else 0\nprint r\n".into()),
                ("match-arm-guard", "r = match n\n  x if 2 < C then 'g'\n  else 'e'\nprint r\n".into()),
                ("switch-arm-body", "r = switch\n  n == 3 then C\n  else 0\nprint r\n".into()),
                ("inline-if-then", "r = if n == 3 then C else 0\nprint r\n".into()),
                ("inline-if-else", "r = if n == 0 then 0 else C\nprint r\n".into()),
                ("interpolation", "print 'v={C}!'\n".into()),
                ("after-return", "g = ||\n  return C\nprint g()\n".into()),
                ("after-yield", "g = ||\n  yield C\nprint g().to_tuple()\n".into()),
                ("after-throw", "try\n  throw msg C\ncatch e\n  print e\n".into()),
                ("after-not", "r = not 2 < C\nprint r\n".into()),
                ("after-break", "r = loop\n  break C\nprint r\n".into()),
                ("assignment-rhs", "r = C\nprint r\n".into()),
                ("compound-assignment-rhs", "r = 1\nr += C\nprint r\n".into()),
                ("function-inline-body", "g = || C\nprint g()\n".into()),
                ("function-default-arg", "g = |v = C| v\nprint g()\n".into()),
                ("map-block-value", "r =\n  k: C\nprint r.k\n".into()),
                ("export-value", "export r = C\nprint r\n".into()),
                ("let-value", "let r = C\nprint r\n".into()),
                ("pipe-lhs-parenthesised-rhs", "r = 1 -> add 2\nr2 = C\nprint r, r2\n".into()),
                ("index-expression", "r = xs[C - C]\nprint r\n".into()),
            ];
            if !two {
                // inside brackets a paren-free call may take a single argument only
                positions.push(("list-entry-last", "r = [1, C]\nprint r\n".into()));
                positions.push(("tuple-entry-last", "r = (1, C)\nprint r\n".into()));
                positions.push(("map-value-inline", "r = {k: C}\nprint r\n".into()));
                positions.push(("map-value-inline-last", "r = {j: 1, k: C}\nprint r\n".into()));
            }
            for (pname, prog) in positions {
                // inside brackets (and a parameter list) a paren-free call takes a single argument
                // only ("Space separated calls are only allowed with a single argument")
                if two && matches!(pname, "list-entry-single" | "call-arg-parenthesised-call" | "call-arg-last-of-parenthesised-call" | "function-default-arg") {
                    continue;
                }
                if pname == "index-expression" {
                    // `xs[C - C]`: the first C must keep its parentheses (not rightmost)
                    let base = format!("{}{}", L2_PRELUDE, prog.replace("C - C", &format!("{} - {}", paren, paren)));
                    let var = format!("{}{}", L2_PRELUDE, prog.replace("C - C", &format!("{} - {}", paren, free)));
                    self.layout_check(&format!("free-call:{}:{}", pname, cname), &base, &var, LOracle::Full, m);
                    continue;
                }
                let base = format!("{}{}", L2_PRELUDE, prog.replace('C', &paren));
                let var = format!("{}{}", L2_PRELUDE, prog.replace('C', &free));
                self.layout_check(&format!("free-call:{}:{}", pname, cname), &base, &var, LOracle::Full, m);
            }
        }
    }

    // chains continued after a multi-line bracketed root
    fn chain_after_multiline(&mut self, rng: &mut Rng, m: &mut Option<std::collections::BTreeMap<String, (u64, u64, String)>>) {
        let a = 1 + rng.below(5);
        for (root, one, open, close) in [("call", format!("mk({}, 2)", a), "mk(", ")"), ("list", format!("[{}, 2]", a), "[", "]"), ("tuple", format!("({}, 2)", a), "(", ")")] {
            for ci in [2usize, 4, 9] {
                for closer_own in [false, true] {
                    for di in [2usize, 4, 10] {
                        let broken = if closer_own { format!("{}{},\n{}2\n{}", open, a, ind(ci), close) } else { format!("{}{},\n{}2{}", open, a, ind(ci), close) };
                        let last = if closer_own { 0 } else { ci };
                        let rel = if di > last { "dot-deeper-than-closer-line" } else { "dot-not-deeper-than-closer-line" };
                        let f12 = root == "call" && di <= last;
                        let base = format!("mk = |a, b| [a, b]\nx = {}\n{}.count()\nprint x\n", one, ind(di));
                        let var = format!("mk = |a, b| [a, b]\nx = {}\n{}.count()\nprint x\n", broken, ind(di));
                        let class = format!("chain-after:{}{}:{}", if f12 { "F-C10-12:" } else { "" }, root, rel);
                        self.layout_check(&class, &base, &var, LOracle::Full, m);
                    }
                }
            }
        }
    }
}
