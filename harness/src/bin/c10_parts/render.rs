// ---- layout-variant renderer ---------------------------------------------------------------------
//
// The renderer knows the role of every line it emits (used by the cut-off sweep):
//   Header   — header line of function / if / else if / else / for / while / until / loop / try /
//              catch / finally / match / switch whose body follows as an indented block
//   OpEnd    — the line ends with `=`, a compound assignment or a binary operator
//   Complete — the text up to the end of this line is a sequence of complete statements
//   Unspec   — none of the above (inside brackets, after a `,`, arm header `… then`, `key:`);
//              nothing is asserted for a cut here

#[derive(Clone, Copy, PartialEq, Eq, Debug)]
enum Role {
    Header,
    OpEnd,
    Complete,
    Unspec,
}

const M_OPEND: char = '\u{E001}';
const M_COMPLETE: char = '\u{E002}';
const M_UNSPEC: char = '\u{E003}';

#[derive(Clone, Copy, Default, Debug)]
struct Opts {
    parens: bool,       // (b) redundant parentheses
    inline_block: bool, // (c) inline vs block forms of if / function body / arms / maps
    call_parens: bool,  // (d) paren-free calls
    brk: bool,          // (e) chains / args / binary expressions over indented lines
}

#[derive(Clone, Debug)]
struct Line {
    text: String,
    role: Role,
    what: &'static str,
    trivia: bool,
    need_catch: bool, // inside a `try` body whose `catch` has not been reached yet
    orig: String,     // the line before trailing trivia was appended
}

#[derive(Clone, Copy)]
struct Cx {
    ind: usize,   // indentation of the statement's first line
    brk: bool,    // line breaks allowed at this point
    free: bool,   // a paren-free call may be written here (rightmost position, not inside brackets)
    braces: bool, // inside brackets (flexible indentation; cut roles unspecified)
}

impl Cx {
    fn inner(self) -> Cx {
        Cx { free: false, braces: true, ..self }
    }
    fn left(self) -> Cx {
        Cx { free: false, ..self }
    }
    fn flat(self) -> Cx {
        Cx { free: false, brk: false, ..self }
    }
}

/// Every layout decision is one numbered *opportunity*: taken either by a hash of
/// (variant seed, opportunity number) or, when shrinking, by an explicit mask.
struct Ren<'a> {
    vseed: u64,
    mask: Option<&'a [bool]>,
    taken: Vec<bool>,
    counter: u64,
    sub: u64,
    o: Opts,
    lines: Vec<Line>,
    cont: usize, // continuation indent step of the current statement
    open_try: usize,
    // Continuation lines must be indented relative to the line they continue. After the first line
    // break of a statement only the construct that made it (one chain, one operator spine, one
    // argument list — all at one continuation indent) may break again outside brackets.
    broke: bool,
    owner: u64,
    ids: u64,
    spine_next: Option<u64>,
    used: std::collections::BTreeMap<&'static str, u64>,
}

fn e_prec(e: &E) -> u8 {
    match e {
        E::Bin("..", _, _) => 2,
        E::Bin(op, _, _) => prec(op),
        E::Pipe(..) => 1,
        E::If(..) => 0,
        E::Lambda(..) => 0,
        E::Not(_) => 4, // `not` takes the whole following expression: `not a or b` = `not (a or b)`
        _ => 20,
    }
}

impl<'a> Ren<'a> {
    fn new(vseed: u64, mask: Option<&'a [bool]>, o: Opts) -> Ren<'a> {
        Ren { vseed, mask, taken: vec![], counter: 0, sub: 0, o, lines: vec![], cont: 2, open_try: 0, broke: false, owner: 0, ids: 0, spine_next: None, used: Default::default() }
    }
    fn hash(&self, a: u64, b: u64) -> u64 {
        let mut r = Rng(self.vseed ^ a.wrapping_mul(0x9E3779B97F4A7C15) ^ b.wrapping_mul(0xC2B2AE3D27D4EB4F));
        r.next_u64();
        r.next_u64()
    }
    /// a sub-choice belonging to the most recent opportunity
    fn below(&mut self, n: usize) -> usize {
        self.sub += 1;
        (self.hash(self.counter, self.sub) % n as u64) as usize
    }
    fn chance(&mut self, num: u32, den: u32) -> bool {
        (self.below(den as usize) as u32) < num
    }
    fn use_(&mut self, k: &'static str) {
        *self.used.entry(k).or_insert(0) += 1;
    }
    fn flip(&mut self, enabled: bool, num: u32, den: u32) -> bool {
        if !enabled {
            return false;
        }
        let i = self.counter;
        self.counter += 1;
        self.sub = 0;
        let d = match self.mask {
            Some(m) => m.get(i as usize).copied().unwrap_or(false),
            None => (self.hash(i, 0xFFFF) % den as u64) < num as u64,
        };
        self.taken.push(d);
        d
    }
    fn new_id(&mut self) -> u64 {
        self.ids += 1;
        self.ids
    }
    fn may_break(&self, id: u64) -> bool {
        !self.broke || self.owner == id
    }
    fn reset_breaks(&mut self) {
        self.broke = false;
        self.owner = 0;
        self.spine_next = None;
    }
    /// a line break made by construct `id` (0: a bracketed sequence)
    fn nl_by(&mut self, id: u64, cx: Cx, role: char) -> String {
        if !self.broke {
            self.owner = id;
        }
        self.broke = true;
        self.nl(cx, role, 0)
    }
    fn nl(&mut self, cx: Cx, role: char, extra: usize) -> String {
        let m = if cx.braces { M_UNSPEC } else { role };
        format!("{}\n{}", m, " ".repeat(cx.ind + self.cont + extra))
    }

    fn args_paren(&mut self, args: &[E], cx: Cx) -> String {
        let icx = cx.inner();
        // arguments on their own lines must be deeper than the line with the `(` and aligned:
        // only as the first line break of a statement
        let id = self.new_id();
        let broken = icx.brk && args.len() >= 1 && !self.broke && self.flip(self.o.brk, 1, 4);
        let parts: Vec<String> = args.iter().map(|a| self.expr(a, Cx { brk: icx.brk && !broken, ..icx }, 3)).collect();
        if broken {
            self.use_("brk:paren-args");
            let mut s = String::from("(");
            let first_same = self.chance(1, 3);
            for (i, p) in parts.iter().enumerate() {
                if i > 0 || !first_same {
                    s.push_str(&self.nl_by(id, icx, M_UNSPEC));
                }
                s.push_str(p);
                if i + 1 < parts.len() {
                    s.push(',');
                }
            }
            if self.chance(1, 2) {
                // closing parenthesis on its own line, at the indentation of the line with the `(`
                s.push_str(&format!("{}\n{}", M_UNSPEC, " ".repeat(cx.ind)));
            }
            s.push(')');
            s
        } else {
            format!("({})", parts.join(", "))
        }
    }

    /// `name a, b` — paren-free argument list (the caller checked `cx.free`)
    fn args_free(&mut self, args: &[E], cx: Cx) -> String {
        let id = self.new_id();
        let broken = cx.brk && self.may_break(id) && self.flip(self.o.brk, 1, 3);
        let n = args.len();
        let mut s = String::new();
        if broken {
            self.use_("brk:free-args");
        }
        let first_same = !broken || self.chance(1, 2);
        for (i, a) in args.iter().enumerate() {
            let last = i + 1 == n;
            let acx = Cx { free: last, brk: false, ..cx };
            let p = self.expr(a, acx, 3);
            if i == 0 {
                if first_same {
                    s.push(' ');
                } else {
                    s.push_str(&self.nl_by(id, cx, M_COMPLETE));
                }
            } else if broken {
                s.push_str(&self.nl_by(id, cx, M_UNSPEC));
            } else {
                s.push(' ');
            }
            s.push_str(&p);
            if !last {
                s.push(',');
            }
        }
        s
    }

    fn seq(&mut self, open: &str, close: &str, parts: Vec<String>, cx: Cx, trailing_comma_ok: bool) -> String {
        let broken = cx.brk && !parts.is_empty() && self.flip(self.o.brk, 1, 4);
        if !broken {
            return format!("{}{}{}", open, parts.join(", "), close);
        }
        self.use_("brk:bracket-seq");
        let icx = cx.inner();
        let mut s = String::from(open);
        let n = parts.len();
        for (i, p) in parts.iter().enumerate() {
            s.push_str(&self.nl_by(0, icx, M_UNSPEC));
            s.push_str(p);
            if i + 1 < n || (trailing_comma_ok && self.chance(1, 2)) {
                s.push(',');
            }
        }
        s.push_str(&format!("{}\n{}", M_UNSPEC, " ".repeat(cx.ind)));
        s.push_str(close);
        s
    }

    fn string(&mut self, parts: &[SP], cx: Cx) -> String {
        let mut s = String::from("'");
        for p in parts {
            match p {
                SP::Lit(t) => s.push_str(t),
                SP::Ex(e) => {
                    s.push('{');
                    let o = self.o;
                    // no layout freedom is exercised inside an interpolation
                    self.o = Opts::default();
                    s.push_str(&self.expr(e, Cx { brk: false, ..cx.inner() }, 0));
                    self.o = o;
                    s.push('}');
                }
            }
        }
        s.push('\'');
        s
    }

    /// Render `e` so that it can stand where an operand of binding power `minp` is expected.
    fn expr(&mut self, e: &E, cx: Cx, minp: u8) -> String {
        let wrappable = !matches!(e, E::Lambda(..) | E::Bin("..", _, _));
        let redundant = wrappable && self.flip(self.o.parens, 1, 5);
        let required = e_prec(e) < minp;
        if redundant || required {
            if redundant {
                self.use_("parens:redundant");
            }
            self.spine_next = None;
            let inner = self.expr_raw(e, cx.inner());
            if redundant && required && self.chance(1, 4) {
                return format!("(({}))", inner);
            }
            return format!("({})", inner);
        }
        self.expr_raw(e, cx)
    }

    fn expr_raw(&mut self, e: &E, cx: Cx) -> String {
        let spine = self.spine_next.take();
        match e {
            E::Int(i) => i.to_string(),
            E::Bool(b) => b.to_string(),
            E::Null => "null".into(),
            E::Var(v) => v.clone(),
            E::Str(ps) => self.string(ps, cx),
            E::Not(x) => format!("not ({})", self.expr_raw(x, cx.inner())),
            E::Bin("..", a, b) => format!("{}..{}", self.expr(a, cx.flat(), 20), self.expr(b, cx.flat(), 20)),
            E::Bin(op, a, b) => {
                let p = prec(op);
                let cmp = p == 9 || p == 11;
                // left-associative operators; comparisons never nest without parentheses
                let (lp, rp) = if cmp { (p + 1, p + 1) } else { (p, p + 1) };
                let id = match spine {
                    Some(id) => id,
                    None => self.new_id(),
                };
                self.spine_next = if matches!(**a, E::Bin(..)) { Some(id) } else { None };
                let l = self.expr(a, cx.left(), lp);
                self.spine_next = None;
                let style = if cx.brk && self.may_break(id) && self.flip(self.o.brk, 1, 3) { 1 + self.below(2) } else { 0 };
                let r = self.expr(b, Cx { brk: false, ..cx }, rp);
                match style {
                    1 => {
                        self.use_("brk:op-at-line-end");
                        format!("{} {}{}{}", l, op, self.nl_by(id, cx, M_OPEND), r)
                    }
                    2 => {
                        self.use_("brk:op-at-line-start");
                        format!("{}{}{} {}", l, self.nl_by(id, cx, M_COMPLETE), op, r)
                    }
                    _ => format!("{} {} {}", l, op, r),
                }
            }
            E::List(es) => {
                let parts = es.iter().map(|x| self.expr(x, Cx { brk: false, ..cx.inner() }, 3)).collect();
                self.seq("[", "]", parts, cx, true)
            }
            E::Tuple(es) => {
                let parts = es.iter().map(|x| self.expr(x, Cx { brk: false, ..cx.inner() }, 3)).collect();
                self.seq("(", ")", parts, cx, false)
            }
            E::Map(es) => {
                let parts = es
                    .iter()
                    .map(|(k, x)| format!("{}: {}", k, self.expr(x, Cx { brk: false, ..cx.inner() }, 3)))
                    .collect();
                self.seq("{", "}", parts, cx, true)
            }
            E::Call(f, args) => {
                if cx.free && !args.is_empty() && self.flip(self.o.call_parens, 1, 2) {
                    self.use_("call:paren-free");
                    format!("{}{}", f, self.args_free(args, cx))
                } else {
                    format!("{}{}", f, self.args_paren(args, cx))
                }
            }
            E::Pipe(lhs, f, extra) => {
                let l = self.expr(lhs, cx.left(), 2);
                // `x -> f(a)` calls `f(a)` first and pipes into its result (compile_chain: "Parenthesized
                // calls need to be made now"), `x -> f a` is `f(x, a)`: not equal spellings, so the
                // piped call is always written paren-free (one extra argument at most)
                let callee = if extra.is_empty() {
                    f.clone()
                } else {
                    format!("{}{}", f, self.args_free(extra, Cx { brk: false, free: false, ..cx }))
                };
                let id = self.new_id();
                if cx.brk && self.may_break(id) && self.flip(self.o.brk, 1, 2) {
                    self.use_("brk:pipe");
                    format!("{}{}-> {}", l, self.nl_by(id, cx, M_COMPLETE), callee)
                } else {
                    format!("{} -> {}", l, callee)
                }
            }
            E::If(c, a, b) => {
                let f = cx.flat();
                format!("if {} then {} else {}", self.expr(c, f, 3), self.expr(a, f, 3), self.expr(b, f, 3))
            }
            E::Lambda(ps, body) => format!("|{}| {}", ps.join(", "), self.expr(body, cx.flat(), 3)),
            E::Chain(root, links) => {
                let mut s = self.expr(root, cx.left(), 20);
                // from which link on the chain continues on indented lines (usize::MAX: never)
                let n = links.len();
                let dots: Vec<usize> = (0..n).filter(|i| !matches!(links[*i], Link::Index(_))).collect();
                let id = self.new_id();
                let break_from = if cx.brk && !dots.is_empty() && self.may_break(id) && self.flip(self.o.brk, 1, 3) {
                    self.use_("brk:chain");
                    dots[self.below(dots.len())]
                } else {
                    usize::MAX
                };
                for (i, l) in links.iter().enumerate() {
                    let last = i + 1 == n;
                    let on_cont_line = i >= break_from && !matches!(l, Link::Index(_));
                    if on_cont_line {
                        s.push_str(&self.nl_by(id, cx, M_COMPLETE));
                    }
                    match l {
                        Link::Field(k) => {
                            s.push('.');
                            s.push_str(k);
                        }
                        Link::Index(ix) => {
                            s.push('[');
                            s.push_str(&self.expr(ix, cx.inner().flat(), 3));
                            s.push(']');
                        }
                        Link::Method(m, args) => {
                            s.push('.');
                            s.push_str(m);
                            if let (true, [E::Map(es)]) = (last && cx.free && cx.brk && !cx.braces && break_from == usize::MAX, args.as_slice()) {
                                if self.may_break(id) && self.flip(self.o.inline_block, 1, 2) {
                                    // the map argument as a map block on continuation lines
                                    self.use_("block:map-arg-of-chain-call");
                                    for (k, x) in es {
                                        s.push_str(&self.nl_by(id, cx, M_COMPLETE));
                                        let v = self.expr(x, Cx { brk: false, free: false, ..cx }, 3);
                                        s.push_str(&format!("{}: {}", k, v));
                                    }
                                    continue;
                                }
                            }
                            // paren-free arguments: on the last link in a rightmost position, or on
                            // a continuation line when the next link starts its own line
                            let next_on_own_line = !last && i + 1 >= break_from && !matches!(links[i + 1], Link::Index(_));
                            let may_free = !args.is_empty()
                                && !cx.braces
                                && ((last && cx.free) || (on_cont_line && next_on_own_line && i >= break_from));
                            if may_free && self.flip(self.o.call_parens, 1, 2) {
                                self.use_("call:paren-free-method");
                                s.push_str(&self.args_free(args, Cx { brk: false, free: true, ..cx }));
                            } else {
                                s.push_str(&self.args_paren(args, Cx { brk: false, ..cx }));
                            }
                        }
                    }
                }
                s
            }
        }
    }

    // ---- statements ----

    fn emit(&mut self, ind: usize, text: String, last_role: Role, what: &'static str) {
        // `text` may contain marked line breaks produced by the expression renderer
        let mut first = true;
        let pieces: Vec<&str> = text.split('\n').collect();
        let n = pieces.len();
        for (i, p) in pieces.iter().enumerate() {
            let (body, role) = if i + 1 == n {
                (p.to_string(), last_role)
            } else {
                let mut b = p.to_string();
                let m = b.pop().unwrap();
                let role = match m {
                    M_OPEND => Role::OpEnd,
                    M_COMPLETE => Role::Complete,
                    _ => Role::Unspec,
                };
                (b, role)
            };
            let t = if first { format!("{}{}", " ".repeat(ind), body) } else { body };
            first = false;
            self.lines.push(Line { text: t, role, what: if i + 1 == n { what } else { "continuation" }, trivia: false, need_catch: self.open_try > 0, orig: String::new() });
        }
    }

    fn top(&mut self, ind: usize) -> Cx {
        self.reset_breaks();
        self.cont = if self.o.brk { [2usize, 4, 2, 3][self.below(4)] } else { 2 };
        Cx { ind, brk: true, free: true, braces: false }
    }

    fn inlineable(b: &[S]) -> bool {
        b.len() == 1
            && matches!(
                b[0],
                S::Assign(..) | S::OpAssign(..) | S::Print(_) | S::Expr(_) | S::Return(_) | S::Break | S::Continue | S::Throw(_)
            )
    }

    /// a simple statement on one line (inside `if … then … else …` or after an arm's `then`)
    fn inline_stmt(&mut self, s: &S, ind: usize) -> String {
        let cx = Cx { ind, brk: false, free: false, braces: false };
        match s {
            S::Assign(v, e) => format!("{} = {}", v, self.expr(e, cx, 3)),
            S::OpAssign(v, op, e) => format!("{} {} {}", v, op, self.expr(e, cx, 5)),
            S::Print(e) => format!("print({})", self.expr(e, cx.inner(), 3)),
            S::Expr(e) => self.expr(e, cx, 3),
            S::Return(Some(e)) => format!("return {}", self.expr(e, cx, 3)),
            S::Return(None) => "return".into(),
            S::Break => "break".into(),
            S::Continue => "continue".into(),
            S::Throw(e) => format!("throw {}", self.expr(e, cx, 3)),
            _ => unreachable!(),
        }
    }

    fn block(&mut self, b: &[S], ind: usize) {
        for s in b {
            self.stmt(s, ind);
        }
    }

    fn arm_body(&mut self, head: String, body: &[S], ind: usize, what: &'static str) {
        if Self::inlineable(body) && self.flip(self.o.inline_block, 1, 2) {
            self.use_("inline:arm");
            let t = self.inline_stmt(&body[0], ind);
            self.emit(ind, format!("{} {}", head, t), Role::Complete, what);
        } else {
            self.emit(ind, head, Role::Unspec, what);
            self.block(body, ind + 2);
        }
    }

    fn stmt(&mut self, s: &S, ind: usize) {
        match s {
            S::Assign(v, e) => {
                let cx = self.top(ind);
                // block forms of `if` and of maps on the right-hand side
                if let E::If(c, a, b) = e {
                    if self.flip(self.o.inline_block, 1, 2) {
                        self.use_("block:if-expr-rhs");
                        let c = self.expr(c, cx.flat(), 3);
                        self.emit(ind, format!("{} = if {}", v, c), Role::Header, "if");
                        self.reset_breaks();
                        let a = self.expr(a, Cx { ind: ind + 2, ..cx }, 3);
                        self.emit(ind + 2, a, Role::Complete, "expr");
                        self.emit(ind, "else".into(), Role::Header, "else");
                        self.reset_breaks();
                        let b = self.expr(b, Cx { ind: ind + 2, ..cx }, 3);
                        self.emit(ind + 2, b, Role::Complete, "expr");
                        return;
                    }
                }
                if let E::Map(es) = e {
                    if self.flip(self.o.inline_block, 1, 2) {
                        self.use_("block:map-rhs");
                        self.emit(ind, format!("{} =", v), Role::OpEnd, "assign");
                        let step = self.cont;
                        for (k, x) in es {
                            self.reset_breaks();
                            let x = self.expr(x, Cx { ind: ind + step, ..cx }, 3);
                            self.emit(ind + step, format!("{}: {}", k, x), Role::Complete, "map-entry");
                        }
                        return;
                    }
                }
                if self.flip(self.o.brk, 1, 6) {
                    // the right-hand side starts on its own, deeper line: everything in it is
                    // rendered relative to that line's indentation
                    self.use_("brk:after-assign");
                    let nl = self.nl(cx, M_OPEND, 0);
                    self.reset_breaks();
                    let rhs = self.expr(e, Cx { ind: ind + self.cont, ..cx }, 3);
                    self.emit(ind, format!("{} ={}{}", v, nl, rhs), Role::Complete, "assign");
                } else {
                    let rhs = self.expr(e, cx, 3);
                    self.emit(ind, format!("{} = {}", v, rhs), Role::Complete, "assign");
                }
            }
            S::OpAssign(v, op, e) => {
                let cx = self.top(ind);
                if self.flip(self.o.brk, 1, 6) {
                    self.use_("brk:after-op-assign");
                    let nl = self.nl(cx, M_OPEND, 0);
                    self.reset_breaks();
                    let rhs = self.expr(e, Cx { ind: ind + self.cont, ..cx }, 5);
                    self.emit(ind, format!("{} {}{}{}", v, op, nl, rhs), Role::Complete, "op-assign");
                } else {
                    let rhs = self.expr(e, cx, 5);
                    self.emit(ind, format!("{} {} {}", v, op, rhs), Role::Complete, "op-assign");
                }
            }
            S::Print(e) => {
                let cx = self.top(ind);
                if self.flip(self.o.call_parens, 1, 2) {
                    self.use_("call:paren-free-print");
                    let a = self.args_free(std::slice::from_ref(e), cx);
                    self.emit(ind, format!("print{}", a), Role::Complete, "print");
                } else {
                    let a = self.args_paren(std::slice::from_ref(e), cx);
                    self.emit(ind, format!("print{}", a), Role::Complete, "print");
                }
            }
            S::Expr(e) => {
                let cx = self.top(ind);
                let t = self.expr(e, cx, 0);
                self.emit(ind, t, Role::Complete, "expr");
            }
            S::Return(e) => {
                let cx = self.top(ind);
                let t = match e {
                    Some(e) => format!("return {}", self.expr(e, cx, 3)),
                    None => "return".into(),
                };
                self.emit(ind, t, Role::Complete, "return");
            }
            S::Break => self.emit(ind, "break".into(), Role::Complete, "break"),
            S::Continue => self.emit(ind, "continue".into(), Role::Complete, "continue"),
            S::Throw(e) => {
                let cx = self.top(ind);
                let t = format!("throw {}", self.expr(e, cx.flat(), 3));
                self.emit(ind, t, Role::Complete, "throw");
            }
            S::If(arms, els) => {
                let cx = self.top(ind).flat();
                let one_arm = arms.len() == 1 && Self::inlineable(&arms[0].1);
                let els_ok = els.as_ref().map(|b| Self::inlineable(b)).unwrap_or(true);
                if one_arm && els_ok && self.flip(self.o.inline_block, 1, 2) {
                    self.use_("inline:if");
                    let c = self.expr(&arms[0].0, cx, 3);
                    let t = self.inline_stmt(&arms[0].1[0], ind);
                    let mut s = format!("if {} then {}", c, t);
                    if let Some(b) = els {
                        let e = self.inline_stmt(&b[0], ind);
                        s.push_str(&format!(" else {}", e));
                    }
                    self.emit(ind, s, Role::Complete, "if-inline");
                    return;
                }
                for (i, (c, b)) in arms.iter().enumerate() {
                    let c = self.expr(c, cx, 3);
                    if i == 0 {
                        self.emit(ind, format!("if {}", c), Role::Header, "if");
                    } else {
                        self.emit(ind, format!("else if {}", c), Role::Header, "else if");
                    }
                    self.block(b, ind + 2);
                }
                if let Some(b) = els {
                    self.emit(ind, "else".into(), Role::Header, "else");
                    self.block(b, ind + 2);
                }
            }
            S::For(v, it, b) => {
                let cx = self.top(ind).flat();
                let it = self.expr(it, cx, 3);
                self.emit(ind, format!("for {} in {}", v, it), Role::Header, "for");
                self.block(b, ind + 2);
            }
            S::While(c, b) => {
                let cx = self.top(ind).flat();
                let c = self.expr(c, cx, 3);
                self.emit(ind, format!("while {}", c), Role::Header, "while");
                self.block(b, ind + 2);
            }
            S::Until(c, b) => {
                let cx = self.top(ind).flat();
                let c = self.expr(c, cx, 3);
                self.emit(ind, format!("until {}", c), Role::Header, "until");
                self.block(b, ind + 2);
            }
            S::Loop(b) => {
                self.emit(ind, "loop".into(), Role::Header, "loop");
                self.block(b, ind + 2);
            }
            S::Try(b, e, cb, fin) => {
                self.emit(ind, "try".into(), Role::Header, "try");
                self.open_try += 1;
                self.block(b, ind + 2);
                self.open_try -= 1;
                self.emit(ind, format!("catch {}", e), Role::Header, "catch");
                self.block(cb, ind + 2);
                if let Some(f) = fin {
                    self.emit(ind, "finally".into(), Role::Header, "finally");
                    self.block(f, ind + 2);
                }
            }
            S::Match(subj, arms, els) => {
                let cx = self.top(ind).flat();
                let sj = self.expr(subj, cx, 3);
                self.emit(ind, format!("match {}", sj), Role::Header, "match");
                for (pat, guard, b) in arms {
                    let head = match guard {
                        Some(g) => format!("{} if {} then", pat, self.expr(g, Cx { ind: ind + 2, ..cx }, 3)),
                        None => format!("{} then", pat),
                    };
                    self.arm_body(head, b, ind + 2, "match-arm");
                }
                if let Some(b) = els {
                    self.arm_body("else".into(), b, ind + 2, "match-else");
                }
            }
            S::Switch(arms, els) => {
                let cx = self.top(ind).flat();
                self.emit(ind, "switch".into(), Role::Header, "switch");
                for (c, b) in arms {
                    let head = format!("{} then", self.expr(c, Cx { ind: ind + 2, ..cx }, 3));
                    self.arm_body(head, b, ind + 2, "switch-arm");
                }
                if let Some(b) = els {
                    self.arm_body("else".into(), b, ind + 2, "switch-else");
                }
            }
            S::Func(name, ps, body) => {
                if body.len() == 1 && self.flip(self.o.inline_block, 1, 2) {
                    if let S::Expr(e) = &body[0] {
                        self.use_("inline:function-body");
                        let cx = self.top(ind).flat();
                        let t = self.expr(e, cx, 3);
                        self.emit(ind, format!("{} = |{}| {}", name, ps.join(", "), t), Role::Complete, "function-inline");
                        return;
                    }
                }
                self.emit(ind, format!("{} = |{}|", name, ps.join(", ")), Role::Header, "function");
                self.block(body, ind + 2);
            }
        }
    }
}

type Used = std::collections::BTreeMap<&'static str, u64>;

fn render(prog: &[S], vseed: u64, mask: Option<&[bool]>, o: Opts) -> (Vec<Line>, Used, Vec<bool>) {
    let mut r = Ren::new(vseed, mask, o);
    r.block(prog, 0);
    (r.lines, r.used, r.taken)
}

// ---- (a) trivia edits: comment-only lines, blank lines, trailing whitespace, end-of-line comments,
//      multi-line comments between lines ----

const COMMENT_WORDS: &[&str] = &["note", "x = 1", "if then else", "é字", "'quote", "-#", "#", "{", "TODO: (", "a\tb"];

fn add_trivia(lines: &[Line], rng: &mut Rng, used: &mut std::collections::BTreeMap<&'static str, u64>) -> Vec<Line> {
    let mut out: Vec<Line> = vec![];
    let bump = |u: &mut std::collections::BTreeMap<&'static str, u64>, k: &'static str| *u.entry(k).or_insert(0) += 1;
    let trivia_lines = |rng: &mut Rng, prev_role: Role, what: &'static str, need_catch: bool, out: &mut Vec<Line>, used: &mut std::collections::BTreeMap<&'static str, u64>| {
        let n = rng.weighted(&[6, 3, 1]);
        for _ in 0..n {
            let ind = " ".repeat(*rng.pick(&[0usize, 0, 2, 4, 1, 7]));
            let w = *rng.pick(COMMENT_WORDS);
            let (text, k): (String, &'static str) = match rng.weighted(&[4, 2, 4, 2, 1]) {
                0 => (String::new(), "trivia:blank-line"),
                1 => (ind.clone(), "trivia:whitespace-only-line"),
                2 => (format!("{}# {}", ind, w.replace("-#", "- #")), "trivia:comment-line"),
                3 => (format!("{}#- {} -#", ind, w.replace("-#", "- #")), "trivia:multi-comment-line"),
                _ => (format!("{}#- {}\n  still the comment\n{}-#", ind, w.replace("-#", "- #"), ind), "trivia:multi-comment-3-lines"),
            };
            bump(used, k);
            let ts: Vec<&str> = text.split('\n').collect();
            for (i, t) in ts.iter().enumerate() {
                // a cut inside a multi-line comment leaves it unterminated: nothing is asserted there
                let role = if i + 1 == ts.len() { prev_role } else { Role::Unspec };
                out.push(Line { text: t.to_string(), role, what, trivia: true, need_catch, orig: String::new() });
            }
        }
    };
    if rng.chance(1, 2) {
        trivia_lines(rng, Role::Complete, "start", false, &mut out, used);
    }
    for l in lines {
        let mut l2 = l.clone();
        l2.orig = l.text.clone();
        match rng.weighted(&[6, 2, 2, 1]) {
            1 => {
                bump(used, "trivia:trailing-whitespace");
                l2.text.push_str(*rng.pick(&[" ", "  ", "\t", "   \t "]));
            }
            2 => {
                bump(used, "trivia:eol-comment");
                l2.text.push_str(&format!("{}# {}", *rng.pick(&[" ", "  ", "\t"]), rng.pick(COMMENT_WORDS).replace("-#", "- #")));
            }
            3 => {
                bump(used, "trivia:eol-multi-comment");
                l2.text.push_str(&format!(" #- {} -#", rng.pick(COMMENT_WORDS).replace("-#", "- #")));
                if rng.chance(1, 2) {
                    l2.text.push_str("  ");
                }
            }
            _ => {}
        }
        let (role, what, nc) = (l2.role, l2.what, l2.need_catch);
        out.push(l2);
        if rng.chance(1, 3) {
            trivia_lines(rng, role, what, nc, &mut out, used);
        }
    }
    out
}

fn join(lines: &[Line]) -> String {
    let mut s = String::new();
    for l in lines {
        s.push_str(&l.text);
        s.push('\n');
    }
    s
}
