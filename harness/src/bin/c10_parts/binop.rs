// ---- binary-operator chains broken over several lines -----------------------------------------------
//
// Chains of 2..5 operands broken after and/or before each operator, inside every bracketed
// (Flexible) context and outside brackets, with operand lines at equal, increasing and mixed
// indentation. Oracle: accepted, and erased Ast + behaviour identical to the one-line form.
// Acceptance is asserted for the layout classes listed in `expect_accept` (determined on the
// unchanged tree with `--binop-matrix`, see requests/C10.md); for the other classes only
// "if accepted then identical" is asserted and the outcome is recorded in the distribution.

#[derive(Clone, Copy, PartialEq, Eq, Debug)]
enum BCtx {
    List,
    Tuple,
    Paren,
    CallArgs,
    CallArgs2,
    MapValue,
    NestedListParen,
    NestedCallList,
    Index,
    Bare,      // outside brackets: right-hand side of an assignment
    BarePrint, // outside brackets: argument of a paren-free call
}

const BCTXS: &[BCtx] = &[
    BCtx::List, BCtx::Tuple, BCtx::Paren, BCtx::CallArgs, BCtx::CallArgs2, BCtx::MapValue, BCtx::NestedListParen,
    BCtx::NestedCallList, BCtx::Index, BCtx::Bare, BCtx::BarePrint,
];

#[derive(Clone, Copy, PartialEq, Eq, Debug)]
enum BStyle {
    AfterOp,  // operator at line end
    BeforeOp, // operator at line start
    Mixed,    // per break
}

#[derive(Clone, Copy, PartialEq, Eq, Debug)]
enum BIndent {
    Equal,
    Increasing,
    Mixed,
}

#[derive(Clone, Debug)]
struct BCase {
    ctx: BCtx,
    style: BStyle,
    indent: BIndent,
    n: usize,
    first_own_line: bool, // the chain starts on its own line after the opening bracket
    all_breaks: bool,     // a break at every operator (else a random non-empty subset)
    stmt_ind: usize,
    family: usize,
    first_unbroken: bool, // no break at the first operator, a break at every later one
}

fn bctx_open_close(c: BCtx) -> (&'static str, &'static str) {
    match c {
        BCtx::List => ("x = [", "]"),
        BCtx::Tuple => ("x = (0,", ")"),
        BCtx::Paren => ("x = (", ")"),
        BCtx::CallArgs => ("x = f(", ")"),
        BCtx::CallArgs2 => ("x = g(1,", ")"),
        BCtx::MapValue => ("x = {k:", "}"),
        BCtx::NestedListParen => ("x = [(", ")]"),
        BCtx::NestedCallList => ("x = f([", "])"),
        BCtx::Index => ("x = l[", "]"),
        BCtx::Bare => ("x =", ""),
        BCtx::BarePrint => ("show", ""),
    }
}

fn bracketed(c: BCtx) -> bool {
    !matches!(c, BCtx::Bare | BCtx::BarePrint)
}

/// (left, right) binding powers of `operator_precedence` in parser.rs
fn b_prec(op: &str) -> (u8, u8) {
    match op {
        "or" => (5, 6),
        "and" => (7, 8),
        "==" | "!=" => (10, 9),
        "<" | "<=" | ">" | ">=" => (12, 11),
        "+" | "-" => (13, 14),
        _ => (15, 16),
    }
}

/// a flat chain: atoms separated by operators (family 0: arithmetic with mixed precedence;
/// family 1: comparisons joined by and/or, so comparisons never chain)
fn b_chain(family: usize, n: usize, rng: &mut Rng) -> (Vec<String>, Vec<&'static str>) {
    let vars = ["a", "b", "c", "d", "e"];
    let n = if family == 0 { n } else { 2 * ((n + 1) / 2) };
    let mut atoms = vec![];
    let mut ops = vec![];
    for i in 0..n {
        let v = vars[i % 5];
        atoms.push(match rng.below(5) {
            0 => format!("f({})", v),
            1 => format!("({} * 2)", v),
            2 => format!("{}", 1 + rng.below(9)),
            _ => v.to_string(),
        });
        if i + 1 < n {
            ops.push(if family == 0 {
                *rng.pick(&["+", "-", "*", "+", "%", "*"])
            } else if i % 2 == 0 {
                *rng.pick(&["<", "<=", ">", ">=", "==", "!="])
            } else {
                *rng.pick(&["and", "or"])
            });
        }
    }
    (atoms, ops)
}

fn b_prelude(stmt_ind: usize) -> String {
    let mut s = String::from("a = 1\nb = 2\nc = 3\nd = 4\ne = 5\nf = |v| v\ng = |u, v| (u, v)\nl = [10, 20, 30, 40, 50, 60, 70, 80, 90, 100, 110, 120, 130, 140, 150, 160]\nshow = |v| print 'shown', v\nx = null\n");
    if stmt_ind > 0 {
        s.push_str("if a == 1\n");
    }
    s
}

/// the indentation rule a frame of `parse_expression_continued` carries
#[derive(Clone, Copy, Debug)]
enum BRule {
    Flexible,
    Greater,
    GE(usize),
}

struct FlatOp {
    lp: u8,
    rp: u8,
    op_line: usize,
    rhs_line: usize,
}

fn b_accepts(rule: BRule, tok_line: usize, cur_line: usize, indents: &[usize]) -> bool {
    tok_line == cur_line
        || match rule {
            BRule::Flexible => true,
            BRule::Greater => indents[tok_line] > indents[cur_line],
            BRule::GE(k) => indents[tok_line] >= k,
        }
}

/// How `parse_expression_continued` threads its expression context through the operator-precedence
/// recursion (parser.rs at 5f1b75a), on a flat chain of single-line atoms. Returns the number of
/// operators the chain parser consumes (`Err`: it reports ExpectedIndentation::RhsExpression).
/// A frame created before the first line break of the chain keeps the rule it was entered with; when
/// the recursion unwinds to such a frame after deeper frames consumed line breaks, a `Greater` rule is
/// evaluated against the line that is current *then* — the shape of F-C10-3.
fn b_sim(ops: &[FlatOp], indents: &[usize], mut pos: usize, min: u8, mut ctx: BRule, cur_line: &mut usize) -> Result<usize, ()> {
    loop {
        if pos == ops.len() {
            return Ok(pos);
        }
        let start_line = *cur_line;
        let start_indent = indents[start_line];
        let op = &ops[pos];
        if !b_accepts(ctx, op.op_line, *cur_line, indents) || op.lp < min {
            return Ok(pos);
        }
        *cur_line = op.op_line;
        if !b_accepts(ctx, op.rhs_line, *cur_line, indents) {
            return Err(());
        }
        *cur_line = op.rhs_line;
        let rhs_ctx = if op.rhs_line > start_line {
            match ctx {
                BRule::GE(k) => BRule::GE(k),
                BRule::Greater | BRule::Flexible => BRule::GE(start_indent),
            }
        } else {
            ctx
        };
        pos = b_sim(ops, indents, pos + 1, op.rp, rhs_ctx, cur_line)?;
        ctx = rhs_ctx;
    }
}

struct BRendered {
    base: String,
    var: String,
    /// does the context-threading of the unchanged parser consume the whole chain?
    whole_chain: bool,
    /// some continuation line is less indented than the line before it (refused by design:
    /// "shouldn't be able to continue with decreased indentation")
    decreasing: bool,
    lines: usize,
}

fn b_render(case: &BCase, rng: &mut Rng) -> BRendered {
    let (atoms, ops) = b_chain(case.family, case.n, rng);
    let (open, close) = bctx_open_close(case.ctx);
    let pad = " ".repeat(case.stmt_ind);
    let mut one = String::new();
    for (i, o) in atoms.iter().enumerate() {
        if i > 0 {
            one.push_str(&format!(" {} ", ops[i - 1]));
        }
        one.push_str(o);
    }
    let tail = format!("{}print x\n", pad);
    let base = format!("{}{}{} {}{}\n{}", b_prelude(case.stmt_ind), pad, open, one, close, tail).replace("[ ", "[").replace("( ", "(");
    let nb = ops.len();
    let mut brk: Vec<bool> = (0..nb).map(|_| case.all_breaks || rng.chance(1, 2)).collect();
    if case.first_unbroken && nb >= 2 {
        for (i, b) in brk.iter_mut().enumerate() {
            *b = i > 0;
        }
    }
    if !brk.iter().any(|b| *b) {
        brk[rng.below(nb)] = true;
    }
    let base_ind = case.stmt_ind + 2;
    let first_own = case.first_own_line && bracketed(case.ctx);
    let mut indents: Vec<usize> = vec![if first_own { base_ind } else { case.stmt_ind }];
    let mut text = format!("{}{}", pad, open);
    if first_own {
        text.push('\n');
        text.push_str(&" ".repeat(base_ind));
    } else {
        text.push(' ');
    }
    text.push_str(&atoms[0]);
    let mut flat = vec![];
    let mut k = 0usize; // continuation lines so far
    for i in 0..nb {
        let op = ops[i];
        let (lp, rp) = b_prec(op);
        let line = indents.len() - 1;
        if brk[i] {
            let after = match case.style {
                BStyle::AfterOp => true,
                BStyle::BeforeOp => false,
                BStyle::Mixed => rng.chance(1, 2),
            };
            let off = match case.indent {
                BIndent::Equal => 0,
                BIndent::Increasing => 2 * (k + if first_own { 1 } else { 0 }),
                BIndent::Mixed => *rng.pick(&[0usize, 2, 4, 1]),
            };
            k += 1;
            let ind = base_ind + off;
            indents.push(ind);
            if after {
                text.push_str(&format!(" {}\n{}{}", op, " ".repeat(ind), atoms[i + 1]));
                flat.push(FlatOp { lp, rp, op_line: line, rhs_line: line + 1 });
            } else {
                text.push_str(&format!("\n{}{} {}", " ".repeat(ind), op, atoms[i + 1]));
                flat.push(FlatOp { lp, rp, op_line: line + 1, rhs_line: line + 1 });
            }
        } else {
            text.push_str(&format!(" {} {}", op, atoms[i + 1]));
            flat.push(FlatOp { lp, rp, op_line: line, rhs_line: line });
        }
    }
    if bracketed(case.ctx) {
        if first_own || rng.chance(1, 2) {
            text.push_str(&format!("\n{}{}", pad, close));
        } else {
            text.push_str(close);
        }
    }
    let top = if bracketed(case.ctx) { BRule::Flexible } else { BRule::Greater };
    let mut cur = 0usize;
    let whole_chain = matches!(b_sim(&flat, &indents, 0, 0, top, &mut cur), Ok(n) if n == flat.len());
    let var = format!("{}{}\n{}", b_prelude(case.stmt_ind), text.replace("[ ", "[").replace("( ", "("), tail);
    let decreasing = indents.windows(2).skip(if first_own { 0 } else { 1 }).any(|w| w[1] < w[0]);
    BRendered { base, var, whole_chain, decreasing, lines: indents.len() }
}

/// Acceptance (and identity with the one-line form) is asserted unless
///  * the context is an index (`consume_index_expression` uses a restricted context: no line
///    breaks — not a documented layout), or
///  * the layout has the shape of F-C10-3 (the context threading does not consume the whole chain).
fn expect_accept(case: &BCase, r: &BRendered) -> bool {
    case.ctx != BCtx::Index && r.whole_chain
}

impl Ctx {
    fn binop_case(&mut self, case: &BCase, rng: &mut Rng, matrix: Option<&mut std::collections::BTreeMap<String, (u64, u64)>>) {
        let r = b_render(case, rng);
        let (base, var) = (r.base.clone(), r.var.clone());
        let cell = format!("{:?}/{:?}/{:?}/first_own={}", case.ctx, case.style, case.indent, case.first_own_line);
        let bobs = match (parse_real(&base), ()) {
            (Ok(Ok(p)), _) => BaseObs { src: base.clone(), parsed: p, beh: behaviour(&base) },
            (r, _) => {
                let d = match r {
                    Ok(Err((_, m))) => m,
                    Err(p) => p,
                    _ => String::new(),
                };
                self.fail("D", "C10:binop:one-line-form-rejected", json!({"input": base, "error": d, "case": format!("{:?}", case)}));
                return;
            }
        };
        let verdict = judge(&bobs, &var, false);
        if let Some(m) = matrix {
            let cell = format!("{} sim_whole_chain={}", cell, r.whole_chain);
            let e = m.entry(cell.clone()).or_insert((0, 0));
            e.0 += 1;
            if verdict.kind() == 0 {
                e.1 += 1;
            }
            if verdict.kind() >= 2 || (verdict.kind() == 1 && case.ctx != BCtx::Index) {
                println!("DIFFERS {:?}\n{}", verdict, var.lines().skip(10).collect::<Vec<_>>().join("\n"));
            }
            return;
        }
        self.pairs += 1;
        self.checked += 2;
        self.rep.case(&var, true);
        self.rep.bump("variant=binop-break");
        self.rep.bump(&format!("binop:{:?}:{:?}:{:?}:lines={}", case.ctx, case.style, case.indent, r.lines));
        let f3 = case.ctx != BCtx::Index && !r.whole_chain;
        if f3 {
            self.rep.bump(if r.decreasing { "binop:decreasing-indentation(refused by design, not asserted)" } else { "binop:shape-of-F-C10-3(not asserted)" });
        }
        match &verdict {
            Verdict::Fine => {
                *self.cut_stats.entry(format!("binop:{:?}:accepted", case.ctx)).or_insert(0) += 1;
            }
            Verdict::Rejected(ind, msg) => {
                *self.cut_stats.entry(format!("binop:{:?}:rejected", case.ctx)).or_insert(0) += 1;
                if expect_accept(case, &r) {
                    self.fail(
                        "D",
                        "C10:variant-rejected:binop-break",
                        json!({"input": var, "base": base, "class": cell, "error": msg, "is_indentation_error": ind,
                               "note": "a binary expression broken across lines (layout accepted by the unchanged tree) is rejected"}),
                    );
                }
            }
            _ if f3 => {
                // the known meaning change of F-C10-3 (a continuation line adopted by an outer frame)
                *self.cut_stats.entry(format!("binop:{:?}:{}-differs", case.ctx, if r.decreasing { "decreasing-indentation" } else { "F-C10-3" })).or_insert(0) += 1;
            }
            v => {
                let name = match v {
                    Verdict::AstDiffers(..) => "ast-differs",
                    Verdict::BehaviourDiffers(..) => "behaviour-differs",
                    _ => "parser-panic",
                };
                self.fail("D", &format!("C10:{}:binop-break", name), json!({"input": var, "base": base, "class": cell, "verdict": format!("{:?}", v)}));
            }
        }
        if self.k_budget_binop > 0 && r.lines >= 3 {
            // (K) sees continuations over three and more lines
            self.k_budget_binop -= 1;
            self.trace_k(&var, "binop-break");
        }
    }

    fn binop_stream(&mut self, rng: &mut Rng, n: usize, matrix: bool) {
        let mut m = std::collections::BTreeMap::new();
        // systematic grid first, then random cases
        let styles = [BStyle::AfterOp, BStyle::BeforeOp, BStyle::Mixed];
        let indents = [BIndent::Equal, BIndent::Increasing, BIndent::Mixed];
        let mut cases = vec![];
        for ctx in BCTXS {
            for style in styles {
                for indent in indents {
                    for first_own in [true, false] {
                        for nops in [3usize, 4] {
                            cases.push(BCase { ctx: *ctx, style, indent, n: nops, first_own_line: first_own, all_breaks: true, stmt_ind: 0, family: (nops + cases.len()) % 2, first_unbroken: false });
                        }
                    }
                }
            }
        }
        while cases.len() < n {
            cases.push(BCase {
                ctx: *rng.pick(BCTXS),
                style: *rng.pick(&styles),
                indent: *rng.pick(&indents),
                n: 2 + rng.below(4),
                first_own_line: rng.chance(1, 2),
                all_breaks: rng.chance(2, 3),
                stmt_ind: *rng.pick(&[0usize, 0, 2]),
                family: rng.below(2),
                first_unbroken: rng.chance(1, 4),
            });
        }
        for c in cases.iter().take(n.max(if matrix { cases.len() } else { 0 })) {
            self.binop_case(c, rng, if matrix { Some(&mut m) } else { None });
        }
        if matrix {
            for (k, (tot, ok)) in &m {
                println!("{:70} accepted {}/{}", k, ok, tot);
            }
        }
    }
}
