// ---- mini AST of the generated block-structured programs --------------------------------------
//
// Typing discipline (keeps runtime errors rare; behaviour is compared, not required to succeed):
// `n*`/`w*`/`t*` int variables, `l*` lists of ints (never shrink), `m*` maps with fixed int-valued
// keys, `s*` strings, `f*` functions int^k -> int. New variables are introduced only at the top
// level of the program / of a function body; nested blocks only reassign.

#[derive(Clone, Debug)]
enum E {
    Int(i64),
    Bool(bool),
    Null,
    Str(Vec<SP>),
    Var(String),
    Bin(&'static str, Box<E>, Box<E>),
    Not(Box<E>),
    List(Vec<E>),
    Tuple(Vec<E>),
    Map(Vec<(String, E)>),
    Call(String, Vec<E>),
    Chain(Box<E>, Vec<Link>),
    If(Box<E>, Box<E>, Box<E>),
    Lambda(Vec<String>, Box<E>),
    Pipe(Box<E>, String, Vec<E>),
}

#[derive(Clone, Debug)]
enum SP {
    Lit(String),
    Ex(E),
}

#[derive(Clone, Debug)]
enum Link {
    Field(String),
    Method(String, Vec<E>),
    Index(E),
}

#[derive(Clone, Debug)]
enum S {
    Assign(String, E),
    OpAssign(String, &'static str, E),
    Print(E),
    Expr(E),
    If(Vec<(E, Vec<S>)>, Option<Vec<S>>),
    For(String, E, Vec<S>),
    While(E, Vec<S>),
    Until(E, Vec<S>),
    Loop(Vec<S>),
    Try(Vec<S>, String, Vec<S>, Option<Vec<S>>),
    Match(E, Vec<(String, Option<E>, Vec<S>)>, Option<Vec<S>>),
    Switch(Vec<(E, Vec<S>)>, Option<Vec<S>>),
    Func(String, Vec<String>, Vec<S>),
    Return(Option<E>),
    Break,
    Continue,
    Throw(E),
}

fn prec(op: &str) -> u8 {
    match op {
        "or" => 5,
        "and" => 7,
        "==" | "!=" => 9,
        "<" | "<=" | ">" | ">=" => 11,
        "+" | "-" => 13,
        "*" | "%" => 15,
        _ => 0,
    }
}

#[derive(Clone, Default)]
struct Scope {
    ints: Vec<String>,
    lists: Vec<(String, usize)>,
    maps: Vec<(String, Vec<String>)>,
    strs: Vec<String>,
    funcs: Vec<(String, usize)>,
    objs: Vec<String>,
    in_loop: bool,
    in_func: bool,
}

struct Gen<'a> {
    rng: &'a mut Rng,
    next: usize,
    kinds: std::collections::BTreeMap<&'static str, u64>,
}

impl<'a> Gen<'a> {
    fn fresh(&mut self, p: &str) -> String {
        self.next += 1;
        format!("{}{}", p, self.next)
    }
    fn note(&mut self, k: &'static str) {
        *self.kinds.entry(k).or_insert(0) += 1;
    }

    fn int(&mut self, sc: &Scope, d: u32) -> E {
        let leaf = d == 0 || self.rng.chance(1, 3);
        if leaf {
            if !sc.ints.is_empty() && self.rng.chance(3, 5) {
                return E::Var(self.rng.pick(&sc.ints).clone());
            }
            return E::Int(self.rng.range(0, 12));
        }
        match self.rng.weighted(&[30, 8, 10, 10, 6, 8, 6]) {
            0 => {
                let op = *self.rng.pick(&["+", "-", "*", "+", "-", "%"]);
                let l = self.int(sc, d - 1);
                let r = if op == "%" { E::Int(self.rng.range(2, 7)) } else { self.int(sc, d - 1) };
                self.note("e:bin-arith");
                E::Bin(op, Box::new(l), Box::new(r))
            }
            1 if !sc.funcs.is_empty() => {
                let (f, k) = self.rng.pick(&sc.funcs).clone();
                let args = (0..k).map(|_| self.int(sc, d - 1)).collect();
                self.note("e:call");
                E::Call(f, args)
            }
            2 if !sc.lists.is_empty() => {
                let (l, n) = self.rng.pick(&sc.lists).clone();
                self.note("e:list-chain");
                match self.rng.below(5) {
                    0 => E::Chain(Box::new(E::Var(l)), vec![Link::Method("count".into(), vec![])]),
                    1 => E::Chain(Box::new(E::Var(l)), vec![Link::Method("first".into(), vec![])]),
                    2 => E::Chain(Box::new(E::Var(l)), vec![Link::Index(E::Int(self.rng.below(n) as i64))]),
                    3 => {
                        // l.each(|x| x + k).keep(|x| x > j).to_list().size()
                        let x = self.fresh("x");
                        let k = self.int(sc, 0);
                        let j = self.rng.range(0, 6);
                        E::Chain(
                            Box::new(E::Var(l)),
                            vec![
                                Link::Method(
                                    "each".into(),
                                    vec![E::Lambda(
                                        vec![x.clone()],
                                        Box::new(E::Bin("+", Box::new(E::Var(x.clone())), Box::new(k))),
                                    )],
                                ),
                                Link::Method(
                                    "keep".into(),
                                    vec![E::Lambda(
                                        vec![x.clone()],
                                        Box::new(E::Bin(">", Box::new(E::Var(x)), Box::new(E::Int(j)))),
                                    )],
                                ),
                                Link::Method("to_list".into(), vec![]),
                                Link::Method("count".into(), vec![]),
                            ],
                        )
                    }
                    _ => {
                        let a = self.fresh("a");
                        let b = self.fresh("b");
                        let init = self.int(sc, 0);
                        E::Chain(
                            Box::new(E::Var(l)),
                            vec![Link::Method(
                                "fold".into(),
                                vec![
                                    init,
                                    E::Lambda(
                                        vec![a.clone(), b.clone()],
                                        Box::new(E::Bin("+", Box::new(E::Var(a)), Box::new(E::Var(b)))),
                                    ),
                                ],
                            )],
                        )
                    }
                }
            }
            3 if !sc.maps.is_empty() => {
                let (m, ks) = self.rng.pick(&sc.maps).clone();
                self.note("e:map-access");
                E::Chain(Box::new(E::Var(m)), vec![Link::Field(self.rng.pick(&ks).clone())])
            }
            4 => {
                let c = self.boolean(sc, d - 1);
                let a = self.int(sc, d - 1);
                let b = self.int(sc, d - 1);
                self.note("e:if-expr");
                E::If(Box::new(c), Box::new(a), Box::new(b))
            }
            5 if !sc.funcs.is_empty() => {
                // a -> f extra...
                let (f, k) = self.rng.pick(&sc.funcs).clone();
                if k == 0 {
                    return self.int(sc, d - 1);
                }
                let lhs = self.int(sc, d - 1);
                let extra = (1..k).map(|_| self.int(sc, 0)).collect();
                self.note("e:pipe");
                E::Pipe(Box::new(lhs), f, extra)
            }
            6 if !sc.strs.is_empty() => {
                let s = self.rng.pick(&sc.strs).clone();
                self.note("e:str-size");
                E::Chain(Box::new(E::Var(s)), vec![Link::Method("count".into(), vec![])])
            }
            _ => {
                let l = self.int(sc, d - 1);
                let r = self.int(sc, d - 1);
                E::Bin("+", Box::new(l), Box::new(r))
            }
        }
    }

    fn boolean(&mut self, sc: &Scope, d: u32) -> E {
        match if d == 0 { 0 } else { self.rng.weighted(&[12, 4, 2, 1]) } {
            0 => {
                let op = *self.rng.pick(&["<", "<=", ">", ">=", "==", "!="]);
                let l = self.int(sc, d.saturating_sub(1));
                let r = self.int(sc, d.saturating_sub(1));
                self.note("e:cmp");
                E::Bin(op, Box::new(l), Box::new(r))
            }
            1 => {
                let op = *self.rng.pick(&["and", "or"]);
                let l = self.boolean(sc, d - 1);
                let r = self.boolean(sc, d - 1);
                self.note("e:logic");
                E::Bin(op, Box::new(l), Box::new(r))
            }
            2 => {
                let x = self.boolean(sc, d - 1);
                E::Not(Box::new(x))
            }
            _ => E::Bool(self.rng.chance(1, 2)),
        }
    }

    fn string(&mut self, sc: &Scope) -> E {
        let words = ["ab", "x y", "k=", "v:", "#no", "q-", "é", "z"];
        let mut parts = vec![SP::Lit((*self.rng.pick(&words)).to_string())];
        let n = self.rng.below(3);
        for _ in 0..n {
            let e = self.int(sc, 1);
            parts.push(SP::Ex(e));
            parts.push(SP::Lit((*self.rng.pick(&words)).to_string()));
        }
        self.note("e:string");
        E::Str(parts)
    }

    /// something printable
    fn any(&mut self, sc: &Scope, d: u32) -> E {
        match self.rng.weighted(&[10, 4, 3, 2, 2, 2, 1]) {
            0 => self.int(sc, d),
            1 => self.string(sc),
            2 => {
                let n = 1 + self.rng.below(4);
                self.note("e:list-lit");
                E::List((0..n).map(|_| self.int(sc, d.saturating_sub(1))).collect())
            }
            3 => {
                let n = 2 + self.rng.below(2);
                self.note("e:tuple-lit");
                E::Tuple((0..n).map(|_| self.int(sc, d.saturating_sub(1))).collect())
            }
            4 => self.map_lit(sc, d).0,
            5 => self.boolean(sc, d),
            _ => E::Null,
        }
    }

    fn map_lit(&mut self, sc: &Scope, d: u32) -> (E, Vec<String>) {
        let n = 1 + self.rng.below(3);
        let keys: Vec<String> = ["ka", "kb", "kc"][..n].iter().map(|s| s.to_string()).collect();
        let es = keys.iter().map(|k| (k.clone(), self.int(sc, d.saturating_sub(1)))).collect();
        self.note("e:map-lit");
        (E::Map(es), keys)
    }

    fn simple(&mut self, sc: &Scope) -> S {
        match self.rng.weighted(&[6, 5, 3, 2, 2, 2]) {
            5 if !sc.objs.is_empty() => {
                // h.show({ka: …}) — a map passed to a chained call (block form: map block on
                // continuation lines)
                let h = self.rng.pick(&sc.objs).clone();
                let (m, _) = self.map_lit(sc, 2);
                self.note("s:map-arg-call");
                S::Expr(E::Chain(Box::new(E::Var(h)), vec![Link::Method("show".into(), vec![m])]))
            }
            0 if !sc.ints.is_empty() => {
                let v = self.rng.pick(&sc.ints).clone();
                S::Assign(v, self.int(sc, 2))
            }
            1 => S::Print(self.any(sc, 2)),
            2 if !sc.ints.is_empty() => {
                let v = self.rng.pick(&sc.ints).clone();
                let op = *self.rng.pick(&["+=", "-=", "*="]);
                S::OpAssign(v, op, self.int(sc, 1))
            }
            3 if !sc.lists.is_empty() => {
                let (l, _) = self.rng.pick(&sc.lists).clone();
                let e = self.int(sc, 1);
                self.note("s:push");
                S::Expr(E::Chain(Box::new(E::Var(l)), vec![Link::Method("push".into(), vec![e])]))
            }
            4 if !sc.funcs.is_empty() => {
                let (f, k) = self.rng.pick(&sc.funcs).clone();
                let args = (0..k).map(|_| self.int(sc, 1)).collect();
                S::Print(E::Call(f, args))
            }
            _ => S::Print(self.int(sc, 2)),
        }
    }

    fn block(&mut self, sc: &Scope, d: u32, min: usize, max: usize) -> Vec<S> {
        let n = min + self.rng.below(max - min + 1);
        let mut out = vec![];
        for _ in 0..n {
            self.stmt(sc, d, &mut out);
        }
        out
    }

    /// one statement (may push a preceding counter initialisation)
    fn stmt(&mut self, sc: &Scope, d: u32, out: &mut Vec<S>) {
        if d == 0 {
            out.push(self.simple(sc));
            return;
        }
        let w = [30, 14, 7, 5, 4, 4, 6, 7, 6, 3, 3, 2];
        match self.rng.weighted(&w) {
            0 => out.push(self.simple(sc)),
            1 => {
                let n = 1 + self.rng.weighted(&[6, 3, 1]);
                let mut arms = vec![];
                for _ in 0..n {
                    let c = self.boolean(sc, 2);
                    let b = self.block(sc, d - 1, 1, 2);
                    arms.push((c, b));
                }
                let els = if self.rng.chance(3, 5) { Some(self.block(sc, d - 1, 1, 2)) } else { None };
                self.note(if n > 1 { "s:if-elseif" } else if els.is_some() { "s:if-else" } else { "s:if" });
                out.push(S::If(arms, els));
            }
            2 => {
                let v = self.fresh("i");
                let it = if !sc.lists.is_empty() && self.rng.chance(1, 2) {
                    E::Var(self.rng.pick(&sc.lists).0.clone())
                } else {
                    E::Bin("..", Box::new(E::Int(self.rng.range(0, 2))), Box::new(E::Int(self.rng.range(2, 4))))
                };
                let mut s2 = sc.clone();
                s2.ints.push(v.clone());
                s2.in_loop = true;
                // the loop variable is read-only by convention: remove it from assignable ints at the end
                let body = self.block(&s2, d - 1, 1, 3);
                self.note("s:for");
                out.push(S::For(v, it, body));
            }
            3 | 4 => {
                let wv = self.fresh("w");
                let k = self.rng.range(1, 3);
                out.push(S::Assign(wv.clone(), E::Int(0)));
                let mut s2 = sc.clone();
                s2.in_loop = true;
                let mut body = vec![S::OpAssign(wv.clone(), "+=", E::Int(1))];
                body.extend(self.block(&s2, d - 1, 1, 2));
                if self.rng.chance(1, 2) {
                    self.note("s:while");
                    out.push(S::While(E::Bin("<", Box::new(E::Var(wv)), Box::new(E::Int(k))), body));
                } else {
                    self.note("s:until");
                    out.push(S::Until(E::Bin(">=", Box::new(E::Var(wv)), Box::new(E::Int(k))), body));
                }
            }
            5 => {
                let wv = self.fresh("w");
                let k = self.rng.range(1, 3);
                out.push(S::Assign(wv.clone(), E::Int(0)));
                let mut s2 = sc.clone();
                s2.in_loop = true;
                let mut body = vec![
                    S::OpAssign(wv.clone(), "+=", E::Int(1)),
                    S::If(vec![(E::Bin(">", Box::new(E::Var(wv)), Box::new(E::Int(k))), vec![S::Break])], None),
                ];
                body.extend(self.block(&s2, d - 1, 1, 2));
                self.note("s:loop");
                out.push(S::Loop(body));
            }
            6 => {
                let e = self.fresh("e");
                let mut body = self.block(sc, d - 1, 1, 2);
                if self.rng.chance(2, 3) {
                    let c = self.boolean(sc, 1);
                    let msg = self.string(sc);
                    let at = self.rng.below(body.len() + 1);
                    body.insert(at, S::If(vec![(c, vec![S::Throw(msg)])], None));
                }
                let mut cb = vec![S::Print(E::Var(e.clone()))];
                cb.extend(self.block(sc, d - 1, 0, 1));
                let fin = if self.rng.chance(1, 2) { Some(self.block(sc, d - 1, 1, 1)) } else { None };
                self.note(if fin.is_some() { "s:try-finally" } else { "s:try" });
                out.push(S::Try(body, e, cb, fin));
            }
            7 => {
                let subj = E::Bin("%", Box::new(self.int(sc, 1)), Box::new(E::Int(self.rng.range(2, 5))));
                let n = 1 + self.rng.below(3);
                let mut arms = vec![];
                for i in 0..n {
                    let (pat, guard, s2) = match self.rng.below(4) {
                        0 => (format!("{}", i), None, sc.clone()),
                        1 => (format!("{} or {}", i, i + 5), None, sc.clone()),
                        2 => {
                            let x = self.fresh("p");
                            let mut s2 = sc.clone();
                            s2.ints.push(x.clone());
                            let g = E::Bin(">", Box::new(E::Var(x.clone())), Box::new(E::Int(self.rng.range(0, 3))));
                            (x, Some(g), s2)
                        }
                        _ => (format!("{}", i), Some(self.boolean(sc, 1)), sc.clone()),
                    };
                    let b = self.block(&s2, d - 1, 1, 2);
                    arms.push((pat, guard, b));
                }
                let els = if self.rng.chance(2, 3) { Some(self.block(sc, d - 1, 1, 2)) } else { None };
                self.note("s:match");
                out.push(S::Match(subj, arms, els));
            }
            8 => {
                let n = 1 + self.rng.below(3);
                let mut arms = vec![];
                for _ in 0..n {
                    let c = self.boolean(sc, 1);
                    let b = self.block(sc, d - 1, 1, 2);
                    arms.push((c, b));
                }
                let els = if self.rng.chance(2, 3) { Some(self.block(sc, d - 1, 1, 2)) } else { None };
                self.note("s:switch");
                out.push(S::Switch(arms, els));
            }
            9 if sc.in_loop => {
                let c = self.boolean(sc, 1);
                self.note("s:continue-break");
                out.push(S::If(vec![(c, vec![if self.rng.chance(1, 2) { S::Continue } else { S::Break }])], None));
            }
            10 if sc.in_func => {
                let c = self.boolean(sc, 1);
                let r = if self.rng.chance(3, 4) { Some(self.int(sc, 1)) } else { None };
                self.note("s:return");
                out.push(S::If(vec![(c, vec![S::Return(r)])], None));
            }
            _ => out.push(self.simple(sc)),
        }
    }

    fn func(&mut self, sc: &Scope) -> (S, String, usize) {
        let name = self.fresh("f");
        let k = self.rng.below(3);
        let params: Vec<String> = (0..k).map(|_| self.fresh("a")).collect();
        // the body sees the globals read-only (never assigns to them): only its own locals are
        // assignable, so closures never capture-and-reassign (shape of F-C02-1, excluded)
        let mut s2 = Scope { funcs: sc.funcs.clone(), objs: sc.objs.clone(), in_func: true, ..Default::default() };
        let globals: Vec<String> = sc.ints.clone();
        let mut body = vec![];
        let nl = self.rng.below(3);
        for _ in 0..nl {
            let t = self.fresh("t");
            let mut rs = s2.clone();
            rs.ints.extend(params.iter().cloned());
            rs.ints.extend(globals.iter().cloned());
            let e = self.int(&rs, 2);
            body.push(S::Assign(t.clone(), e));
            s2.ints.push(t);
        }
        if self.rng.chance(1, 2) && !s2.ints.is_empty() {
            // nested statements reassign locals only; reads may use params/globals through locals
            let d = 1 + self.rng.below(2) as u32;
            self.stmt(&s2, d, &mut body);
        }
        let mut rs = s2.clone();
        rs.ints.extend(params.iter().cloned());
        rs.ints.extend(globals.iter().cloned());
        let res = self.int(&rs, 2);
        body.push(S::Expr(res));
        self.note("s:func");
        (S::Func(name.clone(), params, body), name, k)
    }

    fn program(&mut self) -> Vec<S> {
        let mut sc = Scope::default();
        let mut out = vec![];
        let ni = 2 + self.rng.below(2);
        for _ in 0..ni {
            let v = self.fresh("n");
            let e = self.int(&sc, 1);
            out.push(S::Assign(v.clone(), e));
            sc.ints.push(v);
        }
        if self.rng.chance(4, 5) {
            let v = self.fresh("l");
            let n = 2 + self.rng.below(3);
            let es = (0..n).map(|_| self.int(&sc, 1)).collect();
            out.push(S::Assign(v.clone(), E::List(es)));
            sc.lists.push((v, n));
        }
        if self.rng.chance(3, 5) {
            let v = self.fresh("m");
            let (m, ks) = self.map_lit(&sc, 2);
            out.push(S::Assign(v.clone(), m));
            sc.maps.push((v, ks));
        }
        if self.rng.chance(1, 2) {
            let v = self.fresh("s");
            let e = self.string(&sc);
            out.push(S::Assign(v.clone(), e));
            sc.strs.push(v);
        }
        if self.rng.chance(1, 2) {
            let v = self.fresh("h");
            let q = self.fresh("q");
            let body = E::Call("print".into(), vec![E::Chain(Box::new(E::Var(q.clone())), vec![Link::Field("ka".into())])]);
            out.push(S::Assign(v.clone(), E::Map(vec![("show".into(), E::Lambda(vec![q], Box::new(body)))])));
            sc.objs.push(v);
        }
        let nf = self.rng.below(3);
        for _ in 0..nf {
            let (s, name, k) = self.func(&sc);
            out.push(s);
            sc.funcs.push((name, k));
        }
        let n = 3 + self.rng.below(6);
        for _ in 0..n {
            let d = self.rng.weighted(&[2, 5, 4, 2]) as u32;
            self.stmt(&sc, d, &mut out);
            // occasionally introduce a new top-level variable
            if self.rng.chance(1, 5) {
                let v = self.fresh("n");
                let e = self.int(&sc, 2);
                out.push(S::Assign(v.clone(), e));
                sc.ints.push(v);
            }
        }
        for v in sc.ints.clone() {
            out.push(S::Print(E::Var(v)));
        }
        let last = self.any(&sc, 2);
        out.push(S::Expr(last));
        out
    }
}
