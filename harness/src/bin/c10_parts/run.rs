// ---- running the real implementation ---------------------------------------------------------------

#[derive(Clone, Debug, Default)]
struct Capture {
    out: PtrMut<String>,
}
impl Capture {
    fn new() -> Self {
        Capture { out: koto_runtime::make_ptr_mut!(String::new()) }
    }
    fn text(&self) -> String {
        self.out.borrow().clone()
    }
}
impl KotoFile for Capture {
    fn id(&self) -> KString {
        "_capture_".into()
    }
}
impl KotoRead for Capture {}
impl KotoWrite for Capture {
    fn write(&self, bytes: &[u8]) -> RtResult<()> {
        self.out.borrow_mut().push_str(&String::from_utf8_lossy(bytes));
        Ok(())
    }
    fn write_line(&self, s: &str) -> RtResult<()> {
        let mut o = self.out.borrow_mut();
        o.push_str(s);
        o.push('\n');
        Ok(())
    }
    fn flush(&self) -> RtResult<()> {
        Ok(())
    }
}

/// behaviour = captured stdout + canonical result (an error is reduced to the first line of its
/// message: positions and source excerpts legitimately differ between layouts)
fn behaviour(src: &str) -> String {
    let so = Capture::new();
    let se = Capture::new();
    let mut koto = Koto::with_settings(
        KotoSettings::default()
            .with_stdout(so.clone())
            .with_stderr(se.clone())
            .with_execution_limit(std::time::Duration::from_secs(5)),
    );
    let r = kvh::catch(|| match koto.compile_and_run(src) {
        Ok(v) => format!("ok {}", kvh::canon::value(&v)),
        Err(e) => format!("err {}", e.to_string().lines().next().unwrap_or("")),
    });
    let r = match r {
        Ok(s) => s,
        Err(p) => format!("PANIC {}", p),
    };
    format!("stdout={:?} result={}", so.text(), r)
}

// ---- canonical Ast ---------------------------------------------------------------------------------
//
// strict: the tree from the entry point, node by node in `Debug` form with every `AstIndex`
//         replaced by the canonical text of the node it refers to and every `ConstantIndex` by the
//         constant itself; spans are not part of `Node` and are therefore erased, nothing else is.
// erased: additionally `Nested(x)` = x (redundant parentheses), a `Block` with a single
//         expression = that expression (inline vs indented body), and the cosmetic flags
//         `with_parens`, `braces`, `parentheses`, `inline` are blanked.

const ERASED_FLAGS: &[&str] = &["with_parens: ", "braces: ", "parentheses: ", "inline: "];

fn canon_ast(ast: &koto_parser::Ast, erase: bool) -> String {
    let mut out = String::new();
    match ast.entry_point() {
        Some(e) => write_node(ast, usize::from(e), erase, &mut out, 0),
        None => out.push_str("<empty>"),
    }
    out
}

fn write_node(ast: &koto_parser::Ast, idx: usize, erase: bool, out: &mut String, depth: usize) {
    use koto_parser::Node;
    if depth > 400 || idx >= ast.nodes().len() {
        out.push_str("<bad-index>");
        return;
    }
    let node = &ast.nodes()[idx].node;
    if erase {
        match node {
            Node::Nested(inner) => return write_node(ast, usize::from(*inner), erase, out, depth + 1),
            Node::Block(body) if body.len() == 1 => return write_node(ast, usize::from(body[0]), erase, out, depth + 1),
            _ => {}
        }
    }
    let dbg = format!("{:?}", node);
    let b = dbg.as_bytes();
    let mut i = 0;
    let num_at = |mut j: usize| -> (usize, usize) {
        let mut n = 0usize;
        while j < b.len() && b[j].is_ascii_digit() {
            n = n * 10 + (b[j] - b'0') as usize;
            j += 1;
        }
        (n, j)
    };
    'outer: while i < b.len() {
        let rest = &dbg[i..];
        if rest.starts_with("AstIndex(") {
            let (n, j) = num_at(i + 9);
            out.push('<');
            write_node(ast, n, erase, out, depth + 1);
            out.push('>');
            i = j + 1;
            continue;
        }
        if rest.starts_with("ConstantIndex(") {
            let (n, j) = num_at(i + 14);
            match ast.constants().get(n) {
                Some(koto_parser::Constant::Str(s)) => out.push_str(&format!("str{:?}", s)),
                Some(koto_parser::Constant::I64(x)) => out.push_str(&format!("i64:{}", x)),
                Some(koto_parser::Constant::F64(x)) => out.push_str(&format!("f64:{:016x}", x.to_bits())),
                None => out.push_str("<bad-constant>"),
            }
            i = j + 1;
            continue;
        }
        if rest.starts_with("accessed_non_locals: [") {
            // collected through a HashSet in the parser (order differs from run to run, F-C05-2):
            // compared as a set
            let close = rest.find(']').unwrap_or(rest.len());
            let mut names: Vec<String> = rest[22..close]
                .split(", ")
                .filter(|x| !x.is_empty())
                .map(|x| {
                    let n: usize = x.trim_start_matches("ConstantIndex(").trim_end_matches(')').parse().unwrap_or(usize::MAX);
                    match ast.constants().get(n) {
                        Some(koto_parser::Constant::Str(s)) => s.to_string(),
                        _ => x.to_string(),
                    }
                })
                .collect();
            names.sort();
            out.push_str(&format!("accessed_non_locals: {{{}}}", names.join(", ")));
            i += close + 1;
            continue;
        }
        if erase {
            for f in ERASED_FLAGS {
                if rest.starts_with(f) {
                    out.push_str(f);
                    out.push('_');
                    i += f.len();
                    while i < b.len() && b[i].is_ascii_alphabetic() {
                        i += 1;
                    }
                    continue 'outer;
                }
            }
        }
        let ch = rest.chars().next().unwrap();
        out.push(ch);
        i += ch.len_utf8();
    }
}

struct Parsed {
    strict: String,
    erased: String,
}

fn parse_real(src: &str) -> Result<Result<Parsed, (bool, String)>, String> {
    kvh::catch(|| match koto_parser::Parser::parse(src) {
        Ok(ast) => Ok(Parsed { strict: canon_ast(&ast, false), erased: canon_ast(&ast, true) }),
        Err(e) => Err((e.is_indentation_error(), e.to_string())),
    })
}

// ---- (K) cursor trace ------------------------------------------------------------------------------

fn chars_request(src: &str) -> String {
    let mut s = String::new();
    for (i, c) in src.char_indices() {
        let w = c.width().unwrap_or(0);
        let f = (UnicodeXID::is_xid_start(c) as u32) | ((UnicodeXID::is_xid_continue(c) as u32) << 1);
        let mut g = src[i..].graphemes(true);
        let g1 = g.next().map(|x| x.len()).unwrap_or(0);
        let g2 = g.next().map(|x| x.len()).unwrap_or(0);
        s.push_str(&format!(" {},{},{},{},{}", c as u32, w, f, g1, g2));
    }
    s
}

/// hook text -> model text for token kinds
fn norm_kinds(s: &str) -> String {
    let mut t = s
        .replace("StringStart(Normal(Double))", "StrStartN(d)")
        .replace("StringStart(Normal(Single))", "StrStartN(s)");
    while let Some(p) = t.find("StringStart(Raw(RawStringDelimiter{quote:") {
        let rest = &t[p..];
        let end = rest.find("}))").map(|e| e + 3).unwrap_or(rest.len());
        let inner = &rest[..end];
        let q = if inner.contains("quote:Double") { "d" } else { "s" };
        let h: String = inner.split("hash_count:").nth(1).unwrap_or("0").chars().take_while(|c| c.is_ascii_digit()).collect();
        let new = format!("StrStartR({},{})", q, h);
        t = format!("{}{}{}", &t[..p], new, &t[p + end..]);
    }
    t
}

fn field<'a>(line: &'a str, key: &str) -> &'a str {
    for f in line.split(' ') {
        if let Some(v) = f.strip_prefix(key) {
            return v;
        }
    }
    ""
}

fn has_lexer_error(src: &str) -> bool {
    let cap = 3 * src.len() + 8;
    for (i, t) in koto_lexer::Lexer::new(src).enumerate() {
        if t.token == koto_lexer::Token::Error {
            return true;
        }
        if i > cap {
            return true;
        }
    }
    false
}

struct Ctx {
    rep: Report,
    drv: Option<Driver>,
    pairs: u64,
    checked: u64,
    fails: u64,
    k_calls: u64,
    k_parses: u64,
    k_fail: u64,
    k_budget_binop: u32,
    k_budget_layout: u32,
    prim: std::collections::BTreeMap<String, u64>,
    cut_stats: std::collections::BTreeMap<String, u64>,
}

impl Ctx {
    fn new(rep: Report, drv: Option<Driver>) -> Ctx {
        Ctx {
            rep,
            drv,
            pairs: 0,
            checked: 0,
            fails: 0,
            k_calls: 0,
            k_parses: 0,
            k_fail: 0,
            k_budget_binop: 60,
            k_budget_layout: 60,
            prim: Default::default(),
            cut_stats: Default::default(),
        }
    }

    fn fail(&mut self, kind: &str, name: &str, detail: serde_json::Value) {
        self.fails += 1;
        if self.fails <= 12 {
            self.rep.violation(kind, name, detail);
        } else {
            self.rep.bump(&format!("suppressed_violation={}", name));
            self.rep.violations.push(json!({"kind": kind, "name": name, "suppressed_file": true}));
        }
    }

    /// (K): parse `src` with the hook on and replay every logged primitive call on the model.
    fn trace_k(&mut self, src: &str, what: &str) {
        if !h2::ON || self.drv.is_none() {
            return;
        }
        if has_lexer_error(src) {
            // the model's token list ends at the first Error token; the cursor layer beyond it is
            // outside the envelope
            self.rep.bump("k_skipped_lexer_error");
            return;
        }
        h2::enable(true);
        let _ = kvh::catch(|| koto_parser::Parser::parse(src).is_ok());
        let trace = h2::take();
        h2::enable(false);
        if trace.is_empty() {
            return;
        }
        let mut req = String::from("trace");
        req.push_str(&chars_request(src));
        req.push_str(" |");
        let mut expect = vec![];
        for l in &trace {
            let name = l.split(' ').next().unwrap_or("");
            let a = field(l, "args=");
            req.push_str(&format!(" {};{};{}", name, field(l, "p="), if a.is_empty() { "-" } else { a }));
            expect.push(format!("{}|{}|{}", norm_kinds(field(l, "cur=")), norm_kinds(field(l, "res=")), field(l, "q=")));
            *self.prim.entry(name.to_string()).or_insert(0) += 1;
        }
        let resp = self.drv.as_mut().unwrap().ask(&req);
        let got: Vec<&str> = resp.split(' ').collect();
        self.k_parses += 1;
        self.k_calls += trace.len() as u64;
        self.checked += trace.len() as u64;
        self.rep.case(&format!("K:{}", src), src.lines().count() >= 3);
        if got.len() != expect.len() {
            self.k_fail += 1;
            self.fail(
                "K",
                "K:C10:Model.Cursor",
                json!({"input": src, "what": what, "note": "model driver returned a different number of results", "calls": trace.len(), "response_head": resp.chars().take(300).collect::<String>()}),
            );
            return;
        }
        for (i, (g, e)) in got.iter().zip(expect.iter()).enumerate() {
            if g != e {
                self.k_fail += 1;
                let name = trace[i].split(' ').next().unwrap_or("").to_string();
                self.fail(
                    "K",
                    &format!("K:C10:Model.Cursor.{}", name),
                    json!({"input": src, "what": what, "call_index": i, "hook_entry": trace[i], "impl": e, "model": g,
                           "note": "the cursor-layer model and parser.rs disagree on this call; the theorems of Props/C10.lean no longer speak about this code"}),
                );
                return;
            }
        }
        if self.rep.samples.len() < 3 && trace.len() > 40 {
            self.rep.sample(json!({"kind": "cursor-trace", "source": src, "calls": trace.len(), "first_call": trace[0], "model_first": got[0], "last_call": trace[trace.len() - 1], "model_last": got[got.len() - 1]}));
        }
    }

    fn program(&mut self, rng: &mut Rng, index: usize, thorough: bool) {
        let mut g = Gen { rng, next: 0, kinds: Default::default() };
        let prog = g.program();
        let kinds = g.kinds;
        for (k, n) in &kinds {
            self.rep.bump_by(&format!("construct={}", k), *n);
        }
        let (base_lines, _, _) = render(&prog, 0, None, Opts::default());
        self.rep.bump(&format!("program_lines={:02}x", base_lines.len() / 10));
        let base = match observe_base(&prog) {
            Ok(b) => b,
            Err(Verdict::Rejected(ind, msg)) => {
                self.fail("D", "C10:base-program-rejected", json!({"input": join(&base_lines), "error": msg, "is_indentation_error": ind,
                    "note": "a generated program in its canonical layout (block forms, parenthesised calls, no line breaks) is rejected by the parser"}));
                return;
            }
            Err(v) => {
                self.fail("D", "C10:parser-panic", json!({"input": join(&base_lines), "verdict": format!("{:?}", v)}));
                return;
            }
        };
        if base.beh.contains("result=err") {
            self.rep.bump("base_runtime_error");
            let msg = base.beh.split("result=err ").nth(1).unwrap_or("");
            let short: String = msg.chars().map(|c| if c.is_ascii_digit() { '#' } else { c }).take(48).collect();
            self.rep.bump(&format!("base_error={}", short));
        }
        if base.beh.contains("PANIC") {
            self.rep.bump("base_runtime_panic");
        }
        self.rep.case(&base.src, base_lines.len() >= 3);
        if index % 8 == 0 || (thorough && index % 2 == 0) {
            self.trace_k(&base.src, "base");
        }
        self.cut_sweep(&base_lines, "base", index % 16 == 0);

        let all = Opts { parens: true, inline_block: true, call_parens: true, brk: true };
        let none = Opts::default();
        // (class, options, trivia, strict Ast equality)
        let mut plan: Vec<(&'static str, Opts, bool, bool)> = vec![
            ("trivia", none, true, true),
            ("trivia", none, true, true),
            ("linebreak", Opts { brk: true, ..none }, false, true),
            ("linebreak+trivia", Opts { brk: true, ..none }, true, true),
            ("parens", Opts { parens: true, ..none }, false, false),
            ("inline-block", Opts { inline_block: true, ..none }, false, false),
            ("call-parens", Opts { call_parens: true, ..none }, false, false),
            ("all", all, false, false),
            ("all+trivia", all, true, false),
        ];
        if thorough {
            plan.push(("trivia", none, true, true));
            plan.push(("linebreak", Opts { brk: true, ..none }, false, true));
            plan.push(("all+trivia", all, true, false));
            plan.push(("inline-block+linebreak", Opts { inline_block: true, brk: true, ..none }, true, false));
            plan.push(("call-parens+linebreak", Opts { call_parens: true, brk: true, ..none }, true, false));
        }
        for (vi, (class, o, trivia, strict)) in plan.iter().enumerate() {
            let spec = VariantSpec { vseed: rng.next_u64(), o: *o, trivia: if *trivia { Some(rng.next_u64()) } else { None }, strict: *strict };
            let (lines, used, _) = render_variant(&prog, &spec, None);
            let src = join(&lines);
            for (k, n) in &used {
                self.rep.bump_by(&format!("freedom={}", k), *n);
            }
            self.pairs += 1;
            self.rep.bump(&format!("variant={}", class));
            self.rep.case(&src, lines.len() >= 3);
            if src == base.src {
                self.rep.bump("variant_identical_to_base");
            }
            let verdict = judge(&base, &src, *strict);
            self.checked += 2;
            if verdict.kind() != 0 {
                let name = match &verdict {
                    Verdict::Rejected(..) => "variant-rejected",
                    Verdict::AstDiffers(..) => "ast-differs",
                    Verdict::BehaviourDiffers(..) => "behaviour-differs",
                    _ => "parser-panic",
                };
                let mut detail = json!({"class": class, "mode": if *strict { "strict" } else { "erased" }});
                let shrunk = if self.fails < 12 { shrink(&prog, &spec, verdict.kind()) } else { None };
                match shrunk {
                    Some(sh) => {
                        detail["input"] = json!(sh.variant);
                        detail["base"] = json!(sh.base);
                        detail["freedoms"] = json!(sh.freedoms);
                        detail["verdict"] = json!(format!("{:?}", sh.verdict));
                        detail["unshrunk_input"] = json!(src);
                    }
                    None => {
                        detail["input"] = json!(src);
                        detail["base"] = json!(base.src);
                        detail["freedoms"] = json!(used.iter().map(|(k, n)| format!("{}×{}", k, n)).collect::<Vec<_>>());
                        detail["verdict"] = json!(format!("{:?}", verdict));
                    }
                }
                self.fail("D", &format!("C10:{}:{}", name, class), detail);
                continue;
            }
            if self.rep.samples.len() < 6 && vi == 8 && index % 40 == 1 {
                self.rep.sample(json!({"kind": "variant", "class": class, "freedoms": used.iter().map(|(k, n)| format!("{}×{}", k, n)).collect::<Vec<_>>(),
                    "base": base.src, "variant": src, "behaviour": base.beh, "ast_equal": true}));
            }
            let k_this = if thorough { (index + vi) % 6 == 0 } else { (index + vi) % 16 == 0 };
            if k_this {
                self.trace_k(&src, class);
            }
            if matches!(vi, 0 | 3 | 8) || thorough {
                self.cut_sweep(&lines, class, (index + vi) % 24 == 0);
            }
        }
    }

    fn finish(mut self) -> i32 {
        let prim = self.prim.clone();
        for (k, n) in prim {
            self.rep.bump_by(&format!("k_primitive={}", k), n);
        }
        let cs = self.cut_stats.clone();
        for (k, n) in cs {
            self.rep.bump_by(&format!("cut:{}", k), n);
        }
        self.rep.extra.insert("programs".into(), json!(self.pairs));
        self.rep.extra.insert("disagreements_checked".into(), json!(self.checked));
        self.rep.extra.insert(
            "k_cursor_trace".into(),
            if h2::ON && self.drv.is_some() {
                json!({"parses_replayed": self.k_parses, "primitive_calls_compared": self.k_calls, "disagreements": self.k_fail})
            } else {
                json!("skipped: hook H2 not enabled / no model driver")
            },
        );
        self.rep.extra.insert(
            "erased_attributes".into(),
            json!("strict: spans only (trivia, line-breaking variants); erased: spans + Nested(x)=x + single-expression Block = its expression + flags with_parens/braces/parentheses/inline (parentheses, inline-vs-block, paren-free call variants)"),
        );
        self.rep.extra.insert(
            "cut_offs_outside_the_property_wording".into(),
            json!("The property names the positions where a cut must be an indentation error: directly after the header line of a function / if / else if / else / loop / try / catch / finally / match / switch, or after `=` or a binary operator at a line end; and it forbids one after a complete statement. Asserted exactly so. Other block-opening cuts are NOT in that list and are only counted (distribution `cut:unspecified:*`): an arm line ending in `then` / a bare `else` arm (`match x⏎  1 then`, `switch⏎  a then`, `match x⏎  else`: SyntaxError Expected{Match,Switch}ArmExpression[AfterThen]), a map-block key line `foo:` (ExpectedMapValue), `if a then` (ExpectedThenExpression; no block may follow `then`). A cut inside a `try` body after a complete statement gives ExpectedCatch — not an indentation error, as the 'complete statement' clause demands, asserted as such. A REPL does not offer continuation at these points; that is an observation about the front-end, not a violation of C10 as worded."),
        );
        if let Some(d) = &self.drv {
            self.rep.extra.insert("driver_requests".into(), json!(d.requests));
        }
        self.rep.finish()
    }
}
