/// the koto tree the harness is linked against (`KOTO_REPO` is set by tools/mutcheck.sh)
fn repo_root() -> String {
    std::env::var("KOTO_REPO").unwrap_or_else(|_| "/repo".to_string())
}

// ---- cut-off programs ------------------------------------------------------------------------------

#[derive(Debug, Clone, PartialEq)]
enum Cut {
    Ok,
    Indentation(String),
    Other(String),
    Panic(String),
}

fn cut_parser(src: &str) -> Cut {
    match kvh::catch(|| koto_parser::Parser::parse(src).map(|_| ())) {
        Ok(Ok(())) => Cut::Ok,
        Ok(Err(e)) => {
            if e.is_indentation_error() {
                Cut::Indentation(e.to_string())
            } else {
                Cut::Other(e.to_string())
            }
        }
        Err(p) => Cut::Panic(p),
    }
}

/// the same through `koto::Koto::compile` / `koto::Error::is_indentation_error` (what the REPL uses)
fn cut_koto(src: &str) -> Cut {
    match kvh::catch(|| {
        let mut koto = Koto::default();
        koto.compile(src).map(|_| ())
    }) {
        Ok(Ok(())) => Cut::Ok,
        Ok(Err(e)) => {
            if e.is_indentation_error() {
                Cut::Indentation(e.to_string().lines().next().unwrap_or("").to_string())
            } else {
                Cut::Other(e.to_string().lines().next().unwrap_or("").to_string())
            }
        }
        Err(p) => Cut::Panic(p),
    }
}

fn cut_tag(c: &Cut) -> &'static str {
    match c {
        Cut::Ok => "ok",
        Cut::Indentation(_) => "indentation-error",
        Cut::Other(_) => "other-error",
        Cut::Panic(_) => "panic",
    }
}

impl Ctx {
    /// every line-prefix of a rendered program, judged by the role of its last line
    fn cut_sweep(&mut self, lines: &[Line], class: &str, with_k: bool) {
        let mut prefix = String::new();
        for (k, l) in lines.iter().enumerate() {
            if k > 0 {
                prefix.push('\n');
            }
            prefix.push_str(&l.text);
            if l.role == Role::Unspec {
                let c = cut_parser(&prefix);
                *self.cut_stats.entry(format!("unspecified:{}:{}", l.what, cut_tag(&c))).or_insert(0) += 1;
                continue;
            }
            // as the REPL joins lines (no trailing line break) and with a trailing line break
            let with_nl = format!("{}\n", prefix);
            let a = cut_parser(&prefix);
            let b = cut_parser(&with_nl);
            let c = if (k + lines.len()) % 3 == 0 { cut_koto(&with_nl) } else { b.clone() };
            self.checked += 3;
            self.rep.case(&format!("cut:{}", prefix), k >= 2);
            let expect_ind = matches!(l.role, Role::Header | Role::OpEnd);
            let role_name = match l.role {
                Role::Header => "header",
                Role::OpEnd => "operator-or-assign-at-line-end",
                _ => "complete-statement",
            };
            *self.cut_stats.entry(format!("{}:{}:{}", role_name, l.what, cut_tag(&b))).or_insert(0) += 1;
            let mut bad: Option<String> = None;
            for (which, r) in [("no-trailing-newline", &a), ("trailing-newline", &b), ("koto::compile", &c)] {
                let ok = if expect_ind {
                    matches!(r, Cut::Indentation(_))
                } else if l.need_catch {
                    // the cut is inside a `try` body: the remaining program (the `catch`) is needed
                    matches!(r, Cut::Other(m) if m.contains("catch"))
                } else {
                    matches!(r, Cut::Ok)
                };
                if !ok {
                    bad = Some(format!("{}: {:?}", which, r));
                    break;
                }
            }
            if let Some(b) = bad {
                self.fail(
                    "D",
                    &format!("C10:cut:{}:{}", role_name, l.what),
                    json!({"input": prefix, "class": class, "last_line": l.text, "role": role_name, "line_kind": l.what, "after_trivia_line": l.trivia,
                           "expected": if expect_ind { "is_indentation_error() == true" } else if l.need_catch { "error 'expected catch', not an indentation error" } else { "parses" },
                           "observed": b}),
                );
            }
            if with_k && k % 5 == 0 {
                self.trace_k(&prefix, "cut");
            }
        }
    }

    // ---- listed findings, corpus, replay ----

    fn known_findings(&mut self) {
        for e in self.rep.known_entries() {
            let id = e.get("id").and_then(|x| x.as_str()).unwrap_or("").to_string();
            let status = e.get("status").and_then(|x| x.as_str()).unwrap_or("");
            let a = e.get("witness").and_then(|x| x.as_str()).unwrap_or("").to_string();
            let b = e.get("witness_variant").and_then(|x| x.as_str()).unwrap_or("").to_string();
            let check = e.get("check").and_then(|x| x.as_str()).unwrap_or("parse-agrees").to_string();
            let failing = !self.pair_agrees(&a, &b, &check);
            if status == "known" && failing {
                self.rep.known(&id, e.get("what").and_then(|x| x.as_str()).unwrap_or(""));
            } else if status == "fixed" && failing {
                self.fail("D", &format!("C10:regression:{}", id), json!({"input": a, "variant": b, "note": "a finding recorded as fixed fails again"}));
            } else if status == "known" && !failing {
                self.rep.note(format!("{}: witness no longer fails (candidate for status=fixed)", id));
            }
        }
    }

    /// do two layouts of one program agree? `check`: "parse-agrees" (both parse or both fail),
    /// "behaviour" (same result + stdout), "ast" (same strict Ast)
    fn pair_agrees(&mut self, a: &str, b: &str, check: &str) -> bool {
        match check {
            "behaviour" => behaviour(a) == behaviour(b),
            "ast" => match (parse_real(a), parse_real(b)) {
                (Ok(Ok(x)), Ok(Ok(y))) => x.strict == y.strict,
                _ => false,
            },
            "cut-agrees" => self.layouts_agree(a, b).is_none(),
            _ => matches!(cut_parser(a), Cut::Ok) == matches!(cut_parser(b), Cut::Ok),
        }
    }

    /// Two layouts of one text that differ in trivia only: same classification (parses /
    /// indentation error / other error), and if both parse the same strict Ast and behaviour.
    /// Returns a description of the difference.
    fn layouts_agree(&mut self, a: &str, b: &str) -> Option<String> {
        let (ca, cb) = (cut_parser(a), cut_parser(b));
        self.checked += 1;
        if cut_tag(&ca) != cut_tag(&cb) {
            return Some(format!("classification differs: {:?} vs {:?}", ca, cb));
        }
        if matches!(ca, Cut::Ok) {
            match (parse_real(a), parse_real(b)) {
                (Ok(Ok(x)), Ok(Ok(y))) => {
                    if x.strict != y.strict {
                        return Some("strict Ast differs".into());
                    }
                }
                _ => return Some("parse outcome differs".into()),
            }
            let (ba, bb) = (behaviour(a), behaviour(b));
            if ba != bb {
                return Some(format!("behaviour differs: {} vs {}", ba, bb));
            }
        }
        None
    }

    /// corpus files: `<base>\n=====\n<variant>` pairs that must agree in strict Ast and behaviour,
    /// or a single program (cursor trace + self-consistency only)
    fn corpus(&mut self, dir: &std::path::Path) {
        let Ok(rd) = std::fs::read_dir(dir) else { return };
        let mut ps: Vec<_> = rd.filter_map(|e| e.ok()).map(|e| e.path()).collect();
        ps.sort();
        for p in ps {
            let Ok(s) = std::fs::read_to_string(&p) else { continue };
            let name = p.file_name().unwrap().to_string_lossy().to_string();
            self.rep.bump("corpus_files");
            if let (true, Some((a, b))) = (name.contains("agree"), s.split_once("\n=====\n")) {
                // trivia-only pairs that must be classified alike (also when both are rejected)
                self.pairs += 1;
                self.rep.case(&s, true);
                if let Some(d) = self.layouts_agree(a, b) {
                    self.fail("D", "C10:corpus:layouts-disagree", json!({"file": name, "input": a, "variant": b, "difference": d}));
                }
                self.trace_k(a, "corpus");
                self.trace_k(b, "corpus");
                continue;
            }
            if let Some((a, b)) = s.split_once("\n=====\n") {
                let erased = name.contains("sugar");
                self.pairs += 1;
                self.rep.case(&s, true);
                match (parse_real(a), parse_real(b)) {
                    (Ok(Ok(x)), Ok(Ok(y))) => {
                        self.checked += 2;
                        let same = if erased { x.erased == y.erased } else { x.strict == y.strict };
                        if !same {
                            self.fail("D", "C10:corpus:ast-differs", json!({"file": name, "input": b, "base": a}));
                        }
                        if behaviour(a) != behaviour(b) {
                            self.fail("D", "C10:corpus:behaviour-differs", json!({"file": name, "input": b, "base": a}));
                        }
                    }
                    (x, y) => {
                        let d = |r: &Result<Result<Parsed, (bool, String)>, String>| match r {
                            Ok(Ok(_)) => "parses".to_string(),
                            Ok(Err((_, m))) => m.clone(),
                            Err(p) => format!("panic {}", p),
                        };
                        self.fail("D", "C10:corpus:rejected", json!({"file": name, "input": b, "base": a, "base_parse": d(&x), "variant_parse": d(&y)}));
                    }
                }
                self.trace_k(a, "corpus");
                self.trace_k(b, "corpus");
            } else {
                self.rep.case(&s, true);
                self.trace_k(&s, "corpus");
            }
        }
    }

    fn replay(&mut self, v: &serde_json::Value) {
        let d = &v["detail"];
        let input = d["input"].as_str().unwrap_or("").to_string();
        println!("--- input:\n{}", input);
        println!("--- parse: {:?}", cut_parser(&input));
        if let Some(base) = d["base"].as_str() {
            println!("--- base:\n{}", base);
            match (parse_real(&input), parse_real(base)) {
                (Ok(Ok(x)), Ok(Ok(y))) => {
                    println!("strict Ast equal: {}  erased Ast equal: {}", x.strict == y.strict, x.erased == y.erased);
                    let (bi, bb) = (behaviour(&input), behaviour(base));
                    println!("behaviour variant: {}\nbehaviour base   : {}", bi, bb);
                    if x.erased != y.erased || bi != bb {
                        self.fail("D", "C10:replay:differs", json!({"input": input, "base": base}));
                    }
                }
                _ => self.fail("D", "C10:replay:rejected", json!({"input": input, "base": base})),
            }
        } else if let Some(exp) = d["expected"].as_str() {
            let r = cut_parser(&input);
            let ok = if exp.contains("== true") { matches!(r, Cut::Indentation(_)) } else if exp.contains("catch") { matches!(r, Cut::Other(_)) } else { matches!(r, Cut::Ok) };
            if !ok {
                self.fail("D", "C10:replay:cut", json!({"input": input, "expected": exp, "observed": format!("{:?}", r)}));
            }
        }
        self.trace_k(&input, "replay");
    }

    // ---- repository sources ----

    fn repo_sources(&mut self, rng: &mut Rng, thorough: bool) {
        let mut files: Vec<std::path::PathBuf> = vec![];
        let repo = repo_root();
        for dir in [format!("{}/koto/tests", repo), format!("{}/koto/benches", repo), format!("{}/crates/cli/docs", repo)] {
            if let Ok(rd) = std::fs::read_dir(dir) {
                let mut es: Vec<_> = rd.filter_map(|e| e.ok()).map(|e| e.path()).filter(|p| p.extension().is_some_and(|e| e == "koto")).collect();
                es.sort();
                files.extend(es);
            }
        }
        for f in files {
            let Ok(src) = std::fs::read_to_string(&f) else { continue };
            let is_test = f.starts_with(format!("{}/koto/tests", repo));
            self.rep.bump("repo_files");
            let Ok(Ok(base)) = parse_real(&src) else {
                self.rep.bump("repo_files_not_parsing");
                continue;
            };
            self.trace_k(&src, "repo-file");
            // trivia edits on real sources (line roles unknown: only Ast invariance is asserted).
            // Lines inside multi-line strings / comments must not be touched: edit only lines of
            // files without multi-line tokens other than NewLine-terminated comments.
            let multi = koto_lexer::Lexer::new(&src).any(|t| t.span.start.line != t.span.end.line && t.token != koto_lexer::Token::NewLine);
            if !multi {
                let lines: Vec<Line> = src.lines().map(|l| Line { text: l.to_string(), role: Role::Unspec, what: "repo", trivia: false, need_catch: false, orig: String::new() }).collect();
                let n = if thorough { 6 } else { 2 };
                for _ in 0..n {
                    let mut used = Default::default();
                    let v = join(&add_trivia(&lines, rng, &mut used));
                    self.pairs += 1;
                    self.rep.bump("variant=repo-trivia");
                    self.rep.case(&v, true);
                    match parse_real(&v) {
                        Ok(Ok(p)) => {
                            self.checked += 1;
                            if p.strict != base.strict {
                                self.fail("D", "C10:ast-differs:repo-trivia", json!({"file": f.display().to_string(), "input": v, "base": src}));
                            }
                        }
                        Ok(Err((_, m))) => self.fail("D", "C10:variant-rejected:repo-trivia", json!({"file": f.display().to_string(), "input": v, "base": src, "error": m})),
                        Err(p) => self.fail("D", "C10:parser-panic", json!({"input": v, "panic": p})),
                    }
                    self.trace_k(&v, "repo-trivia");
                }
            } else {
                self.rep.bump("repo_files_with_multiline_tokens(no trivia edit)");
            }
            if is_test {
                self.repo_cut_sweep(&src, &f.display().to_string(), thorough);
            }
        }
    }

    /// Line-prefixes of a repository test file. The generator's line roles are not available here;
    /// asserted are only clauses that can be read off the real token stream of the prefix:
    ///  * last significant token is `=`, a compound assignment or a binary operator  => indentation error
    ///  * the classification does not change when a blank line / comment line / trailing newline follows
    ///  * no panic
    fn repo_cut_sweep(&mut self, src: &str, file: &str, thorough: bool) {
        use koto_lexer::Token as T;
        let lines: Vec<&str> = src.lines().collect();
        let mut prefix = String::new();
        for (k, l) in lines.iter().enumerate() {
            if k > 0 {
                prefix.push('\n');
            }
            prefix.push_str(l);
            if !thorough && k % 2 == 1 {
                continue;
            }
            let toks: Vec<_> = koto_lexer::Lexer::new(&prefix).take(100000).collect();
            if toks.iter().any(|t| t.token == T::Error) {
                *self.cut_stats.entry("repo:lexer-error-prefix".into()).or_insert(0) += 1;
                continue;
            }
            let a = cut_parser(&prefix);
            self.rep.case(&format!("cut:{}", prefix), k >= 2);
            *self.cut_stats.entry(format!("repo:{}", cut_tag(&a))).or_insert(0) += 1;
            if let Cut::Panic(p) = &a {
                self.fail("D", "C10:parser-panic", json!({"input": prefix, "panic": p, "file": file}));
                continue;
            }
            // in a string/template the "last token" is not an operator of the program
            let in_string = {
                let mut depth = 0i32;
                for t in &toks {
                    match t.token {
                        T::StringStart(_) => depth += 1,
                        T::StringEnd => depth -= 1,
                        _ => {}
                    }
                }
                depth != 0
            };
            let mut sig = toks.iter().rev().filter(|t| !t.token.is_whitespace_including_newline());
            let last = sig.next();
            // `from m import *`: the wildcard is not an operator
            let wildcard = last.is_some_and(|t| t.token == T::Multiply) && sig.next().is_some_and(|t| t.token == T::Import);
            let op_end = !in_string
                && !wildcard
                && last.is_some_and(|t| {
                    matches!(
                        t.token,
                        T::Assign | T::AddAssign | T::SubtractAssign | T::MultiplyAssign | T::DivideAssign | T::RemainderAssign | T::PowerAssign
                            | T::Add | T::Subtract | T::Multiply | T::Divide | T::Remainder | T::Power | T::And | T::Or
                            | T::Equal | T::NotEqual | T::Less | T::LessOrEqual | T::Greater | T::GreaterOrEqual | T::Arrow
                    )
                });
            self.checked += 1;
            if op_end && !matches!(a, Cut::Indentation(_)) {
                // an operator at the end of a prefix that is already broken earlier reports the earlier error
                let earlier = k > 0 && !matches!(cut_parser(&lines[..k].join("\n")), Cut::Ok | Cut::Indentation(_));
                if !earlier {
                    self.fail("D", "C10:cut:repo:operator-at-line-end", json!({"input": prefix, "file": file, "expected": "is_indentation_error() == true", "observed": format!("{:?}", a)}));
                }
            }
            for suffix in ["\n", "\n\n", "\n# c\n", "  \n", " # c"] {
                // (a trailing `# c` directly after a string-internal line would change the string)
                if in_string {
                    break;
                }
                let b = cut_parser(&format!("{}{}", prefix, suffix));
                self.checked += 1;
                if cut_tag(&a) != cut_tag(&b) {
                    self.fail("D", "C10:cut:repo:trivia-changes-classification", json!({"input": prefix, "file": file, "suffix": suffix, "without": format!("{:?}", a), "with": format!("{:?}", b)}));
                    break;
                }
            }
            if k % 9 == 0 {
                self.trace_k(&prefix, "repo-cut");
            }
        }
    }
}

// ---- structural tie: the cursor primitives are the only readers of the lexer -------------------------

const LEXER_READERS: &[&str] = &[
    "parse_with_options", // constructs the lexer
    "consume_token",
    "peek_token_n",
    "peek_span",
    "peek_token_with_context",
    "consume_until_token_with_context",
    "peek_next_token_on_same_line_with_span",
];
const CURRENT_TOKEN_FIELDS: &[&str] = &[".slice(", ".source_bytes", ".span", ".indent", ".token", " = next"];

impl Ctx {
    /// Re-checks on every run what Props/C10.lean takes from inspection: every `self.lexer` use in
    /// parser.rs sits inside a modelled primitive, and `current_token` is only read for its text,
    /// byte range, span, indent and kind.
    fn interface_check(&mut self) {
        let path_s = format!("{}/crates/parser/src/parser.rs", repo_root());
        let path = path_s.as_str();
        let Ok(src) = std::fs::read_to_string(path) else {
            self.fail("K", "K:C10:cursor-interface", json!({"note": "cannot read parser.rs", "input": path}));
            return;
        };
        let mut func = String::new();
        let mut in_verif = false;
        let mut lexer_uses = 0;
        let mut cur_uses = 0;
        for (n, line) in src.lines().enumerate() {
            let t = line.trim_start();
            if t.starts_with("pub mod verif") {
                in_verif = true;
            }
            if in_verif || t.starts_with("//") {
                continue;
            }
            if let Some(rest) = t.strip_prefix("fn ").or_else(|| t.strip_prefix("pub fn ")) {
                func = rest.chars().take_while(|c| c.is_alphanumeric() || *c == '_').collect();
            }
            if t.contains("self.lexer") || t.starts_with("lexer:") {
                lexer_uses += 1;
                if !LEXER_READERS.contains(&func.as_str()) && !t.starts_with("lexer: Lexer<") {
                    self.fail(
                        "K",
                        "K:C10:cursor-interface",
                        json!({"input": line, "line": n + 1, "function": func,
                               "note": "parser.rs reads the lexer outside the modelled cursor primitives: Model/Cursor.lean no longer covers every way the parser observes tokens"}),
                    );
                }
            }
            if let Some(p) = t.find("self.current_token") {
                cur_uses += 1;
                let after = &t[p + "self.current_token".len()..];
                let ok = CURRENT_TOKEN_FIELDS.iter().any(|f| after.starts_with(f)) || after.starts_with(',') || after.starts_with(')');
                if !ok {
                    self.fail(
                        "K",
                        "K:C10:cursor-interface",
                        json!({"input": line, "line": n + 1, "function": func, "note": "unexpected use of current_token"}),
                    );
                }
            }
        }
        self.indent_read_scan(&src);
        self.checked += (lexer_uses + cur_uses) as u64;
        self.rep.bump_by("interface_check:lexer_uses", lexer_uses as u64);
        self.rep.bump_by("interface_check:current_token_uses", cur_uses as u64);
        if lexer_uses < 6 {
            self.fail("K", "K:C10:cursor-interface", json!({"input": path, "note": "fewer lexer uses found than primitives exist: the source shape changed, the check is stale"}));
        }
    }
}

// ---- structural tie: where the parser reads current_indent() ----------------------------------------
//
// `current_indent()` on a skipped-trivia position (directly after consume_until_*) is NOT invariant
// under trivia edits (Props/C10.lean `current_indent_pre_not_invariant`, defect F-C10-1, repaired in
// /repo 5f1b75a). Re-checked on every run:
//  (a) no `current_indent()` between a `consume_until_token_with_context(` /
//      `consume_until_next_token_on_same_line(` call and the next consuming call of the same function;
//  (b) the functions that read `current_indent()` before they consume anything are exactly the
//      reviewed set below (each is entered on a significant token, or its value cannot matter).

const PRIMITIVE_FNS: &[&str] = &[
    "consume_token", "peek_token", "peek_token_n", "current_line", "current_indent", "peek_span", "current_span",
    "peek_token_with_context", "consume_token_with_context", "consume_until_token_with_context",
    "peek_next_token_on_same_line", "peek_next_token_on_same_line_with_span",
    "consume_until_next_token_on_same_line", "consume_next_token_on_same_line",
];

/// reviewed at /repo 5f1b75a
const ENTRY_INDENT_READERS: &[(&str, &str)] = &[
    ("parse_indented_block", "entered after the header's last token / `then` / `else` / `:` / `|` was consumed (significant token)"),
    ("parse_expression_continued", "entered after parse_term, which consumes at least one significant token"),
    ("parse_term", "reachable on a skipped-trivia position (parse_line after consume_until_*), but start_indent is only used as `peeked.info.indent > start_indent` for a `@` key: there the next token is on the cursor's line, so its indent is 0 (cursor on a NewLine) or equals the cursor's (cursor on whitespace/comment) and the comparison is false on both sides of any trivia edit"),
    ("parse_parenthesized_args", "entered after `(` was consumed with consume_token"),
    ("consume_map_block", "entered after the first key was parsed (significant token)"),
];

fn is_consuming_call(l: &str) -> bool {
    let t = l.trim_start();
    if t.starts_with("//") {
        return false;
    }
    for pat in ["self.consume_", ".consume_", "self.parse_", ".parse_", "self.expect_and_consume", "self.check_for_chain"] {
        if let Some(p) = t.find(pat) {
            // `self.current_…`, `peek_…` are not consuming; `consume_until_*` leaves the cursor on trivia
            let rest = &t[p..];
            if !rest.contains("consume_until_token_with_context") && !rest.contains("consume_until_next_token_on_same_line") {
                return true;
            }
        }
    }
    false
}

impl Ctx {
    fn indent_read_scan(&mut self, src: &str) {
        // split into functions (up to the hook module)
        let mut funcs: Vec<(String, Vec<(usize, &str)>)> = vec![];
        for (n, line) in src.lines().enumerate() {
            let t = line.trim_start();
            if t.starts_with("pub mod verif") {
                break;
            }
            if let Some(rest) = t.strip_prefix("fn ").or_else(|| t.strip_prefix("pub fn ")) {
                let name: String = rest.chars().take_while(|c| c.is_alphanumeric() || *c == '_').collect();
                funcs.push((name, vec![]));
            }
            if let Some(f) = funcs.last_mut() {
                f.1.push((n + 1, line));
            }
        }
        let mut until_sites = 0u64;
        let mut entry_readers: Vec<(String, usize)> = vec![];
        for (name, lines) in &funcs {
            if PRIMITIVE_FNS.contains(&name.as_str()) {
                continue;
            }
            // (a)
            for (i, (n, l)) in lines.iter().enumerate() {
                let t = l.trim_start();
                if t.starts_with("//") {
                    continue;
                }
                let Some(pos) = l.find("consume_until_token_with_context(").or_else(|| l.find("consume_until_next_token_on_same_line(")) else { continue };
                until_sites += 1;
                let mut j = i;
                while j < lines.len() && j - i <= 12 {
                    let (n2, l2) = lines[j];
                    let seg = if j == i { &l2[pos..] } else { l2 };
                    if seg.contains("current_indent()") && !l2.trim_start().starts_with("//") {
                        self.fail(
                            "K",
                            "K:C10:current_indent-after-consume_until",
                            json!({"input": l2.trim(), "line": n2, "function": name, "consume_until_at_line": n,
                                   "note": "current_indent() is read on the skipped-trivia position directly after consume_until_*: not invariant under trivia edits (Props/C10.lean current_indent_pre_not_invariant; the defect class of F-C10-1)"}),
                        );
                    }
                    if j > i && is_consuming_call(l2) {
                        break;
                    }
                    j += 1;
                }
            }
            // (b)
            for (n, l) in lines.iter().skip(1) {
                if l.trim_start().starts_with("//") {
                    continue;
                }
                if l.contains("current_indent()") {
                    entry_readers.push((name.clone(), *n));
                    break;
                }
                if is_consuming_call(l) || l.contains("consume_until_") {
                    break;
                }
            }
        }
        self.rep.bump_by("interface_check:consume_until_call_sites", until_sites);
        self.rep.bump_by("interface_check:entry_indent_readers", entry_readers.len() as u64);
        self.checked += until_sites + entry_readers.len() as u64;
        for (f, n) in &entry_readers {
            if !ENTRY_INDENT_READERS.iter().any(|(g, _)| g == f) {
                self.fail(
                    "K",
                    "K:C10:current_indent-at-function-entry",
                    json!({"input": f, "line": n,
                           "note": "a function outside the reviewed set reads current_indent() before consuming a token; if it can be entered directly after consume_until_* this is the defect class of F-C10-1 — review and extend ENTRY_INDENT_READERS with the justification"}),
                );
            }
        }
        if until_sites < 10 {
            self.fail("K", "K:C10:cursor-interface", json!({"input": "parser.rs", "note": "fewer consume_until_* call sites found than exist at review time: the source shape changed, the scan is stale"}));
        }
        self.rep.extra.insert(
            "entry_indent_readers_reviewed".into(),
            json!(ENTRY_INDENT_READERS.iter().map(|(f, why)| format!("{}: {}", f, why)).collect::<Vec<_>>()),
        );
    }

    // ---- arm-indent stream: the shape of F-C10-1 (fixed in 5f1b75a), generated rather than filtered ----
    //
    // match / switch whose first arm is at column 0, less indented than, level with, or deeper than
    // its header — with and without trivia lines (any indentation) before the first arm and between
    // arms. Valid or not, a text and its trivia variants must be classified alike; when accepted,
    // the strict Ast and the behaviour must be identical.
    fn arm_indent_stream(&mut self, rng: &mut Rng, n: usize) {
        for i in 0..n {
            let in_func = rng.chance(1, 2);
            let nested = in_func && rng.chance(1, 2);
            let hind: usize = if nested { 4 } else if in_func { 2 } else { 0 };
            let arm_ind = *rng.pick(&[0usize, 0, hind.saturating_sub(2), hind, hind + 1, hind + 2, hind + 4]);
            let is_match = rng.chance(1, 2);
            let assign = rng.chance(1, 2);
            let k = rng.below(4);
            let mut lines: Vec<String> = vec![];
            if in_func {
                lines.push("f = |n|".into());
                if nested {
                    lines.push("  if n >= 0".into());
                }
            } else {
                lines.push(format!("n = {}", k));
            }
            let pad = " ".repeat(hind);
            let head = match (is_match, assign) {
                (true, true) => "z = match n % 3",
                (true, false) => "match n % 3",
                (false, true) => "z = switch",
                (false, false) => "switch",
            };
            lines.push(format!("{}{}", pad, head));
            let header_at = lines.len();
            let ap = " ".repeat(arm_ind);
            let narms = 1 + rng.below(3);
            for a in 0..narms {
                if is_match {
                    lines.push(format!("{}{} then print {}", ap, a, a + 10));
                } else {
                    lines.push(format!("{}n == {} then print {}", ap, a, a + 10));
                }
            }
            if rng.chance(1, 2) {
                lines.push(format!("{}else print 99", ap));
            }
            if assign {
                lines.push(format!("{}print z", pad));
            }
            if in_func {
                lines.push(format!("print f {}", k));
            }
            let base = lines.join("\n") + "\n";
            let base_cut = cut_parser(&base);
            self.rep.case(&format!("arm-indent:{}", base), true);
            let rel = if arm_ind == 0 && hind > 0 { "column0" } else if arm_ind < hind { "less" } else if arm_ind == hind { if hind == 0 { "column0" } else { "level" } } else { "deeper" };
            *self.cut_stats.entry(format!("arm-indent:{}:{}", rel, cut_tag(&base_cut))).or_insert(0) += 1;
            if arm_ind > hind && !matches!(base_cut, Cut::Ok) {
                self.fail("D", "C10:arm-indent:valid-layout-rejected", json!({"input": base, "observed": format!("{:?}", base_cut)}));
            }
            if i % 4 == 0 {
                self.trace_k(&base, "arm-indent");
            }
            for _ in 0..4 {
                let mut v: Vec<String> = vec![];
                for (li, l) in lines.iter().enumerate() {
                    let mut l2 = l.clone();
                    match rng.below(5) {
                        0 => l2.push_str("  "),
                        1 => l2.push_str(" # c"),
                        2 => l2.push_str(" #- c -#"),
                        _ => {}
                    }
                    v.push(l2);
                    // trivia lines: always a chance directly before the first arm, sometimes elsewhere
                    let here = if li + 1 == header_at { rng.chance(4, 5) } else { rng.chance(1, 5) };
                    if here {
                        for _ in 0..1 + rng.below(2) {
                            let ti = " ".repeat(*rng.pick(&[0usize, 1, 2, 3, 4, 6, 8]));
                            v.push(match rng.below(5) {
                                0 => String::new(),
                                1 => ti,
                                2 => format!("{}# c", ti),
                                3 => format!("{}#- c -#", ti),
                                _ => format!("{}#- c\n d\n{}-#", ti, ti),
                            });
                        }
                    }
                }
                let var = v.join("\n") + "\n";
                self.pairs += 1;
                self.rep.bump("variant=arm-indent-trivia");
                self.rep.case(&format!("arm-indent:{}", var), true);
                if let Some(d) = self.layouts_agree(&base, &var) {
                    self.fail(
                        "D",
                        "C10:arm-indent:trivia-changes-outcome",
                        json!({"input": var, "base": base, "arm_indent": arm_ind, "header_indent": hind, "difference": d,
                               "note": "a match/switch and its trivia-only variant are classified differently (shape of F-C10-1, fixed in 5f1b75a)"}),
                    );
                }
            }
        }
    }
}
