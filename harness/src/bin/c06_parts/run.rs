// ---------------------------------------------------------------------------------------------
// Orchestration
// ---------------------------------------------------------------------------------------------

struct Ctx {
    rep: Report,
    drv: Option<Driver>,
    pool: WorkerPool,
    known: Vec<Known>,
    resolver: SiteResolver,
    /// id -> (count, first case text)
    known_hits: BTreeMap<String, (u64, String)>,
    /// unattributed panic sites: site+msg -> count (violations are written for the first few)
    new_sites: BTreeMap<String, u64>,
    hangs: Vec<String>,
    hang_count: u64,
    deaths: BTreeMap<String, u64>,
    alloc_panics: u64,
    /// alloc-class panics / deaths by reaching API: (count, first case)
    alloc_by_api: BTreeMap<String, (u64, String)>,
    panic_cases: u64,
    thorough: bool,
    sites_seen: BTreeMap<String, u64>,
    site_apis: BTreeMap<String, BTreeSet<String>>,
    /// (kind, depth) at which merely dropping a nested value overflowed the native stack
    drop_dead: Vec<(String, usize)>,
}

impl Ctx {
    fn process(&mut self, cases: &[Case], outs: &[Outcome]) {
        for (c, o) in cases.iter().zip(outs.iter()) {
            let nontrivial = c.text.trim().len() >= 3;
            self.rep.case(&c.text, nontrivial);
            let class = match o {
                Outcome::Json(v) => {
                    let mut class = v["o"].as_str().unwrap_or("?").to_string();
                    if class == "E" {
                        class = format!("E:{}", v["k"].as_str().unwrap_or("?"));
                    }
                    if class == "C" {
                        class = format!("C:parse={},compile={},fmt={}", v["parse"].as_str().unwrap_or("?"), v["compile"].as_str().unwrap_or("?"), v["fmt"].as_str().unwrap_or("?"));
                    }
                    if let Some(ps) = v["p"].as_array() {
                        self.panic_cases += 1;
                        for pj in ps {
                            let p = panic_from_json(pj);
                            self.on_panic(c, &p);
                        }
                    }
                    if self.rep.samples.len() < 12 && self.rep.evaluations % 7919 == 11 {
                        self.rep.sample(json!({"group": c.group, "case": c.text, "kind": c.kind.to_string(), "outcome": v}));
                    }
                    class
                }
                Outcome::Hang => {
                    self.hang_count += 1;
                    if self.hangs.len() < 40 {
                        self.hangs.push(c.text.clone());
                    }
                    "hang".to_string()
                }
                Outcome::Died(d) => {
                    let k = classify_death(d);
                    if std::env::var("C06_VERBOSE").is_ok() && c.group.starts_with("program") {
                        eprintln!("[c06] died ({}): {:?}", k, c.text.chars().take(160).collect::<String>());
                    }
                    let cnt = self.deaths.entry(k.to_string()).or_insert(0);
                    *cnt += 1;
                    if *cnt <= 3 {
                        self.rep.note(format!("worker death ({}): case {:?} :: {}", k, c.text.chars().take(200).collect::<String>(), d.chars().take(600).collect::<String>()));
                    }
                    if k == "alloc" {
                        let e = self.alloc_by_api.entry(format!("death via {}", c.apis.first().cloned().unwrap_or_default())).or_insert((0, c.text.clone()));
                        e.0 += 1;
                        // same rule as for `capacity overflow` panics: excluded only where the result must hold
                        // that many elements (tagged), for collectors on endless iterators (the collection
                        // itself is endless) and for seeded random compositions
                        let excluded = c.apis.iter().any(|a| a == ALLOC_EXCLUDED || a == UNBOUNDED_GROWTH || a == INFINITE_COLLECT) || c.group == "program-random";
                        if !excluded {
                            let site = Site { file: "<abort>".into(), function: "allocation-failure".into() };
                            let key = format!("<abort>::allocation-failure via {:?}", c.apis.first());
                            *self.sites_seen.entry(key.clone()).or_insert(0) += 1;
                            match attribute(&self.known, &site, "memory allocation failed", &c.apis) {
                                Some(id) => {
                                    let e = self.known_hits.entry(id).or_insert((0, c.text.clone()));
                                    e.0 += 1;
                                }
                                None => {
                                    let n = self.new_sites.entry(key).or_insert(0);
                                    *n += 1;
                                    if *n == 1 {
                                        self.rep.violation("D", "C06:abort-allocation", json!({"input": c.text, "input_hex": kvh::hex(c.text.as_bytes()), "kind": c.kind.to_string(), "apis": c.apis,
                                            "detail": d.chars().take(800).collect::<String>(),
                                            "note": "the worker process was aborted by a failed allocation although the result of the call does not have to hold that many elements (a capacity reserved for a size that is never reached)"}));
                                    }
                                }
                            }
                        }
                    }
                    let flagged = c.apis.iter().any(|a| a == CYCLIC_DEEP);
                    if k == "stack" && flagged {
                        // a tiny program over a cyclic / nested value tore the host process down:
                        // worse than a panic. (The property text excludes native-stack exhaustion
                        // from *unbounded recursion in the script*; here the recursion is the
                        // runtime's own traversal of a finite value, so it is reported.)
                        let site = Site { file: "<abort>".into(), function: "native-stack-overflow".into() };
                        // cause rule for the extreme-depth cases: if dropping alone dies at this kind
                        // and a depth <= this one, this death is the drop's
                        let mut apis = c.apis.clone();
                        let depth_tag = c.apis.iter().find_map(|a| a.strip_prefix("depth:")).and_then(|t| t.split_once(':')).and_then(|(k, d)| d.parse::<usize>().ok().map(|d| (k.to_string(), d)));
                        if let Some((kind, depth)) = &depth_tag {
                            if c.apis.iter().any(|a| a == "deep:drop") {
                                self.drop_dead.push((kind.clone(), *depth));
                            } else if self.drop_dead.iter().any(|(k, d)| k == kind && d <= depth) {
                                apis = vec!["deep:drop".to_string()];
                            }
                        }
                        let key = format!("<abort>::native-stack-overflow via {:?}{}", apis.first(), depth_tag.as_ref().map(|(k, d)| format!(" ({} nested {})", k, d)).unwrap_or_default());
                        *self.sites_seen.entry(key.clone()).or_insert(0) += 1;
                        match attribute(&self.known, &site, "stack overflow", &apis) {
                            Some(id) => {
                                let e = self.known_hits.entry(id).or_insert((0, c.text.clone()));
                                e.0 += 1;
                            }
                            None => {
                                let n = self.new_sites.entry(key).or_insert(0);
                                *n += 1;
                                if *n == 1 {
                                    self.rep.violation("D", "C06:abort-native-stack", json!({"input": c.text, "input_hex": kvh::hex(c.text.as_bytes()), "kind": c.kind.to_string(), "apis": c.apis,
                                        "detail": d.chars().take(800).collect::<String>(), "note": "the worker process was aborted by a native stack overflow while the runtime traversed a cyclic / nested value"}));
                                }
                            }
                        }
                    }
                    if k == "abort" {
                        // neither memory nor stack exhaustion: the host process was torn down
                        let key = format!("abort::{}", d.chars().take(120).collect::<String>());
                        let n = self.new_sites.entry(key).or_insert(0);
                        *n += 1;
                        if *n == 1 {
                            self.rep.violation("D", "C06:abort", json!({"input": c.text, "input_hex": kvh::hex(c.text.as_bytes()), "kind": c.kind.to_string(),
                                "detail": d, "note": "the worker process died (not an allocation failure, not a native stack overflow)"}));
                        }
                    }
                    format!("died:{}", k)
                }
            };
            self.rep.bump(&format!("{}:{}", c.group, class));
        }
    }

    fn on_panic(&mut self, c: &Case, p: &PanicRec) {
        // The allocation exclusion, stated per case: a `capacity overflow` / allocation-failure panic is
        // outside the property only when the RESULT of the call must hold that many elements — the
        // generators tag exactly those cases (`excluded:allocation-request`); seeded random compositions
        // cannot be classified and keep the blanket exclusion. Everywhere else it is a reservation for a
        // size that is never reached: a panic of the runtime.
        let excluded_alloc = c.apis.iter().any(|a| a == ALLOC_EXCLUDED || a == UNBOUNDED_GROWTH) || c.group == "program-random";
        if is_alloc_panic(&p.msg) && excluded_alloc {
            // gigantic allocation the script asked for: outside the property
            self.alloc_panics += 1;
            let e = self.alloc_by_api.entry(format!("panic via {}", c.apis.first().cloned().unwrap_or_default())).or_insert((0, c.text.clone()));
            e.0 += 1;
            return;
        }
        // a collector on an infinite iterator: "capacity overflow" there means that the size hint was
        // reserved before any value was pulled — a panic of the runtime, not a requested allocation
        let site = if is_alloc_panic(&p.msg) { Site { file: "<alloc>".into(), function: "capacity-overflow".into() } } else { self.resolver.site(p) };
        let key = format!("{}::{} [{}]", site.file, site.function, short_msg(&p.msg));
        *self.sites_seen.entry(key.clone()).or_insert(0) += 1;
        {
            let e = self.site_apis.entry(key.clone()).or_default();
            if e.len() < 60 {
                for a in c.apis.iter().take(3) {
                    e.insert(a.clone());
                }
            }
        }
        match attribute(&self.known, &site, &p.msg, &c.apis) {
            Some(id) => {
                let e = self.known_hits.entry(id).or_insert((0, c.text.clone()));
                e.0 += 1;
            }
            None => {
                let vkey = format!("{} via {:?}", key, c.apis.first());
                let n = self.new_sites.entry(vkey).or_insert(0);
                *n += 1;
                if *n == 1 {
                    self.rep.violation(
                        "D",
                        "C06:panic",
                        json!({"input": c.text, "input_hex": kvh::hex(c.text.as_bytes()), "kind": c.kind.to_string(), "group": c.group, "apis": c.apis,
                               "phase": p.phase, "location": format!("{}:{}:{}", p.file, p.line, p.col), "site": {"file": site.file, "function": site.function},
                               "message": p.msg, "frames": p.frames,
                               "note": "panic at a site / through an API that no listed finding covers"}),
                    );
                }
            }
        }
    }

    fn run_cases(&mut self, cases: Vec<Case>) {
        if cases.is_empty() {
            return;
        }
        let t0 = std::time::Instant::now();
        let outs = self.pool.run(&cases);
        let t1 = t0.elapsed();
        self.process(&cases, &outs);
        if std::env::var("C06_VERBOSE").is_ok() {
            eprintln!("[c06] {} cases ({}): run {:?}, process {:?}", cases.len(), cases[0].group, t1, t0.elapsed() - t1);
        }
    }
}

fn short_msg(m: &str) -> String {
    // drop the variable parts (numbers, quoted text) of index / char-boundary messages
    let m = if let Some(i) = m.find(": the len is") { &m[..i] } else { m };
    let m = if let Some(i) = m.find(" but the index is") { &m[..i] } else { m };
    if m.contains("is not a char boundary") {
        return "byte index is not a char boundary".to_string();
    }
    let cut = m.find(|c: char| c.is_ascii_digit()).unwrap_or(m.len());
    m[..cut].trim().chars().take(80).collect()
}

/// Buffer cases and run them in chunks
struct Batcher {
    buf: Vec<Case>,
}

fn explore(cx: &mut Ctx, rng: &mut Rng) {
    let thorough = cx.thorough;
    const CHUNK: usize = 100_000;
    // ---- (b) core-library sweep ----------------------------------------------------------------
    let sweep = Sweep::new();
    cx.rep.extra.insert("entry_points".into(), json!(sweep.eps.len()));
    cx.rep.extra.insert("entry_point_names".into(), json!(sweep.eps.iter().map(|(m, n)| format!("{}.{}", m, n)).collect::<Vec<_>>()));
    cx.rep.extra.insert("pool_size".into(), json!({"numbers": NUMS.len(), "others": OTHERS.len(), "reduced": sweep.all.iter().filter(|i| i.reduced).count()}));
    let mut b = Batcher { buf: vec![] };
    {
        let mut sink = |c: Case| b.buf.push(c);
        sweep.generate(thorough, rng, &mut sink);
    }
    let mut cases = std::mem::take(&mut b.buf);
    let only = std::env::var("C06_ONLY").ok();
    if only.as_deref().is_some_and(|o| o.starts_with("gen")) {
        // developer aid: only the control-flow / register-pressure generators
        cases.clear();
        let mut sink = |c: Case| cases.push(c);
        control_flow_cases(thorough, rng, &mut sink);
        register_pressure_cases(thorough, &mut sink);
        iterator_reentrancy_cases(&sweep.eps, &mut sink);
        extreme_depth_cases(&mut sink);
        meta_mutator_cases(&sweep.eps, thorough, &mut sink);
        deferred_capture_cases(&mut sink);
        misplaced_construct_cases(thorough, &mut sink);
        format_width_cases(thorough, &mut sink);
        packed_args_cases(thorough, &mut sink);
        string_escape_cases(&mut sink);
        file_io_cases(thorough, &mut sink);
        size_argument_cases(&sweep.eps, thorough, &mut sink);
        container_reentrancy_cases(&sweep.eps, thorough, &mut sink);
        iterator_invalidation_cases(thorough, &mut sink);
    }
    if let Some(f) = &only {
        cases.retain(|c| c.apis.iter().any(|a| a.contains(f.as_str())));
    }
    eprintln!("[c06] sweep cases: {}", cases.len());
    for chunk in cases.chunks(CHUNK) {
        cx.run_cases(chunk.to_vec());
    }
    drop(cases);
    if only.is_some() {
        return;
    }
    // ---- (c) generated programs ----------------------------------------------------------------
    {
        let mut sink = |c: Case| b.buf.push(c);
        program_cases(thorough, rng, &mut sink);
    }
    let cases = std::mem::take(&mut b.buf);
    eprintln!("[c06] program cases: {}", cases.len());
    for chunk in cases.chunks(CHUNK) {
        cx.run_cases(chunk.to_vec());
    }
    drop(cases);
    // ---- (d) control-flow endings, (e) register pressure -----------------------------------------
    {
        let mut sink = |c: Case| b.buf.push(c);
        control_flow_cases(thorough, rng, &mut sink);
        register_pressure_cases(thorough, &mut sink);
        iterator_reentrancy_cases(&sweep.eps, &mut sink);
        extreme_depth_cases(&mut sink);
        meta_mutator_cases(&sweep.eps, thorough, &mut sink);
        deferred_capture_cases(&mut sink);
        misplaced_construct_cases(thorough, &mut sink);
        format_width_cases(thorough, &mut sink);
        packed_args_cases(thorough, &mut sink);
        string_escape_cases(&mut sink);
        file_io_cases(thorough, &mut sink);
        size_argument_cases(&sweep.eps, thorough, &mut sink);
        container_reentrancy_cases(&sweep.eps, thorough, &mut sink);
        iterator_invalidation_cases(thorough, &mut sink);
    }
    let cases = std::mem::take(&mut b.buf);
    eprintln!("[c06] control-flow / register-pressure / iterator-reentrancy cases: {}", cases.len());
    // the same texts also go through parse + compile + format + Display
    let mut both: Vec<Case> = Vec::with_capacity(cases.len() * 2);
    for c in cases {
        both.push(Case { kind: 'C', text: c.text.clone(), group: c.group, apis: c.apis.clone() });
        both.push(c);
    }
    for chunk in both.chunks(CHUNK) {
        cx.run_cases(chunk.to_vec());
    }
    drop(both);
    // ---- (i) collectors on infinite iterators: own batch, short limit, no retry ----------------------
    {
        let mut cases: Vec<Case> = vec![];
        let mut sink = |c: Case| cases.push(c);
        infinite_collect_cases(thorough, &mut sink);
        eprintln!("[c06] infinite-collect cases: {}", cases.len());
        let outs = cx.pool.run_opts(&cases, Duration::from_millis(1200), false);
        cx.process(&cases, &outs);
    }
    // ---- (a) compile / format / Display --------------------------------------------------------
    let sources = corpus_sources();
    cx.rep.extra.insert("corpus_sources".into(), json!(sources.len()));
    let mut cases: Vec<Case> = vec![];
    let mut total_tokens = 0usize;
    let mut complete_files = 0usize;
    let cap_tokens = if thorough { 6000 } else { 400 };
    let sample_per_big_file = if thorough { 3000 } else { 150 };
    for (_name, text) in &sources {
        cases.push(compile_case(text.clone(), "corpus"));
        let toks = token_ranges(text);
        total_tokens += toks.len();
        if toks.len() <= cap_tokens {
            complete_files += 1;
            for i in 0..toks.len() {
                for m in [Mutation::Delete, Mutation::Duplicate, Mutation::Swap] {
                    if let Some(s) = mutate(text, &toks, i, m) {
                        cases.push(compile_case(s, "token-mutation"));
                    }
                }
            }
        } else {
            for _ in 0..sample_per_big_file {
                let i = rng.below(toks.len());
                let m = *rng.pick(&[Mutation::Delete, Mutation::Duplicate, Mutation::Swap]);
                if let Some(s) = mutate(text, &toks, i, m) {
                    cases.push(compile_case(s, "token-mutation-sampled"));
                }
            }
        }
        // truncations at character boundaries (every boundary for short sources, sampled otherwise)
        let bounds: Vec<usize> = text.char_indices().map(|(i, _)| i).collect();
        if bounds.len() <= (if thorough { 600 } else { 120 }) {
            for &bnd in &bounds {
                cases.push(compile_case(text[..bnd].to_string(), "truncation"));
            }
        } else {
            for _ in 0..(if thorough { 200 } else { 25 }) {
                let bnd = *rng.pick(&bounds);
                cases.push(compile_case(text[..bnd].to_string(), "truncation"));
            }
        }
    }
    cx.rep.extra.insert("corpus_tokens".into(), json!(total_tokens));
    cx.rep.extra.insert("corpus_sources_with_complete_neighbourhood".into(), json!(complete_files));
    cx.rep.extra.insert("neighbourhood_token_cap".into(), json!(cap_tokens));
    // token soups
    let vocab = token_vocabulary(&sources);
    cx.rep.extra.insert("token_vocabulary".into(), json!(vocab.len()));
    let n_soup = if thorough { 120_000 } else { 12_000 };
    for _ in 0..n_soup {
        let cap = if rng.chance(1, 8) { 60 } else { 16 };
        let len = 1 + rng.below(cap);
        let mut s = String::new();
        for _ in 0..len {
            let t = rng.pick(&vocab);
            s.push_str(t);
            if rng.chance(1, 2) {
                s.push(' ');
            }
            if rng.chance(1, 10) {
                s.push('\n');
                for _ in 0..rng.below(4) {
                    s.push_str("  ");
                }
            }
        }
        cases.push(compile_case(s, "token-soup"));
    }
    // multi-byte adjacency (complete in both tiers): every keyword / operator / punctuation token of
    // the vocabulary followed (and preceded) by 0-3 ASCII bytes and then a 2-, 3- or 4-byte character
    // — the lexer's and formatter's look-ahead / look-behind by BYTE offsets must not cut a character
    multibyte_adjacency_cases(&vocab, &mut |c| cases.push(c));
    // byte noise (made UTF-8-valid) and noisy corpus
    let n_noise = if thorough { 60_000 } else { 6_000 };
    for _ in 0..n_noise {
        let len = 1 + rng.below(40);
        let bytes: Vec<u8> = (0..len)
            .map(|_| if rng.chance(3, 4) { (32 + rng.below(95)) as u8 } else { rng.below(256) as u8 })
            .collect();
        let s = String::from_utf8_lossy(&bytes).to_string();
        cases.push(compile_case(s, "byte-noise"));
    }
    for _ in 0..n_noise / 2 {
        // a corpus source with a few random byte overwrites
        let (_n, text) = rng.pick(&sources);
        if text.is_empty() {
            continue;
        }
        let mut bytes = text.as_bytes().to_vec();
        if bytes.len() > 2000 {
            let st = rng.below(bytes.len() - 2000);
            bytes = bytes[st..st + 2000].to_vec();
        }
        for _ in 0..1 + rng.below(4) {
            let i = rng.below(bytes.len());
            bytes[i] = if rng.chance(1, 2) { (32 + rng.below(95)) as u8 } else { rng.below(256) as u8 };
        }
        cases.push(compile_case(String::from_utf8_lossy(&bytes).to_string(), "corpus-noise"));
    }
    eprintln!("[c06] compile cases: {}", cases.len());
    for chunk in cases.chunks(CHUNK) {
        cx.run_cases(chunk.to_vec());
    }
}

fn replay_known(cx: &mut Ctx) {
    // every listed finding: replay its witness in a worker
    let known = cx.known.clone();
    let mut hang_probe_cases: Vec<Case> = vec![];
    // (the entry's `witness` and every text of `other_witnesses`)
    let mut entries: Vec<(Known, String, bool)> = vec![];
    for k in &known {
        entries.push((k.clone(), k.witness.clone(), true));
        for w in &k.other_witnesses {
            entries.push((k.clone(), w.clone(), false));
        }
    }
    for (k, wtext, main_witness) in &entries {
        let c = Case { kind: k.witness_kind, text: wtext.clone(), group: "witness", apis: if k.apis.iter().any(|a| a == "*") { vec!["*".into()] } else { k.apis.clone() } };
        let outs = cx.pool.run(std::slice::from_ref(&c));
        let mut hit = false;
        let mut other: Vec<String> = vec![];
        if let Outcome::Json(v) = &outs[0] {
            if let Some(ps) = v["p"].as_array() {
                for pj in ps {
                    let p = panic_from_json(pj);
                    let site = if is_alloc_panic(&p.msg) { Site { file: "<alloc>".into(), function: "capacity-overflow".into() } } else { cx.resolver.site(&p) };
                    if k.matches_site(&site, &p.msg) {
                        hit = true;
                    } else {
                        other.push(format!("{}::{} [{}]", site.file, site.function, p.msg));
                    }
                }
            }
        }
        if let Outcome::Died(dd) = &outs[0] {
            if classify_death(dd) == "stack" && k.sites.iter().any(|s| s.0 == "<abort>") {
                hit = true;
            } else {
                other.push(format!("worker died: {}", dd.chars().take(120).collect::<String>()));
            }
        }
        cx.rep.case(&c.text, true);
        cx.rep.bump(&format!("witness:{}", if hit { "panics" } else { "passes" }));
        if k.status == "known" {
            if hit {
                // counted later together with the exploration hits
                cx.known_hits.entry(k.id.clone()).or_insert((0, c.text.clone())).0 += 1;
            } else if *main_witness {
                cx.rep.note(format!("listed finding {} (status known): its witness no longer panics at the listed site (other panics: {:?}) — the entry is stale", k.id, other));
            }
        } else if hit {
            cx.rep.violation("D", &format!("C06:regression:{}", k.id), json!({"input": c.text, "input_hex": kvh::hex(c.text.as_bytes()), "kind": c.kind.to_string(),
                "note": "a finding recorded as fixed panics again at the same site"}));
        }
        if !other.is_empty() && k.status != "known" {
            cx.rep.note(format!("witness of {} panics elsewhere: {:?}", k.id, other));
        }
    }
    // former hang (string.split with an empty pattern, repaired by e1818ae): must terminate now —
    // a hang is reported in the notes (termination inside natives is outside C06)
    for src in ["'abc'.split('').to_list()", "'abc'.split('').count()", "'héllo'.split('').to_tuple()"] {
        hang_probe_cases.push(Case { kind: 'R', text: src.to_string(), group: "hang-probe", apis: vec!["string.split".into()] });
    }
    // unbounded recursion WRITTEN IN THE SCRIPT that goes through nested VM entries (native re-entry):
    // the native stack overflows and the process is aborted — the property's stated exclusion; run
    // and listed so that the exclusion is explicit
    for src in ["m =\n  @+: |other| self + other\nm + 1\n", "f = |n| (n,).each(|x| f(x + 1)).consume()\nf 0\n", "f = |n| [n].transform(|x| f(x + 1))\nf 0\n", "o =\n  @display: || '{self}'\n'{o}'\n"] {
        hang_probe_cases.push(Case { kind: 'R', text: src.to_string(), group: "excluded-recursion-probe", apis: vec!["excluded:script-recursion".into()] });
    }
    // the script's own gigantic allocation request (stated exclusion), listed explicitly
    for src in ["'ab'.repeat(1e30)\n", "'ab'.repeat(9223372036854775807)\n", "[].resize(1e30, 0)\n", "x = 1\n'{x:4000000000}'\n"] {
        hang_probe_cases.push(Case { kind: 'R', text: src.to_string(), group: "excluded-allocation-probe", apis: vec!["excluded:allocation-request".into()] });
    }
    let outs = cx.pool.run_opts(&hang_probe_cases, Duration::from_millis(4000), false);
    for (c, o) in hang_probe_cases.iter().zip(outs.iter()) {
        cx.rep.case(&c.text, true);
        let cls = match o {
            Outcome::Hang => "hang",
            Outcome::Died(_) => "died",
            Outcome::Json(_) => "returns",
        };
        if c.group == "excluded-allocation-probe" {
            let cls = match o {
                Outcome::Hang => "hang".to_string(),
                Outcome::Died(d) => format!("process death ({})", classify_death(d)),
                Outcome::Json(v) => match v["p"].as_array().and_then(|a| a.first()) {
                    Some(p) => format!("panic {:?}", p["msg"].as_str().unwrap_or("")),
                    None => format!("returns {}", v["o"].as_str().unwrap_or("?")),
                },
            };
            cx.rep.bump("excluded-allocation-probe");
            cx.rep.note(format!("excluded by the property (allocation of a size the script asked for): {:?} → {}", c.text, cls));
            continue;
        }
        if c.group == "excluded-recursion-probe" {
            let cls = match o {
                Outcome::Hang => "hang".to_string(),
                Outcome::Died(d) => format!("process death ({})", classify_death(d)),
                Outcome::Json(v) => format!("returns {}", v["o"].as_str().unwrap_or("?")),
            };
            cx.rep.bump(&format!("excluded-recursion-probe:{}", cls));
            cx.rep.note(format!("excluded by the property (unbounded recursion written in the script, through nested VM entries): {:?} → {}", c.text, cls));
            continue;
        }
        cx.rep.bump(&format!("hang-probe:{}", cls));
        cx.rep.note(format!("hang probe {:?}: {}", c.text, cls));
    }
}

/// removes the scratch directories of the file-I/O cases (the workers' `io-w<pid>` directories next to
/// their stderr files, and the in-process one)
fn cleanup_io_scratch() {
    let _ = std::fs::remove_dir_all(std::env::temp_dir().join(format!("c06-scratch-{}", std::process::id())));
    let pool_dir = std::env::var("VERIF_SCRATCH").unwrap_or_else(|_| std::env::temp_dir().join(format!("c06-{}", std::process::id())).display().to_string());
    if let Ok(rd) = std::fs::read_dir(&pool_dir) {
        for e in rd.filter_map(|e| e.ok()) {
            if e.file_name().to_string_lossy().starts_with("io-w") {
                let _ = std::fs::remove_dir_all(e.path());
            }
        }
    }
}

fn main() {
    let argv: Vec<String> = std::env::args().collect();
    if argv.iter().any(|a| a == "--worker") {
        worker_main(&argv);
        return;
    }
    install_hook();
    if argv.iter().any(|a| a == "--panic-sites") {
        // developer aid: print the census in the form of c06_parts/sites_baseline.rs
        let mut res = SiteResolver::new();
        println!("const PANIC_SITE_BASELINE: &[(&str, &str, &str, usize)] = &[");
        for ((f, g, c), n) in panic_site_census(&mut res) {
            println!("    ({:?}, {:?}, {:?}, {}),", f, g, c, n);
        }
        println!("];");
        return;
    }
    if let Some(i) = argv.iter().position(|a| a == "--probe") {
        // developer aid: run the scripts of a file (separated by lines `---`) in-process
        let src = std::fs::read_to_string(&argv[i + 1]).expect("probe file");
        let mut res = SiteResolver::new();
        for part in src.split("\n---\n") {
            let v = if part.starts_with("#!src") { handle_compile(part) } else { handle_run(part) };
            println!("=== {}", part.replace('\n', " ⏎ "));
            let mut v2 = v.clone();
            if let Some(ps) = v["p"].as_array() {
                let sites: Vec<String> = ps.iter().map(|pj| { let p = panic_from_json(pj); let s = res.site(&p); format!("{}::{} [{}] @{}:{} phase={} frames={:?}", s.file, s.function, p.msg, p.line, p.col, p.phase, p.frames.iter().take(4).collect::<Vec<_>>()) }).collect();
                v2["p"] = json!(sites);
            }
            println!("    {}", v2);
            if std::env::var("C06_SHOW").is_ok() && v["o"] == "V" {
                let mut k = new_koto();
                if let Ok(val) = k.compile_and_run(part) {
                    println!("    = {}", k.value_to_string(val).unwrap_or_default().chars().take(300).collect::<String>());
                }
            }
        }
        return;
    }
    if let Some(i) = argv.iter().position(|a| a == "--probe-src") {
        let src = std::fs::read_to_string(&argv[i + 1]).expect("probe file");
        let t0 = std::time::Instant::now();
        println!("{} ({:?})", handle_compile(&src), t0.elapsed());
        return;
    }
    let args = Args::parse();
    let mut rep = Report::new("C06", &args);
    rep.rule = "cases: (K) kernel requests (kernel × boundary-pool tuples, complete); (b) one script per core-library entry point × argument tuple from the boundary pool (module-function and instance-call form); (c) operator programs over the pool (complete products for the listed templates) + seeded random compositions; (a) source texts: corpus files / docs code blocks, single-token delete/duplicate/swap neighbours, truncations, token soups, byte noise — each through parse + Koto::compile + format (2 option sets) + error Display. distinct = distinct case text; non-trivial = text of at least 3 non-blank characters".into();
    let thorough = args.thorough();
    let known = load_known(&rep);
    let n_workers: usize = std::env::var("C06_WORKERS").ok().and_then(|s| s.parse().ok()).unwrap_or(12);
    let timeout = Duration::from_millis(if thorough { 4000 } else { 2500 });
    let pool = WorkerPool::new(n_workers, timeout);
    let drv = if args.driver.is_empty() { None } else { Some(Driver::spawn(&args.driver)) };
    let mut cx = Ctx {
        rep,
        drv,
        pool,
        known,
        resolver: SiteResolver::new(),
        known_hits: BTreeMap::new(),
        new_sites: BTreeMap::new(),
        hangs: vec![],
        hang_count: 0,
        deaths: BTreeMap::new(),
        alloc_panics: 0,
        alloc_by_api: BTreeMap::new(),
        panic_cases: 0,
        thorough,
        sites_seen: BTreeMap::new(),
        site_apis: BTreeMap::new(),
        drop_dead: vec![],
    };

    if let Some(p) = &args.replay {
        let v: Value = serde_json::from_str(&std::fs::read_to_string(p).expect("replay file")).expect("json");
        let d = &v["detail"];
        if let Some(hexs) = d["input_hex"].as_str() {
            let text = String::from_utf8(kvh::unhex(hexs).unwrap()).unwrap();
            let kind = d["kind"].as_str().and_then(|s| s.chars().next()).unwrap_or('R');
            let apis: Vec<String> = d["apis"].as_array().map(|a| a.iter().filter_map(|x| x.as_str().map(|s| s.to_string())).collect()).unwrap_or_default();
            let c = Case { kind, text: text.clone(), group: "replay", apis };
            println!("case ({}):\n{}", kind, text);
            let outs = cx.pool.run(std::slice::from_ref(&c));
            println!("outcome: {:?}", outs[0]);
            cx.process(std::slice::from_ref(&c), &outs);
        } else if let Some(req) = d["request"].as_str() {
            println!("kernel request: {}", req);
            replay_kernel(&mut cx, req);
        }
        let code = cx.rep.finish();
        cleanup_io_scratch();
        std::process::exit(code);
    }

    let mut rng = Rng::new(args.seed);
    // 0. listed findings and the regression corpus
    replay_known(&mut cx);
    if let Some(dir) = &args.corpus {
        if let Ok(rd) = std::fs::read_dir(dir) {
            let mut ps: Vec<_> = rd.filter_map(|e| e.ok()).map(|e| e.path()).collect();
            ps.sort();
            let mut cases = vec![];
            for p in ps {
                if let Ok(s) = std::fs::read_to_string(&p) {
                    let name = p.file_name().map(|n| n.to_string_lossy().to_string()).unwrap_or_default();
                    // `*.src` = source text for compile/format; anything else = script to run;
                    // the first line `# apis: a b c` names the APIs the script exercises
                    let kind = if name.ends_with(".src") { 'C' } else { 'R' };
                    let apis: Vec<String> = s
                        .lines()
                        .next()
                        .and_then(|l| l.strip_prefix("# apis:"))
                        .map(|l| l.split_whitespace().map(|x| x.to_string()).collect())
                        .unwrap_or_else(|| if kind == 'C' { vec!["compile".into(), "format".into(), "display".into()] } else { vec![] });
                    cases.push(Case { kind, text: s, group: "regression-corpus", apis });
                }
            }
            cx.run_cases(cases);
        }
    }
    // 0. the checked panic-site table still covers the code
    check_panic_site_table(&mut cx);
    // 1. (K) kernels
    run_kernel_correspondence(&mut cx);
    // 2. exploration
    if !args.has_flag("--kernels-only") {
        explore(&mut cx, &mut rng);
    }

    // ---- report -----------------------------------------------------------------------------
    let hits = cx.known_hits.clone();
    for k in cx.known.clone() {
        if k.status == "known" {
            if let Some((n, first)) = hits.get(&k.id) {
                cx.rep.known(&k.id, &format!("{} — panic site {}; {} case(s) of this run hit it; e.g. {:?}", k.what, k.site_text(), n, first.chars().take(120).collect::<String>()));
            }
        }
    }
    let hang_count = cx.hang_count;
    if hang_count > 0 {
        let hs = cx.hangs.clone();
        cx.rep.note(format!("{} case(s) exceeded the per-case wall-clock limit (recorded as hang; termination inside natives is outside C06): first ones: {:?}", hang_count, hs.iter().take(12).collect::<Vec<_>>()));
    }
    cx.rep.extra.insert("exploration_is_search_support_not_proof".into(), json!(true));
    cx.rep.extra.insert("hangs".into(), json!(hang_count));
    cx.rep.extra.insert("hang_examples".into(), json!(cx.hangs));
    cx.rep.extra.insert("worker_deaths".into(), json!(cx.deaths));
    cx.rep.extra.insert("alloc_class_panics_excluded".into(), json!(cx.alloc_panics));
    cx.rep.extra.insert("alloc_class_by_api".into(), json!(cx.alloc_by_api.iter().map(|(k, v)| (k.clone(), json!({"n": v.0, "first": v.1.chars().take(300).collect::<String>()}))).collect::<BTreeMap<_, _>>()));
    cx.rep.extra.insert("cases_with_panic".into(), json!(cx.panic_cases));
    cx.rep.extra.insert("panic_sites_seen".into(), json!(cx.sites_seen));
    cx.rep.extra.insert("panic_site_apis".into(), json!(cx.site_apis));
    cx.rep.extra.insert("unlisted_panic_sites".into(), json!(cx.new_sites));
    cx.rep.extra.insert("known_finding_hits".into(), json!(cx.known_hits.iter().map(|(k, v)| (k.clone(), v.0)).collect::<BTreeMap<_, _>>()));
    cx.rep.extra.insert("workers".into(), json!(n_workers));
    if let Some(d) = &cx.drv {
        cx.rep.extra.insert("driver_requests".into(), json!(d.requests));
    }
    let code = cx.rep.finish();
    cleanup_io_scratch();
    std::process::exit(code);
}

fn replay_kernel(_cx: &mut Ctx, _req: &str) {}
