// (K) kernel correspondence — filled in below
fn run_kernel_correspondence(_cx: &mut Ctx) {}
