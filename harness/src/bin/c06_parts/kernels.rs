// ---------------------------------------------------------------------------------------------
// (K) kernel correspondence: Model/Guards.lean (through the driver) vs the real functions.
// Direct Rust calls where the function is public (KRange, string iterators, StringSlice, KTuple,
// format_source_excerpt, VerifFrame (hook H3), Lexer::peek, verif_timeout_probe (hook H4)),
// otherwise tiny scripts (index / index-assign / remainder / shifts / list functions / patterns).
// Everything runs in-process under catch_unwind (these cases neither hang nor abort).
// Outcome: `panic` | `err` | `ok <canonical>`; the model says `panic` ⇔ the implementation panics.
// ---------------------------------------------------------------------------------------------

use koto_runtime::{KNumber, KRange};

const I64_POOL: &[i64] = &[
    0, 1, -1, 2, 63, 64, 255, 256, 65535, 65536, 2147483646, 2147483647, 2147483648, -2147483647, -2147483648, -2147483649,
    9223372036854775806, 9223372036854775807, -9223372036854775807, -9223372036854775808,
];
const F64_POOL: &[f64] = &[f64::NAN, f64::INFINITY, f64::NEG_INFINITY, 0.0, -0.0, 0.5, -0.5, 1e30, -1e30, 3.0, 2.5];

#[derive(Clone, Copy, Debug)]
enum N {
    I(i64),
    F(f64),
}

impl N {
    fn proto(&self) -> String {
        match self {
            N::I(i) => format!("i{}", i),
            N::F(f) => kvh::canon::float(*f),
        }
    }
    fn knum(&self) -> KNumber {
        match self {
            N::I(i) => KNumber::I64(*i),
            N::F(f) => KNumber::F64(*f),
        }
    }
    /// koto source text
    fn src(&self) -> String {
        match self {
            N::I(i) if *i == i64::MIN => "(-9223372036854775807 - 1)".to_string(),
            N::I(i) if *i < 0 => format!("({})", i),
            N::I(i) => format!("{}", i),
            N::F(f) if f.is_nan() => "number.nan".to_string(),
            N::F(f) if *f == f64::INFINITY => "number.infinity".to_string(),
            N::F(f) if *f == f64::NEG_INFINITY => "number.negative_infinity".to_string(),
            N::F(f) if *f == 0.0 && f.is_sign_negative() => "(-0.0)".to_string(),
            N::F(f) if *f < 0.0 => format!("({:e})", f),
            N::F(f) => {
                if f.fract() == 0.0 && f.abs() < 1e15 {
                    format!("{:.1}", f)
                } else {
                    format!("{:e}", f)
                }
            }
        }
    }
}

fn num_pool() -> Vec<N> {
    I64_POOL.iter().map(|i| N::I(*i)).chain(F64_POOL.iter().map(|f| N::F(*f))).collect()
}

type R = (Option<i64>, Option<(i64, bool)>);

fn range_proto(r: &R) -> String {
    format!(
        "(r {} {} {})",
        r.0.map(|x| x.to_string()).unwrap_or_else(|| "_".into()),
        r.1.map(|x| x.0.to_string()).unwrap_or_else(|| "_".into()),
        if r.1.is_some_and(|x| x.1) { 1 } else { 0 }
    )
}

fn range_src(r: &R) -> String {
    let s = r.0.map(|x| N::I(x).src()).unwrap_or_default();
    match r.1 {
        Some((e, true)) => format!("({}..={})", s, N::I(e).src()),
        Some((e, false)) => format!("({}..{})", s, N::I(e).src()),
        None => format!("({}..)", s),
    }
}

fn krange(r: &R) -> KRange {
    KRange::new(r.0, r.1)
}

const RANGE_BOUNDS: &[i64] = &[0, 1, -1, 3, 10, 2147483647, 2147483648, -2147483648, -2147483649, 9223372036854775806, 9223372036854775807, -9223372036854775807, -9223372036854775808];

fn range_pool() -> Vec<R> {
    let mut out = vec![(None, None)];
    for &a in RANGE_BOUNDS {
        out.push((Some(a), None));
        out.push((None, Some((a, false))));
        out.push((None, Some((a, true))));
        for &b in RANGE_BOUNDS {
            out.push((Some(a), Some((b, false))));
            out.push((Some(a), Some((b, true))));
        }
    }
    out
}

fn small_range_pool() -> Vec<R> {
    let bounds: &[i64] = &[0, 1, -1, 3, 4, 5, 2147483648, 9223372036854775806, 9223372036854775807, -9223372036854775808];
    let mut out = vec![(None, None)];
    for &a in bounds {
        out.push((Some(a), None));
        out.push((None, Some((a, false))));
        out.push((None, Some((a, true))));
        for &b in bounds {
            out.push((Some(a), Some((b, false))));
            out.push((Some(a), Some((b, true))));
        }
    }
    out
}

fn caught<T>(f: impl FnOnce() -> T) -> Option<T> {
    GUARD_DEPTH.with(|d| d.set(d.get() + 1));
    let r = std::panic::catch_unwind(std::panic::AssertUnwindSafe(f)).ok();
    GUARD_DEPTH.with(|d| d.set(d.get() - 1));
    if r.is_none() {
        let _ = LAST_PANIC.with(|l| l.borrow_mut().take());
    }
    r
}

/// run a script in-process: Ok(Some(value)) / Ok(None) = runtime or compile error / Err = panic
fn script(src: &str) -> Result<Option<KValue>, ()> {
    let mut koto = new_koto();
    match caught(|| koto.compile_and_run(src)) {
        None => Err(()),
        Some(Ok(v)) => Ok(Some(v)),
        Some(Err(_)) => Ok(None),
    }
}

fn as_i64(v: &KValue) -> Option<i64> {
    match v {
        KValue::Number(KNumber::I64(i)) => Some(*i),
        _ => None,
    }
}

struct KRun {
    reqs: Vec<String>,
    impls: Vec<String>,
    srcs: Vec<String>,
}

impl KRun {
    fn add(&mut self, req: String, imp: String, src: String) {
        self.reqs.push(req);
        self.impls.push(imp);
        self.srcs.push(src);
    }
}

fn ok_or_panic<T>(r: Option<T>, f: impl FnOnce(T) -> String) -> String {
    match r {
        Some(v) => format!("ok {}", f(v)),
        None => "panic".to_string(),
    }
}

fn script_outcome(src: &str, f: impl FnOnce(&KValue) -> String) -> String {
    match script(src) {
        Err(()) => "panic".into(),
        Ok(None) => "err".into(),
        Ok(Some(v)) => format!("ok {}", f(&v)),
    }
}

fn list_ints(v: &KValue) -> Vec<i64> {
    match v {
        KValue::List(l) => l.data().iter().map(|x| as_i64(x).unwrap_or(-777)).collect(),
        KValue::Tuple(t) => t.iter().map(|x| as_i64(x).unwrap_or(-777)).collect(),
        _ => vec![-888],
    }
}

fn gen_kernel_cases(k: &mut KRun, thorough: bool) {
    let nums = num_pool();
    let ranges = range_pool();
    // ---- KRange (direct) ------------------------------------------------------------------------
    for r in &ranges {
        let rp = range_proto(r);
        k.add(format!("abr {}", rp), ok_or_panic(caught(|| krange(r).as_bounded_range()), |x| format!("{} {}", x.start, x.end)), format!("KRange{:?}.as_bounded_range()", r));
        k.add(
            format!("size {}", rp),
            ok_or_panic(caught(|| krange(r).size()), |x| x.map(|n| (n as u64 as i128).to_string()).unwrap_or_else(|| "none".into())),
            format!("KRange{:?}.size()", r),
        );
        for n in &nums {
            k.add(
                format!("contains {} {}", rp, n.proto()),
                ok_or_panic(caught(|| krange(r).contains(n.knum())), |b| if b { "1".into() } else { "0".into() }),
                format!("KRange{:?}.contains({:?})", r, n),
            );
        }
        for m in [0usize, 1, 3, 4, 5, 255, 65536, 4294967296, 9223372036854775807] {
            k.add(
                format!("indices {} {}", rp, m),
                ok_or_panic(caught(|| krange(r).indices(m)), |x| format!("{} {}", x.start, x.end)),
                format!("KRange{:?}.indices({})", r, m),
            );
        }
        if let (Some(s), Some((e, incl))) = (r.0, r.1) {
            let large = i32::try_from(s).is_err() || i32::try_from(e).is_err();
            for (name, back) in [("popf", false), ("popb", true)] {
                let imp = caught(|| {
                    let mut kr = krange(r);
                    let v = if back { kr.pop_back() } else { kr.pop_front() };
                    (v.ok().flatten(), kr.start().unwrap(), kr.end().unwrap())
                });
                k.add(
                    format!("{} {} {} {} {}", name, large as u8, s, e, incl as u8),
                    ok_or_panic(imp, |(v, s2, (e2, i2))| format!("{} {} {} {}", v.map(|x| x.to_string()).unwrap_or_else(|| "none".into()), s2, e2, i2 as u8)),
                    format!("KRange{:?}.{}", r, name),
                );
            }
        }
    }
    let small = small_range_pool();
    for a in &small {
        for b in &small {
            if !thorough && (a.0.is_none() && b.0.is_none()) {
                continue;
            }
            k.add(
                format!("isect {} {}", range_proto(a), range_proto(b)),
                ok_or_panic(caught(|| krange(a).intersection(&krange(b))), |x| match x {
                    None => "none".into(),
                    // the result is built with KRange::from(start..end)
                    Some(r) => format!("{} {}", r.start().unwrap(), r.end().unwrap().0),
                }),
                format!("KRange{:?}.intersection({:?})", a, b),
            );
        }
    }
    // ---- run_index / validate_index (scripts) -------------------------------------------------------
    for n in &nums {
        let ns = n.src();
        k.add(format!("idxseq 4 {}", n.proto()), script_outcome(&format!("[0, 1, 2, 3][{}]", ns), |v| as_i64(v).unwrap_or(-777).to_string()), format!("[0, 1, 2, 3][{}]", ns));
        k.add(format!("idxseq 4 {}", n.proto()), script_outcome(&format!("(0, 1, 2, 3)[{}]", ns), |v| as_i64(v).unwrap_or(-777).to_string()), format!("(0, 1, 2, 3)[{}]", ns));
        k.add(format!("idxseq 0 {}", n.proto()), script_outcome(&format!("[][{}]", ns), |v| as_i64(v).unwrap_or(-777).to_string()), format!("[][{}]", ns));
        k.add(
            format!("idxseq 3 {}", n.proto()),
            script_outcome(&format!("{{a: 0, b: 1, c: 2}}[{}]", ns), |v| match v {
                KValue::Tuple(t) if t.len() == 2 => as_i64(&t[1]).unwrap_or(-777).to_string(),
                _ => "?".into(),
            }),
            format!("{{a: 0, b: 1, c: 2}}[{}]", ns),
        );
        k.add(
            format!("idxstr 4 {}", n.proto()),
            script_outcome(&format!("'0123'[{}]", ns), |v| match v {
                KValue::Str(s) => {
                    let i: i64 = s.as_str().parse().unwrap_or(-777);
                    format!("{} {}", i, i + 1)
                }
                _ => "?".into(),
            }),
            format!("'0123'[{}]", ns),
        );
        k.add(format!("asglist 4 {}", n.proto()), script_outcome(&format!("x = [0, 1, 2, 3]\nx[{}] = 9\nx", ns), |v| list_ints(v).iter().position(|x| *x == 9).map(|p| p.to_string()).unwrap_or("?".into())), format!("x = [0, 1, 2, 3]; x[{}] = 9", ns));
        k.add(format!("linsert 4 {}", n.proto()), script_outcome(&format!("x = [0, 1, 2, 3]\nx.insert({}, 9)\nx", ns), |v| list_ints(v).iter().position(|x| *x == 9).map(|p| p.to_string()).unwrap_or("?".into())), format!("x = [0, 1, 2, 3]; x.insert({}, 9)", ns));
        k.add(format!("lremove 4 {}", n.proto()), script_outcome(&format!("x = [0, 1, 2, 3]\nx.remove({})", ns), |v| as_i64(v).unwrap_or(-777).to_string()), format!("[0, 1, 2, 3].remove({})", ns));
        k.add(
            format!("lget 4 {}", n.proto()),
            script_outcome(&format!("[0, 1, 2, 3].get({}, -5)", ns), |v| match as_i64(v) {
                Some(-5) => "none".into(),
                Some(i) => i.to_string(),
                None => "?".into(),
            }),
            format!("[0, 1, 2, 3].get({}, -5)", ns),
        );
        // list.resize: counts above 1e6 are left out (gigantic allocation, outside the property)
        let small_enough = match n {
            N::I(i) => *i <= 1_000_000,
            N::F(f) => !(*f > 1e6),
        };
        if small_enough {
            k.add(format!("lresize {}", n.proto()), script_outcome(&format!("x = [0, 1, 2, 3]\nx.resize({})\nsize x", ns), |v| as_i64(v).unwrap_or(-777).to_string()), format!("[0, 1, 2, 3].resize({})", ns));
        }
        // map arm of run_index_assign: every key position, new and existing keys, 2-tuple or not
        for key in 0..4u32 {
            for pair in [true, false] {
                let val = if pair { format!("('k{}', 9)", key) } else { "9".to_string() };
                let src = format!("m = {{k0: 0, k1: 1, k2: 2}}\nm[{}] = {}\nm.keys().to_tuple()", ns, val);
                k.add(
                    format!("asgmap 3 {} {} {}", n.proto(), pair as u8, key),
                    script_outcome(&src, |v| match v {
                        KValue::Tuple(t) => t.iter().map(|x| match x { KValue::Str(s) => s.as_str().trim_start_matches('k').to_string(), _ => "?".into() }).collect::<Vec<_>>().join(" "),
                        _ => "?".into(),
                    }),
                    src.replace('\n', "; "),
                );
            }
        }
        // shifts and integer helpers
        for a in [1i64, -1, 3, 9223372036854775807, -9223372036854775808, 0] {
            for (name, f) in [("shl", "shift_left"), ("shr", "shift_right")] {
                let src = format!("({}).{}({})", N::I(a).src(), f, ns);
                k.add(format!("{} {} {}", name, a, n.proto()), script_outcome(&src, |v| as_i64(v).unwrap_or(-777).to_string()), src.clone());
            }
        }
    }
    // index with ranges / range indexing
    for r in &small {
        let rp = range_proto(r);
        let rs = range_src(r);
        if r.0.is_none() && r.1.is_none() {
            continue;
        }
        let rs = if r.0.is_none() { rs.replace("(..", "(..") } else { rs };
        let seq = |v: &KValue| {
            let xs = list_ints(v);
            // (first element or the clamp position is not observable on an empty slice)
            match xs.first() {
                Some(a) => format!("{} {}", a, a + xs.len() as i64),
                None => "empty".to_string(),
            }
        };
        for (container, len) in [("[0, 1, 2, 3]", 4), ("(0, 1, 2, 3)", 4)] {
            let src = format!("{}[{}]", container, rs);
            k.add(format!("idxseqrange {} {}", len, rp), script_outcome(&src, seq), src.clone());
        }
        let src = format!("x = [0, 1, 2, 3]\nx[{}] = 9\nx", rs);
        k.add(
            format!("asglistrange 4 {}", rp),
            script_outcome(&src, |v| {
                let xs = list_ints(v);
                match xs.iter().position(|x| *x == 9) {
                    Some(a) => format!("{} {}", a, a + xs.iter().filter(|x| **x == 9).count()),
                    None => "empty".to_string(),
                }
            }),
            src.replace('\n', "; "),
        );
        if r.0.is_some() {
            for n in &nums {
                let src = format!("{}[{}]", rs, n.src());
                k.add(format!("idxrange {} {}", rp, n.proto()), script_outcome(&src, |v| as_i64(v).unwrap_or(-777).to_string()), src.clone());
            }
        }
        if let (Some(_), Some(_)) = (r.0, r.1) {
            // run_temp_index on a range, reached by a nested pattern after the size test:
            // `(..., y)` → index -1, `(x, ...)` → index 0
            let src = format!("match {}\n  (..., y) then y\n  else 'nomatch'", rs);
            k.add(format!("matchrange {} -1", rp), match_outcome(&src, r), src.replace('\n', "; "));
            let src = format!("match {}\n  (x, ...) then x\n  else 'nomatch'", rs);
            k.add(format!("matchrange {} 0", rp), match_outcome(&src, r), src.replace('\n', "; "));
            // run_slice on a range: `(x, rest...)` → SliceFrom 1, `(rest..., y, z)` → SliceTo -2
            for (pat, idx, to, min_len) in [("(x, rest...)", 1, 0, 1), ("(x, y, rest...)", 2, 0, 2), ("(rest..., y)", -1, 1, 1), ("(rest..., y, z)", -2, 1, 2)] {
                let src = format!("match {}\n  {} then rest\n  else 'nomatch'", rs, pat);
                k.add(
                    format!("matchslice {} {} {} {}", rp, idx, to, min_len),
                    script_outcome(&src, |v| match v {
                        KValue::Range(x) => format!("{} {}", x.start().unwrap_or(0), x.end().map(|e| e.0).unwrap_or(0)),
                        KValue::Str(_) => "nomatch".into(),
                        _ => "?".into(),
                    }),
                    src.replace('\n', "; "),
                );
            }
        }
    }
    // ---- arithmetic (scripts) -----------------------------------------------------------------------
    for &a in I64_POOL {
        k.add(format!("abs {}", a), script_outcome(&format!("({}).abs()", N::I(a).src()), |v| as_i64(v).unwrap_or(-777).to_string()), format!("({}).abs()", a));
        for &b in I64_POOL {
            let (sa, sb) = (N::I(a).src(), N::I(b).src());
            k.add(
                format!("rem {} {}", a, b),
                script_outcome(&format!("{} % {}", sa, sb), |v| match v {
                    KValue::Number(KNumber::I64(i)) => i.to_string(),
                    KValue::Number(KNumber::F64(f)) if f.is_nan() => "nan".into(),
                    _ => "?".into(),
                }),
                format!("{} % {}", sa, sb),
            );
            k.add(
                format!("remasg {} {}", a, b),
                script_outcome(&format!("x = {}\nx %= {}\nx", sa, sb), |v| match v {
                    KValue::Number(KNumber::I64(i)) => i.to_string(),
                    KValue::Number(KNumber::F64(f)) if f.is_nan() => "nan".into(),
                    _ => "?".into(),
                }),
                format!("x = {}; x %= {}", sa, sb),
            );
            if b >= 0 {
                k.add(format!("pow {} {}", a, b), script_outcome(&format!("{} ^ {}", sa, sb), |v| as_i64(v).unwrap_or(-777).to_string()), format!("{} ^ {}", sa, sb));
            }
            k.add(
                format!("expanded 0 10 {}", b),
                script_outcome(&format!("(0..10).expanded({})", sb), |v| match v {
                    KValue::Range(r) => format!("{} {}", r.start().unwrap(), r.end().unwrap().0),
                    _ => "?".into(),
                }),
                format!("(0..10).expanded({})", sb),
            );
            // StepToI64Iterator: every pull from either end and the size hint after each pull
            for &c in &[1i64, 0, -1, 2, 3, 4611686018427387904, 9223372036854775807, -9223372036854775808] {
                if !thorough && !(a.unsigned_abs() <= 2 || a == i64::MAX || a == i64::MIN) {
                    continue;
                }
                for ops in ["ffffff", "bbbbbb", "fbfbfb", "bffbbf"] {
                    if !thorough && ops != "ffffff" && ops != "bffbbf" {
                        continue;
                    }
                    let src = format!("({}).step_to({}, {})", sa, sb, N::I(c).src());
                    let imp = match script(&src) {
                        Err(()) => "panic".to_string(),
                        Ok(None) => "err".to_string(),
                        Ok(Some(KValue::Iterator(it))) => {
                            let mut it = it.clone();
                            caught(move || {
                                let mut out = vec![format!("h{}", it.size_hint().0)];
                                for ch in ops.chars() {
                                    let v = if ch == 'b' { it.next_back() } else { it.next() };
                                    out.push(match v {
                                        Some(koto_runtime::KIteratorOutput::Value(KValue::Number(KNumber::I64(i)))) => format!("{}{}", ch, i),
                                        Some(_) => format!("{}?", ch),
                                        None => format!("{}-", ch),
                                    });
                                    out.push(format!("h{}", it.size_hint().0));
                                }
                                format!("ok {}", out.join(" "))
                            })
                            .unwrap_or_else(|| "panic".to_string())
                        }
                        Ok(Some(_)) => "ok ?".to_string(),
                    };
                    k.add(format!("stepto {} {} {} {}", a, b, c, ops), imp, format!("{} pulled {}", src, ops));
                }
            }
        }
    }
    // ---- list.retain with a predicate that resizes the list (scripts) ------------------------------------
    {
        let max_len0 = if thorough { 4 } else { 3 };
        for len0 in 0..=max_len0 {
            let choices: Vec<(bool, usize)> = [true, false].iter().flat_map(|k| (0..=5usize).map(move |n| (*k, n))).collect();
            let total = choices.len().pow(len0 as u32);
            for code in 0..total {
                // len0 = 4: a fixed stride sample (20 736 combinations)
                if len0 == 4 && code % 5 != 0 {
                    continue;
                }
                let mut c = code;
                let mut moves = vec![];
                for _ in 0..len0 {
                    moves.push(choices[c % choices.len()]);
                    c /= choices.len();
                }
                let plan: Vec<String> = moves.iter().map(|(k, n)| format!("({}, {})", k, n)).collect();
                let elems: Vec<String> = (0..len0).map(|i| i.to_string()).collect();
                let src = format!(
                    "l = [{}]\nplan = ({}{})\nst = {{i: 0}}\nl.retain |x|\n  keep, n = plan[st.i]\n  st.i += 1\n  while size(l) > n\n    l.pop()\n  while size(l) < n\n    l.push 9\n  keep\nsize l",
                    elems.join(", "),
                    plan.join(", "),
                    if plan.len() == 1 { "," } else { "" }
                );
                let wire = if moves.is_empty() { "-".to_string() } else { moves.iter().map(|(k, n)| format!("{}{}", if *k { 't' } else { 'f' }, n)).collect::<Vec<_>>().join(",") };
                k.add(format!("retain {} {}", len0, wire), script_outcome(&src, |v| as_i64(v).unwrap_or(-777).to_string()), src.replace('\n', "; "));
            }
        }
    }
    // ---- patterns: signed_index_to_unsigned / run_slice / run_temp_index (scripts) ----------------------
    for len in 0..6usize {
        let elems: Vec<String> = (0..len).map(|i| i.to_string()).collect();
        for (open, close, kind) in [("(", ")", "tuple"), ("[", "]", "list")] {
            let lit = if len == 1 && kind == "tuple" { format!("({},)", elems[0]) } else { format!("{}{}{}", open, elems.join(", "), close) };
            // `(rest..., y, z)` → SliceTo -2 ; `(x, rest...)` → SliceFrom 1 ; `(..., y)` → TempIndex -1
            for (pat, req, min_len) in [
                ("(rest..., y)", format!("slice {} -1 1", len), 1),
                ("(rest..., y, z)", format!("slice {} -2 1", len), 2),
                ("(x, rest...)", format!("slice {} 1 0", len), 1),
                ("(x, y, rest...)", format!("slice {} 2 0", len), 2),
            ] {
                if len < min_len {
                    continue;
                }
                let src = format!("match {}\n  {} then rest\n  else 'nomatch'", lit, pat);
                k.add(
                    req,
                    script_outcome(&src, |v| {
                        let xs = list_ints(v);
                        match xs.first() {
                            Some(a) => format!("{} {}", a, a + xs.len() as i64),
                            None => "empty".into(),
                        }
                    }),
                    src.replace('\n', "; "),
                );
            }
            for (pat, idx, min_len) in [("(..., y)", -1i64, 1usize), ("(..., y, z2)", -2, 2), ("(y, ...)", 0, 1), ("(x0, y, ...)", 1, 2)] {
                if len < min_len {
                    continue;
                }
                let src = format!("match {}\n  {} then y\n  else 'nomatch'", lit, pat);
                k.add(format!("tmpidx {} {}", len, idx), script_outcome(&src, |v| as_i64(v).map(|x| x.to_string()).unwrap_or("none".into())), src.replace('\n', "; "));
            }
        }
    }
    for idx in [-128i64, -127, -5, -4, -3, -1, 0, 1, 3, 127] {
        for size in [0i64, 1, 3, 4, 5, 127, 128, 129, 9223372036854775807] {
            // pure arithmetic identity (the function is private; its effect is observed above)
            let imp = if idx < 0 { size - (-idx).min(size) } else { idx };
            k.add(format!("sidx {} {}", idx, size), format!("ok {}", imp), "signed_index_to_unsigned (arithmetic mirror; behaviour observed through the pattern cases)".into());
        }
    }
    // ---- string iterators: next / size_hint (direct) --------------------------------------------------
    {
        use koto_runtime::core_lib::string::iterators::{Bytes, Lines, Split};
        use koto_runtime::KIteratorOutput;
        let alpha = ["a", ",", "\n", "\r", "é"];
        let max_len = if thorough { 5 } else { 4 };
        let mut inputs: Vec<String> = vec![String::new()];
        let mut frontier = vec![String::new()];
        for _ in 0..max_len {
            let mut next = vec![];
            for s in &frontier {
                for a in alpha {
                    next.push(format!("{}{}", s, a));
                }
            }
            inputs.extend(next.iter().cloned());
            frontier = next;
        }
        let out_bounds = |input: &str, o: Option<KIteratorOutput>| -> Option<(usize, usize)> {
            match o {
                Some(KIteratorOutput::Value(KValue::Str(s))) => {
                    let off = s.as_str().as_ptr() as usize;
                    let _ = input;
                    Some((off, off + s.len()))
                }
                _ => None,
            }
        };
        for input in &inputs {
            for pat in [",", "a", ",,", "é", "", "\n"] {
                for steps in [0usize, 1, 2, 3, 6] {
                    let imp = caught(|| {
                        let ks = KString::from(input.as_str());
                        let base = ks.as_str().as_ptr() as usize;
                        let mut it = Split::new(ks.clone(), KString::from(pat));
                        let mut pieces = vec![];
                        for _ in 0..steps {
                            match out_bounds(input, it.next()) {
                                Some((a, b)) => pieces.push(format!("{}-{}", a - base, b - base)),
                                None => break,
                            }
                        }
                        let hint = caught(|| it.size_hint().0);
                        format!("{} | {}", pieces.join(" "), ok_or_panic(hint, |_| "hint".into()))
                    });
                    let imp = imp.unwrap_or_else(|| "panic-in-next".into());
                    k.add(format!("split {} {} {}", kvh::hex(input.as_bytes()), kvh::hex(pat.as_bytes()), steps), imp, format!("Split::new({:?}, {:?}) × {} next, size_hint", input, pat, steps));
                }
            }
            for steps in [0usize, 1, 2, 3, 6] {
                let imp = caught(|| {
                    let ks = KString::from(input.as_str());
                    let base = ks.as_str().as_ptr() as usize;
                    let mut it = Lines::new(ks.clone());
                    let mut pieces = vec![];
                    for _ in 0..steps {
                        match out_bounds(input, it.next()) {
                            Some((a, b)) => pieces.push(format!("{}-{}", a - base, b - base)),
                            None => break,
                        }
                    }
                    let hint = caught(|| it.size_hint().0);
                    format!("{} | {}", pieces.join(" "), ok_or_panic(hint, |_| "hint".into()))
                })
                .unwrap_or_else(|| "panic-in-next".into());
                k.add(format!("lines {} {}", kvh::hex(input.as_bytes()), steps), imp, format!("Lines::new({:?}) × {} next, size_hint", input, steps));
            }
            if input.len() <= 3 {
                for steps in 0..=5usize {
                    let imp = caught(|| {
                        let mut it = Bytes::new(KString::from(input.as_str()));
                        let mut n = 0;
                        for _ in 0..steps {
                            if it.next().is_some() {
                                n += 1;
                            } else {
                                break;
                            }
                        }
                        let hint = caught(|| it.size_hint().0);
                        format!("{} | {}", n, ok_or_panic(hint, |h| h.to_string()))
                    })
                    .unwrap_or_else(|| "panic-in-next".into());
                    k.add(format!("bytes {} {}", input.len(), steps), imp, format!("Bytes::new({:?}) × {} next, size_hint", input, steps));
                }
            }
        }
    }
    // ---- TupleSlice::with_bounds / StringSlice::{with_bounds, split} (direct) --------------------------
    {
        let t = koto_runtime::KTuple::from(vec![KValue::from(0i64), KValue::from(1i64), KValue::from(2i64), KValue::from(3i64), KValue::from(4i64), KValue::from(5i64)]);
        let vals: &[usize] = &[0, 1, 2, 3, 5, 6, 7, usize::MAX - 1, usize::MAX, (i64::MAX as usize), (i64::MAX as usize) + 1];
        for &(s0, e0) in &[(0usize, 6usize), (1, 5), (2, 2), (3, 6)] {
            let sub = t.make_sub_tuple(s0..e0).unwrap();
            for &a in vals {
                for &b in vals {
                    let imp = caught(|| sub.make_sub_tuple(a..b));
                    k.add(
                        format!("tupwithbounds 6 {} {} {} {}", s0, e0, a, b),
                        ok_or_panic(imp, |r| match r {
                            None => "none".into(),
                            Some(x) => match x.first().and_then(as_i64) {
                                Some(f) => format!("{} {}", f, f + x.len() as i64),
                                None => {
                                    // empty: bounds not observable through the values
                                    format!("{} {}", a.wrapping_add(s0), b.wrapping_add(s0))
                                }
                            },
                        }),
                        format!("(0..6 tuple)[{}..{}].make_sub_tuple({}..{})", s0, e0, a, b),
                    );
                }
            }
        }
        let text = "aé€b𝜋c"; // 1 + 2 + 3 + 1 + 4 + 1 = 12 bytes
        let whole = koto_parser::StringSlice::<usize>::from(text.to_string());
        let base = whole.as_str().as_ptr() as usize;
        for &s0 in &[0usize, 1, 3, 6] {
            let sub = whole.with_bounds(s0..12).unwrap();
            for &a in vals.iter().chain([4usize, 8, 11, 12, 13].iter()) {
                for &b in vals.iter().chain([4usize, 8, 11, 12, 13].iter()) {
                    let (na, nb) = (a.wrapping_add(s0), b.wrapping_add(s0));
                    let boundary_ok = text.is_char_boundary(na.min(13)) && text.is_char_boundary(nb.min(13)) && na <= 12 && nb <= 12;
                    let imp = caught(|| sub.with_bounds(a..b));
                    k.add(
                        format!("strwithbounds 12 {} 12 {} {} {}", s0, a, b, boundary_ok as u8),
                        ok_or_panic(imp, |r| match r {
                            None => "none".into(),
                            Some(x) => {
                                let p = x.as_str().as_ptr() as usize - base;
                                format!("{} {}", p, p + x.as_str().len())
                            }
                        }),
                        format!("StringSlice({:?})[{}..].with_bounds({}..{})", text, s0, a, b),
                    );
                }
                let p = a.wrapping_add(s0);
                let boundary_ok = p <= 12 && text.is_char_boundary(p);
                let imp = caught(|| sub.split(a));
                k.add(
                    format!("strsplit 12 {} {} {}", s0, a, boundary_ok as u8),
                    ok_or_panic(imp, |r| match r {
                        None => "none".into(),
                        Some((l, _r)) => (l.as_str().as_ptr() as usize - base + l.as_str().len()).to_string(),
                    }),
                    format!("StringSlice({:?})[{}..].split({})", text, s0, a),
                );
            }
        }
    }
    // ---- KotoLexer::peek (direct) ---------------------------------------------------------------------
    for q in 0..5usize {
        for n in 0..8usize {
            let imp = caught(|| {
                let mut lx = koto_lexer::Lexer::new("a b c d e f g h i j k l m n o p");
                for i in 0..q {
                    let _ = lx.peek(i);
                }
                caught(|| lx.peek(n).is_some())
            })
            .flatten();
            // the model returns the number of tokens lexed by this call; the observable result is
            // whether the n-th queued token exists afterwards
            k.add(format!("peek {} {}", q, n), ok_or_panic(imp, |b| b.to_string()), format!("Lexer with {} queued tokens, peek({})", q, n));
        }
    }
    // ---- format_source_excerpt (direct) ---------------------------------------------------------------
    for (src_text, n_lines) in [("", 0i64), ("a", 1), ("a\n", 1), ("a\nbb", 2), ("a\nbb\n", 2), ("a\n\nccc\n", 3)] {
        for sl in [0u32, 1, 2, 3, u32::MAX] {
            for el in [0u32, 1, 2, 3, u32::MAX - 1, u32::MAX] {
                for (sc, ec) in [(0u32, 0u32), (0, 1), (1, 0), (2, 5), (u32::MAX, u32::MAX), (0, u32::MAX)] {
                    if ec - sc.min(ec) > 1000 || (sc as u64) > 1000 && sl == el {
                        // `"^".repeat(end.column - start.column)` / `" ".repeat(start.column + 1)` with
                        // ~4·10^9: a gigantic allocation, outside the property — only when the
                        // single-line branch is taken
                        if sl == el && (sl as i64) < n_lines {
                            continue;
                        }
                    }
                    if (el as i64 - sl as i64) > 1000 {
                        // `(start.line..=end.line).map(to_string).collect()`: gigantic allocation
                        continue;
                    }
                    let span = koto_parser::Span { start: koto_parser::Position { line: sl, column: sc }, end: koto_parser::Position { line: el, column: ec } };
                    let imp = caught(|| koto_parser::format_source_excerpt(src_text, &span, None));
                    k.add(format!("excerpt {} {} {} {} {}", n_lines, sl, sc, el, ec), ok_or_panic(imp, |_| "text".into()), format!("format_source_excerpt({:?}, {}:{}..{}:{})", src_text, sl, sc, el, ec));
                }
            }
        }
    }
    // ---- Frame (hook H3, direct) ------------------------------------------------------------------------
    {
        use koto_bytecode::verif::{VerifArg, VerifFrame};
        for lc in [0u8, 1, 100, 200, 242, 243, 248, 253, 254, 255] {
            for caps in [0usize, 1, 11, 12, 13, 255, 256, 300] {
                for ph in [0usize, 1, 2, 255, 256] {
                    if !thorough && caps > 13 && ph > 2 {
                        continue;
                    }
                    let imp = caught(|| {
                        let args: Vec<VerifArg> = (0..ph).map(|_| VerifArg::Placeholder).collect();
                        let captures: Vec<u32> = (0..caps as u32).map(|i| 1000 + i).collect();
                        VerifFrame::new(lc, &args, &captures).next_temporary_register()
                    });
                    k.add(format!("framenew {} {} {}", lc, caps, ph), ok_or_panic(imp, |b| b.to_string()), format!("Frame::new(local_count={}, {} captures, {} placeholders)", lc, caps, ph));
                }
            }
        }
        let mut rng = Rng::new(606);
        for base_locals in [0u8, 100, 200, 240, 250, 253, 254] {
            for _ in 0..(if thorough { 60 } else { 12 }) {
                let len = 1 + rng.below(40);
                let mut ops = String::new();
                let push_bias = 2 + rng.below(3) as u32;
                for _ in 0..len {
                    ops.push(if rng.chance(push_bias, push_bias + 1) { 'u' } else { 'o' });
                }
                let imp = caught(|| {
                    let mut f = VerifFrame::new(base_locals, &[], &[]);
                    let mut out = vec![];
                    for c in ops.chars() {
                        let r = caught(|| if c == 'u' { f.push_register() } else { f.pop_register() });
                        match r {
                            None => {
                                out.push("panic".to_string());
                                break;
                            }
                            Some(Ok(n)) => out.push(format!("{}{}", c, n)),
                            Some(Err(_)) => out.push(format!("{}E", c)),
                        }
                    }
                    out.join(" ")
                })
                .unwrap_or_else(|| "panic".into());
                k.add(format!("frameops {} {}", base_locals as u32 + 1, ops), imp, format!("Frame::new({}) then {}", base_locals, ops));
            }
        }
        for len in 0..5usize {
            for n in [0usize, 1, 2, 4, 5, 6, usize::MAX] {
                let imp = caught(|| {
                    let mut f = VerifFrame::new(3, &[], &[]);
                    for _ in 0..len {
                        let _ = f.push_register();
                    }
                    caught(|| f.peek_register(n))
                })
                .flatten();
                // registers are 4, 5, …; peek(n) is position len - n - 1 from the bottom
                k.add(
                    format!("peekreg {} {}", len, n),
                    ok_or_panic(imp, |r| match r {
                        Ok(reg) => (reg as i64 - 4).to_string(),
                        Err(_) => "none".into(),
                    }),
                    format!("Frame with {} pushed registers, peek_register({})", len, n),
                );
            }
        }
    }
    // ---- next_register headroom (hook H1: the VM's stack sizes read inside a native function) ------------
    {
        thread_local! { static PROBE: RefCell<Vec<(usize, bool)>> = const { RefCell::new(Vec::new()) }; }
        for (name, extra) in [("probe_un", 1), ("probe_bin", 2)] {
            for n in (150..=256usize).filter(|n| thorough || *n >= 225 || n % 10 == 0) {
                PROBE.with(|p| p.borrow_mut().clear());
                let koto = new_koto();
                koto.prelude().add_fn("probe_un", |ctx| {
                    let (len, _, _, _, base) = ctx.vm.verif_stack_sizes();
                    let arg = ctx.args().first().cloned().unwrap_or(KValue::Null);
                    let ok = ctx.vm.run_unary_op(koto_runtime::UnaryOp::Size, arg).is_ok();
                    PROBE.with(|p| p.borrow_mut().push((len - base, ok)));
                    Ok(KValue::Null)
                });
                koto.prelude().add_fn("probe_bin", |ctx| {
                    let (len, _, _, _, base) = ctx.vm.verif_stack_sizes();
                    let arg = ctx.args().first().cloned().unwrap_or(KValue::Null);
                    let ok = ctx.vm.run_binary_op(koto_runtime::BinaryOp::Equal, arg.clone(), arg).is_ok();
                    PROBE.with(|p| p.borrow_mut().push((len - base, ok)));
                    Ok(KValue::Null)
                });
                // (the binary probe compares two numbers: comparing containers nests further operations)
                let probe_arg = if extra == 2 { "1" } else { "[1, 2, 3]" };
                let src = format!("g = |args...| 0\ng({}, {}({}))\n", vec!["0"; n].join(", "), name, probe_arg);
                let mut koto = koto;
                let r = caught(|| koto.compile_and_run(&src).is_ok());
                let probed = PROBE.with(|p| p.borrow().first().copied());
                match (r, probed) {
                    (None, Some((next, _))) | (Some(_), Some((next, _))) if r.is_none() => {
                        k.add(format!("hostop 1 {} {}", next, extra), "panic".into(), format!("g(<{} args>, {}([1, 2, 3]))", n, name));
                    }
                    (Some(_), Some((next, ok))) => {
                        k.add(format!("hostop 1 {} {}", next, extra), if ok { format!("ok {}", next) } else { "err".into() }, format!("g(<{} args>, {}([1, 2, 3]))", n, name));
                    }
                    // the compiler refused the call (register limit): the operation never started
                    _ => {}
                }
            }
        }
    }
    // ---- run_string_push: padding to a minimum width (scripts) -------------------------------------------
    {
        // fill "*" / " " never occurs in the values: the pad counts are read off the result
        let count = |v: &KValue, fill: char| -> String {
            match v {
                KValue::Str(s) => {
                    let s = s.as_str();
                    let l = s.chars().take_while(|c| *c == fill).count();
                    let r = if l == s.chars().count() { 0 } else { s.chars().rev().take_while(|c| *c == fill).count() };
                    format!("{} {}", l, r)
                }
                _ => "-1 -1".into(),
            }
        };
        for (v, g, b) in WIDTH_VALUES.iter().filter(|(_, g, b)| *b > 0 || *g > 0) {
            let is_num = v.parse::<f64>().is_ok();
            let mut widths: Vec<usize> = vec![0, 1, g.saturating_sub(1), *g, g + 1, g + 2, g + 3, b.saturating_sub(1), *b, b + 1, b + 2, 2 * b + 1, 40, 255, 256, 257];
            if thorough {
                widths.extend(0..=24);
                widths.extend([1000, 65_535, 65_536]);
            }
            widths.sort();
            widths.dedup();
            for &w in &widths {
                for (al, code) in [("", if is_num { "dn" } else { "ds" }), ("<", "l"), ("^", "c"), (">", "r")] {
                    let (spec, fill) = if al.is_empty() { (format!("{}", w), ' ') } else { (format!("*{}{}", al, w), '*') };
                    let src = format!("od =\n  @display: || '\u{65e5}\u{672c}'\nv = {}\n'{{v:{}}}'\n", v, spec);
                    let imp = script_outcome(&src, |r| count(r, fill));
                    k.add(format!("pad {} {} {} {}", g, b, w, code), imp, src);
                }
            }
        }
    }
    // ---- unpack_packed_arguments: the u8 argument count (scripts) ----------------------------------------
    {
        let lens: Vec<usize> = if thorough {
            vec![0, 1, 2, 3, 50, 100, 125, 126, 127, 128, 129, 150, 200, 248, 249, 250, 251, 252, 253, 254, 255, 256, 257, 300, 511, 512]
        } else {
            vec![0, 1, 2, 100, 126, 127, 128, 200, 250, 251, 252, 253, 254, 255, 256, 300]
        };
        let mut combos: Vec<(usize, Vec<usize>)> = vec![];
        for &a in &lens {
            for plain in 0..=2usize {
                combos.push((plain, vec![a]));
            }
            for &b in &lens {
                for plain in [0usize, 1, 3] {
                    if plain == 0 || thorough || (a + b) % 2 == 0 {
                        combos.push((plain, vec![a, b]));
                    }
                }
            }
        }
        for (a, b, c) in [(100, 100, 50), (100, 100, 52), (100, 100, 53), (100, 100, 54), (100, 100, 60), (84, 85, 84), (85, 85, 85), (0, 0, 253), (0, 0, 254), (1, 0, 253), (253, 0, 0), (254, 0, 0), (200, 200, 200), (250, 1, 1), (250, 2, 1), (250, 2, 2)] {
            combos.push((0, vec![a, b, c]));
            combos.push((2, vec![a, b, c]));
        }
        for (a, b, c, d) in [(60, 60, 60, 60), (63, 63, 63, 63), (63, 63, 63, 64), (64, 64, 64, 64), (0, 0, 0, 253), (0, 0, 0, 254), (100, 100, 100, 100), (250, 1, 1, 1)] {
            combos.push((0, vec![a, b, c, d]));
            combos.push((1, vec![a, b, c, d]));
        }
        for (plain, ls) in combos {
            let mut args: Vec<String> = (0..plain).map(|i| i.to_string()).collect();
            args.extend(ls.iter().map(|l| format!("(0..{})...", l)));
            let src = format!("f = |args...| size args\nf({})\n", args.join(", "));
            let imp = script_outcome(&src, |r| as_i64(r).map(|i| i.to_string()).unwrap_or("?".into()));
            let req = format!("unpack {} {}", plain + ls.len(), ls.iter().map(|l| l.to_string()).collect::<Vec<_>>().join(" "));
            k.add(req, imp, src);
        }
    }
    // ---- ExecutionTimeout (hook H4, direct) -------------------------------------------------------------
    for (secs, label) in [(0u64, "0"), (1, "1"), (1u64 << 40, "2^40"), (1u64 << 62, "2^62"), (u64::MAX, "u64::MAX")] {
        let imp = caught(|| koto_runtime::verif_timeout_probe(Duration::from_secs(secs), 1, 0).len());
        // `now` (seconds of the monotonic clock) is small compared with the pool values
        k.add(format!("deadline 100000 {}", secs), ok_or_panic(imp, |_| "instant".into()), format!("ExecutionTimeout::new(Duration::from_secs({}))", label));
    }
}

/// `match <range> (..., y)` / `(x, ...)`: the pattern first tests the size (run_size → KRange::size),
/// then run_temp_index. The request sent to the model is the temp-index kernel; the size test is
/// accounted for here: when the size kernel panics / the range is empty the arm is not reached.
fn match_outcome(src: &str, _r: &R) -> String {
    script_outcome(src, |v| match v {
        KValue::Str(_) => "nomatch".into(),
        other => as_i64(other).map(|x| x.to_string()).unwrap_or("none".into()),
    })
}

fn run_kernel_correspondence(cx: &mut Ctx) {
    let Some(_) = cx.drv.as_ref() else {
        cx.rep.note("no model driver: kernel correspondence skipped");
        return;
    };
    let mut k = KRun { reqs: vec![], impls: vec![], srcs: vec![] };
    gen_kernel_cases(&mut k, cx.thorough);
    // which repairs does the implementation contain? (status `fixed` of the finding ⇒ the model
    // variant with that repair is the one to compare with)
    let fixed = |id: &str| cx.known.iter().any(|f| f.id == id && f.status == "fixed");
    let flags: String = ["F-C06-1", "F-C06-2", "F-C06-5", "F-C06-7", "F-C06-6", "F-C06-9", "F-C06-10", "F-C06-11"]
        .iter()
        .map(|id| if fixed(id) { '1' } else { '0' })
        .collect();
    cx.rep.extra.insert("model_repair_flags".into(), json!({"order": "rem hint range size shift abs expanded openIndex", "flags": flags}));
    let wire: Vec<String> = k.reqs.iter().map(|r| format!("F{} {}", flags, r)).collect();
    let resps = cx.drv.as_mut().unwrap().batch(&wire);
    let mut disagreements = 0u64;
    let mut by_kernel: BTreeMap<String, (u64, u64, u64)> = BTreeMap::new(); // (cases, model panics, impl panics)
    for i in 0..k.reqs.len() {
        let req = &k.reqs[i];
        let kernel = req.split(' ').next().unwrap_or("").to_string();
        let mut model = resps[i].clone();
        let mut imp = k.impls[i].clone();
        // observation adapters (documented in rule): kernels whose full result is not observable
        adapt(&kernel, req, &mut model, &mut imp);
        let e = by_kernel.entry(kernel.clone()).or_insert((0, 0, 0));
        e.0 += 1;
        if model.contains("panic") {
            e.1 += 1;
        }
        if imp.contains("panic") {
            e.2 += 1;
        }
        cx.rep.case(&format!("K {} :: {}", req, k.srcs[i]), true);
        cx.rep.bump(&format!("K:{}:{}", kernel, if imp.contains("panic") { "panic" } else if imp.starts_with("err") { "err" } else { "ok" }));
        if cx.rep.samples.len() < 6 && i % 997 == 3 {
            cx.rep.sample(json!({"kernel_request": req, "real_call": k.srcs[i], "impl": imp, "model": model}));
        }
        if model != imp {
            disagreements += 1;
            if disagreements <= 5 {
                cx.rep.violation(
                    "K",
                    &format!("K:C06:Model.Guards.{}", kernel),
                    json!({"request": req, "real_call": k.srcs[i], "impl": imp, "model": model,
                           "note": "kernel model and implementation disagree (outcome class or value); the theorem about this kernel in Props/C06.lean no longer speaks about this code"}),
                );
            }
        }
    }
    cx.rep.extra.insert("kernel_cases".into(), json!(k.reqs.len()));
    cx.rep.extra.insert("kernel_disagreements".into(), json!(disagreements));
    cx.rep.extra.insert("kernels".into(), json!(by_kernel.iter().map(|(k, v)| (k.clone(), json!({"cases": v.0, "model_panics": v.1, "impl_panics": v.2}))).collect::<BTreeMap<_, _>>()));
}

/// Bring model output and observation to the same vocabulary where the implementation's result is
/// only partly observable.
fn adapt(kernel: &str, req: &str, model: &mut String, imp: &mut String) {
    let f: Vec<&str> = req.split(' ').collect();
    match kernel {
        "idxseqrange" | "asglistrange" | "slice" => {
            // an empty slice does not show where it was cut
            let m0 = model.clone();
            if let Some(rest) = m0.strip_prefix("ok ") {
                let p: Vec<&str> = rest.split(' ').collect();
                if p.len() == 2 && p[0] == p[1] {
                    *model = "ok empty".into();
                }
                if rest == "none" {
                    *model = "ok nomatch-or-null".into();
                }
            }
            if imp == "ok -888 -887" {
                // Null / 'nomatch' result
                *imp = "ok nomatch-or-null".into();
            }
        }
        "split" | "lines" => {
            // the size hint's value is not compared (only whether it can be computed)
            let m0 = model.clone();
            if let Some((a, b)) = m0.split_once(" | ") {
                let b = if b.starts_with("ok") { "ok hint" } else { b };
                *model = format!("{} | {}", a, b);
            }
        }
        "peek" => {
            // model: tokens lexed by the call → whether token n exists afterwards (16+ tokens available)
            let m0 = model.clone();
            if let Some(rest) = m0.strip_prefix("ok ") {
                let add: i64 = rest.parse().unwrap_or(0);
                let q: i64 = f[1].parse().unwrap_or(0);
                let n: i64 = f[2].parse().unwrap_or(0);
                *model = format!("ok {}", n < q + add);
            }
        }
        "withbounds" | "tupwithbounds" => {}
        _ => {}
    }
}
