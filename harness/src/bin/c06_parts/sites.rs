// ---- the checked table of explicit panic sites (requests/C06-panic-site-table.md), re-counted on every run ----
//
// Census: every `unreachable!` / `.unwrap()` / `.expect(` / `panic!` / `assert…!` / `todo!` / `unimplemented!`
// outside comments and outside the trailing `#[cfg(test)]` module of the three files that run on arbitrary
// source text, keyed by (file, enclosing function, construct). The baseline below is what the table
// argues about; a (function, construct) pair whose count GREW, or a new pair, has not been argued: reported
// as a violation (the table no longer covers the code). Pairs that disappeared are noted only.
// Regenerate with `c06 --panic-sites` after re-reading the new sites and updating the table.

const PANIC_SITE_FILES: &[&str] = &["crates/bytecode/src/compiler.rs", "crates/parser/src/parser.rs", "crates/parser/src/error.rs"];
const PANIC_CONSTRUCTS: &[(&str, &str)] = &[
    ("unreachable!", "unreachable"), (".unwrap()", "unwrap"), (".expect(", "expect"), ("panic!(", "panic"), ("assert!(", "assert"), ("assert_eq!(", "assert"),
    ("assert_ne!(", "assert"), ("todo!(", "todo"), ("unimplemented!(", "unimplemented"),
];

include!("sites_baseline.rs");

fn panic_site_census(res: &mut SiteResolver) -> BTreeMap<(String, String, String), usize> {
    let mut out: BTreeMap<(String, String, String), usize> = BTreeMap::new();
    for rel in PANIC_SITE_FILES {
        let path = format!("{}/{}", repo_root(), rel);
        let lines: Vec<String> = match res.lines(&path) {
            Some(l) => l.clone(),
            None => {
                out.insert((rel.to_string(), "<file missing>".into(), "-".into()), 1);
                continue;
            }
        };
        for (i, l) in lines.iter().enumerate() {
            let t = l.trim_start();
            if t.starts_with("#[cfg(test)]") {
                break;
            }
            if t.starts_with("//") {
                continue;
            }
            let code = match t.find(" // ") {
                Some(p) => &t[..p],
                None => t,
            };
            for (pat, name) in PANIC_CONSTRUCTS {
                let n = code.matches(pat).count();
                if n > 0 {
                    let func = res.function_at(&path, (i + 1) as u32);
                    *out.entry((rel.to_string(), func, name.to_string())).or_insert(0) += n;
                }
            }
        }
    }
    out
}

fn check_panic_site_table(cx: &mut Ctx) {
    let mut res = SiteResolver::new();
    let census = panic_site_census(&mut res);
    let base: BTreeMap<(String, String, String), usize> = PANIC_SITE_BASELINE.iter().map(|(f, g, c, n)| ((f.to_string(), g.to_string(), c.to_string()), *n)).collect();
    let mut grown = vec![];
    let mut gone = vec![];
    for (k, n) in &census {
        let b = base.get(k).copied().unwrap_or(0);
        if *n > b {
            grown.push(format!("{} {} {}: {} (table: {})", k.0, k.1, k.2, n, b));
        }
    }
    for (k, b) in &base {
        let n = census.get(k).copied().unwrap_or(0);
        if n < *b {
            gone.push(format!("{} {} {}: {} (table: {})", k.0, k.1, k.2, n, b));
        }
    }
    cx.rep.extra.insert("panic_site_table".into(), json!({"sites_counted": census.values().sum::<usize>(), "pairs": census.len(), "baseline_pairs": base.len(), "grown": grown, "gone": gone}));
    cx.rep.bump("panic-site-table:checked");
    if !grown.is_empty() {
        cx.rep.violation("K", "C06:panic-site-table:unargued-site", json!({"sites": grown,
            "note": "explicit panic constructs (unreachable!/unwrap/expect/panic!/assert!) in compiler.rs / parser.rs / error.rs that the checked table requests/C06-panic-site-table.md does not argue about: read them, extend the table and the baseline (c06 --panic-sites)"}));
    }
    if !gone.is_empty() {
        cx.rep.note(format!("panic-site table: {} listed site(s) no longer exist (table can be trimmed): {:?}", gone.len(), gone));
    }
}
