// ---------------------------------------------------------------------------------------------
// Panic sites and known findings.
//
// A panic is identified by its *site*: (source file relative to /repo, enclosing function resolved
// by scanning that file at run time, message pattern) — line numbers are not stored, so unrelated
// edits to /repo do not break the match — plus the API through which the case reached it.
// For panic locations inside the Rust standard library (e.g. `wrapping_rem` by zero) the
// "function" is the innermost koto frame of the backtrace.
// ---------------------------------------------------------------------------------------------

#[derive(Clone, Debug, PartialEq, Eq, PartialOrd, Ord, Hash)]
struct Site {
    file: String,
    function: String,
}

struct SiteResolver {
    files: HashMap<String, Option<Vec<String>>>,
    cache: HashMap<(String, u32), String>,
}

fn ident_after<'a>(s: &'a str, kw: &str) -> Option<&'a str> {
    let i = s.find(kw)?;
    // keyword must be at a word boundary
    if i > 0 && s.as_bytes()[i - 1].is_ascii_alphanumeric() {
        return None;
    }
    let rest = s[i + kw.len()..].trim_start();
    let end = rest.find(|c: char| !(c.is_alphanumeric() || c == '_')).unwrap_or(rest.len());
    if end == 0 { None } else { Some(&rest[..end]) }
}

impl SiteResolver {
    fn new() -> Self {
        SiteResolver { files: HashMap::new(), cache: HashMap::new() }
    }

    fn lines(&mut self, file: &str) -> Option<&Vec<String>> {
        self.files
            .entry(file.to_string())
            .or_insert_with(|| std::fs::read_to_string(file).ok().map(|s| s.lines().map(|l| l.to_string()).collect()))
            .as_ref()
    }

    /// enclosing "function" of a line: `Type::fn`, `fn`, `add_fn:name`, `macro!(arg)` …
    fn function_at(&mut self, file: &str, line: u32) -> String {
        if let Some(f) = self.cache.get(&(file.to_string(), line)) {
            return f.clone();
        }
        let r = match self.lines(file) {
            None => "?".to_string(),
            Some(ls) => {
                let idx = (line as usize).saturating_sub(1).min(ls.len().saturating_sub(1));
                let mut parts: Vec<String> = vec![];
                // a macro invocation on the very line (e.g. `bitwise_fn_positive_arg!(shift_left, <<);`)
                if let Some(l) = ls.get(idx) {
                    let t = l.trim_start();
                    if let Some(bang) = t.find("!(") {
                        let name = &t[..bang];
                        if !name.is_empty() && name.chars().all(|c| c.is_alphanumeric() || c == '_') && !matches!(name, "matches" | "format" | "write" | "writeln" | "vec" | "runtime_error" | "unreachable" | "assert" | "debug_assert" | "println" | "json" | "make_ptr" | "lazy") {
                            let arg = &t[bang + 2..];
                            let end = arg.find(|c: char| !(c.is_alphanumeric() || c == '_' || c == '"')).unwrap_or(arg.len());
                            parts.push(format!("{}!({})", name, arg[..end].trim_matches('"')));
                        }
                    }
                }
                // nearest preceding `add_fn("name"` (unless the line is a macro invocation that
                // creates the closure itself) or `fn name`
                let skip_add_fn = !parts.is_empty();
                let mut fn_indent: Option<usize> = None;
                let mut j = idx as isize;
                while j >= 0 {
                    let l = &ls[j as usize];
                    let t = l.trim_start();
                    let is_comment = t.starts_with("//");
                    if !is_comment {
                        if let Some(p) = t.find("add_fn(").filter(|_| !skip_add_fn) {
                            let rest = &t[p + 7..];
                            if let Some(q) = rest.strip_prefix('"') {
                                if let Some(e) = q.find('"') {
                                    parts.push(format!("add_fn:{}", &q[..e]));
                                    // keep going to find the enclosing fn
                                    let mut k = j - 1;
                                    while k >= 0 {
                                        let t2 = ls[k as usize].trim_start();
                                        if !t2.starts_with("//") {
                                            if let Some(n) = fn_name(t2) {
                                                parts.push(n.to_string());
                                                fn_indent = Some(ls[k as usize].len() - t2.len());
                                                j = k;
                                                break;
                                            }
                                        }
                                        k -= 1;
                                    }
                                    break;
                                }
                            }
                        }
                        if let Some(n) = fn_name(t) {
                            parts.push(n.to_string());
                            fn_indent = Some(l.len() - t.len());
                            break;
                        }
                    }
                    j -= 1;
                }
                // enclosing impl / macro_rules for indented fns
                if let Some(ind) = fn_indent {
                    if ind > 0 {
                        let mut k = j - 1;
                        while k >= 0 {
                            let l = &ls[k as usize];
                            if l.starts_with("impl") {
                                // last path identifier before `{` / `where`
                                let head = l.split('{').next().unwrap_or(l);
                                let head = head.split(" where").next().unwrap_or(head);
                                let target = match head.rfind(" for ") {
                                    Some(p) => &head[p + 5..],
                                    None => head.trim_start_matches("impl").trim_start(),
                                };
                                // strip generics / leading generic params
                                let target = target.trim();
                                let target = if target.starts_with('<') {
                                    // impl<T> Name<T>
                                    match target.find('>') { Some(p) => target[p + 1..].trim(), None => target }
                                } else { target };
                                let name: String = target.chars().take_while(|c| c.is_alphanumeric() || *c == '_' || *c == ':').collect();
                                let name = name.rsplit("::").next().unwrap_or(&name).to_string();
                                if !name.is_empty() {
                                    parts.push(name);
                                }
                                break;
                            }
                            if l.starts_with("macro_rules!") {
                                if let Some(n) = ident_after(l, "macro_rules!") {
                                    parts.push(format!("{}!", n));
                                }
                                break;
                            }
                            if l.starts_with("fn ") || l.starts_with("pub fn ") || l.starts_with("pub(crate) fn ") {
                                break;
                            }
                            k -= 1;
                        }
                    }
                }
                parts.reverse();
                if parts.is_empty() { "?".to_string() } else { parts.join("::") }
            }
        };
        self.cache.insert((file.to_string(), line), r.clone());
        r
    }

    fn site(&mut self, p: &PanicRec) -> Site {
        // (C06_REPO_ROOT: scratch copies of /repo used for mutation pilots)
        let root = repo_root();
        if let Some(rel) = p.file.strip_prefix(&format!("{}/", root.trim_end_matches('/'))) {
            let function = self.function_at(&p.file, p.line);
            Site { file: rel.to_string(), function }
        } else {
            // standard library / dependency: name the innermost koto frame instead
            let file = match p.file.find("/library/") {
                Some(i) => format!("<rust>{}", &p.file[i..]),
                None => match p.file.find("/registry/src/") {
                    Some(i) => {
                        let rest = &p.file[i + 14..];
                        format!("<dep>/{}", rest.split_once('/').map(|x| x.1).unwrap_or(rest))
                    }
                    None => p.file.clone(),
                },
            };
            let function = p.frames.first().map(|f| strip_hash(f)).unwrap_or_else(|| "?".to_string());
            Site { file, function }
        }
    }
}

/// the tree the harness was built against (`KOTO_REPO` is set by tools/mutcheck.sh for scratch
/// worktrees; `C06_REPO_ROOT` by hand)
fn repo_root() -> String {
    std::env::var("C06_REPO_ROOT").or_else(|_| std::env::var("KOTO_REPO")).unwrap_or_else(|_| "/repo".to_string())
}

fn strip_hash(f: &str) -> String {
    // `a::b::h0123456789abcdef` -> `a::b`
    match f.rfind("::h") {
        Some(i) if f.len() - i == 19 && f[i + 3..].chars().all(|c| c.is_ascii_hexdigit()) => f[..i].to_string(),
        _ => f.to_string(),
    }
}

fn fn_name(t: &str) -> Option<&str> {
    // t is a trimmed line; accept `fn x`, `pub fn x`, `pub(crate) fn x`, `pub const fn x`, `unsafe fn x`…
    let mut s = t;
    loop {
        if let Some(r) = s.strip_prefix("pub(crate) ") { s = r; continue; }
        if let Some(r) = s.strip_prefix("pub(super) ") { s = r; continue; }
        if let Some(r) = s.strip_prefix("pub ") { s = r; continue; }
        if let Some(r) = s.strip_prefix("const ") { s = r; continue; }
        if let Some(r) = s.strip_prefix("unsafe ") { s = r; continue; }
        if let Some(r) = s.strip_prefix("async ") { s = r; continue; }
        break;
    }
    let r = s.strip_prefix("fn ")?;
    let end = r.find(|c: char| !(c.is_alphanumeric() || c == '_')).unwrap_or(r.len());
    if end == 0 { None } else { Some(&r[..end]) }
}

#[derive(Clone, Debug)]
struct Known {
    id: String,
    status: String,
    what: String,
    /// one or more panic sites (file, function, message alternatives separated by `|`)
    sites: Vec<(String, String, String, Option<Vec<String>>)>,
    /// APIs through which this site is known to be reached; "*" = the site itself is the root
    /// cause, whatever reaches it
    apis: Vec<String>,
    witness: String,
    /// 'R' or 'C'
    witness_kind: char,
    other_witnesses: Vec<String>,
}

impl Known {
    fn matches_site(&self, site: &Site, msg: &str) -> bool {
        self.sites
            .iter()
            .any(|(f, func, m, _)| *f == site.file && *func == site.function && m.split('|').any(|alt| !alt.is_empty() && msg.contains(alt)))
    }
    /// site matches and the case reached it through a listed API (per-site list, else the
    /// entry's list; "*" = any)
    fn covers(&self, site: &Site, msg: &str, apis: &[String]) -> bool {
        self.sites.iter().any(|(f, func, m, site_apis)| {
            *f == site.file
                && *func == site.function
                && m.split('|').any(|alt| !alt.is_empty() && msg.contains(alt))
                && {
                    let list = site_apis.as_ref().unwrap_or(&self.apis);
                    list.iter().any(|a| a == "*") || apis.iter().any(|b| b == "*") || list.iter().any(|a| apis.iter().any(|b| a == b))
                }
        })
    }
    fn site_text(&self) -> String {
        self.sites.iter().map(|(f, func, m, _)| format!("{}::{} [{}]", f, func, m)).collect::<Vec<_>>().join(" / ")
    }
}

fn load_known(rep: &Report) -> Vec<Known> {
    let mut out = vec![];
    for e in rep.known_entries() {
        let mut sites = vec![];
        if let Some(arr) = e["sites"].as_array() {
            for site in arr {
                sites.push((
                    site["file"].as_str().unwrap_or("").to_string(),
                    site["function"].as_str().unwrap_or("").to_string(),
                    site["message"].as_str().unwrap_or("").to_string(),
                    site["apis"].as_array().map(|a| a.iter().filter_map(|x| x.as_str().map(|s| s.to_string())).collect()),
                ));
            }
        }
        out.push(Known {
            id: e["id"].as_str().unwrap_or("").to_string(),
            status: e["status"].as_str().unwrap_or("").to_string(),
            what: e["what"].as_str().unwrap_or("").to_string(),
            sites,
            apis: e["apis"].as_array().map(|a| a.iter().filter_map(|x| x.as_str().map(|s| s.to_string())).collect()).unwrap_or_default(),
            witness: e["witness"].as_str().unwrap_or("").to_string(),
            witness_kind: e["witness_kind"].as_str().and_then(|s| s.chars().next()).unwrap_or('R'),
            other_witnesses: e["other_witnesses"].as_array().map(|a| a.iter().filter_map(|x| x.as_str().map(|s| s.to_string())).collect()).unwrap_or_default(),
        });
    }
    out
}

/// Does a listed (status = known) finding cover this panic?
fn attribute(known: &[Known], site: &Site, msg: &str, apis: &[String]) -> Option<String> {
    for k in known {
        if k.status != "known" {
            continue;
        }
        if k.covers(site, msg, apis) {
            return Some(k.id.clone());
        }
    }
    None
}

/// messages of the "gigantic allocation" class, which the property excludes
fn is_alloc_panic(msg: &str) -> bool {
    msg.contains("capacity overflow") || msg.contains("memory allocation") || msg.contains("allocation failed") || msg.contains("Layout")
}

fn classify_death(detail: &str) -> &'static str {
    if detail.contains("memory allocation of") || detail.contains("capacity overflow") {
        "alloc"
    } else if detail.contains("overflowed its stack") || detail.contains("stack overflow") {
        "stack"
    } else {
        "abort"
    }
}
