// ---------------------------------------------------------------------------------------------
// Worker side: one request line -> one JSON reply line. Every panic is caught; the panic hook
// records `PanicHookInfo::location()`, the message and the koto frames of the backtrace.
// ---------------------------------------------------------------------------------------------

#[derive(Clone, Debug, Default)]
struct PanicRec {
    phase: String,
    file: String,
    line: u32,
    col: u32,
    msg: String,
    frames: Vec<String>,
}

thread_local! { static LAST_PANIC: RefCell<Option<PanicRec>> = const { RefCell::new(None) }; }
thread_local! { static GUARD_DEPTH: std::cell::Cell<u32> = const { std::cell::Cell::new(0) }; }

fn install_hook() {
    std::panic::set_hook(Box::new(|info| {
        let (file, line, col) = info
            .location()
            .map(|l| (l.file().to_string(), l.line(), l.column()))
            .unwrap_or_default();
        let msg = if let Some(s) = info.payload().downcast_ref::<&str>() {
            s.to_string()
        } else if let Some(s) = info.payload().downcast_ref::<String>() {
            s.clone()
        } else {
            "<non-string panic>".to_string()
        };
        if GUARD_DEPTH.with(|d| d.get()) == 0 {
            // not a case under observation: a bug of the harness itself must stay visible
            eprintln!("[c06] harness panic at {}:{}:{}: {}", file, line, col, msg);
        }
        let bt = std::backtrace::Backtrace::force_capture().to_string();
        let mut frames = vec![];
        for l in bt.lines() {
            let l = l.trim();
            if let Some((idx, name)) = l.split_once(": ") {
                if idx.chars().all(|c| c.is_ascii_digit()) && (name.starts_with("koto") || name.starts_with("<koto")) {
                    frames.push(name.to_string());
                    if frames.len() >= 8 {
                        break;
                    }
                }
            }
        }
        LAST_PANIC.with(|l| *l.borrow_mut() = Some(PanicRec { phase: String::new(), file, line, col, msg, frames }));
    }));
}

fn take_panic(phase: &str) -> PanicRec {
    let mut p = LAST_PANIC.with(|l| l.borrow_mut().take()).unwrap_or_default();
    p.phase = phase.to_string();
    p
}

fn panic_json(p: &PanicRec) -> Value {
    json!({"phase": p.phase, "file": p.file, "line": p.line, "col": p.col, "msg": p.msg, "frames": p.frames})
}

fn panic_from_json(v: &Value) -> PanicRec {
    PanicRec {
        phase: v["phase"].as_str().unwrap_or("").to_string(),
        file: v["file"].as_str().unwrap_or("").to_string(),
        line: v["line"].as_u64().unwrap_or(0) as u32,
        col: v["col"].as_u64().unwrap_or(0) as u32,
        msg: v["msg"].as_str().unwrap_or("").to_string(),
        frames: v["frames"].as_array().map(|a| a.iter().filter_map(|x| x.as_str().map(|s| s.to_string())).collect()).unwrap_or_default(),
    }
}

/// catch_unwind that returns the recorded panic
fn guarded<T>(phase: &str, f: impl FnOnce() -> T) -> Result<T, PanicRec> {
    GUARD_DEPTH.with(|d| d.set(d.get() + 1));
    let r = std::panic::catch_unwind(std::panic::AssertUnwindSafe(f));
    GUARD_DEPTH.with(|d| d.set(d.get() - 1));
    match r {
        Ok(v) => Ok(v),
        Err(_) => Err(take_panic(phase)),
    }
}

#[derive(Clone, Debug, Default)]
struct Sink;
impl KotoFile for Sink {
    fn id(&self) -> KString {
        "_sink_".into()
    }
}
impl KotoRead for Sink {}
impl KotoWrite for Sink {
    fn write(&self, _bytes: &[u8]) -> koto::runtime::Result<()> {
        Ok(())
    }
    fn write_line(&self, _s: &str) -> koto::runtime::Result<()> {
        Ok(())
    }
    fn flush(&self) -> koto::runtime::Result<()> {
        Ok(())
    }
}

// stdin of every worker Koto: an in-memory buffer (never the worker's real stdin, which carries the
// request protocol). `verif_stdin(text)` fills it; `read_line` hands out one line INCLUDING its line
// end, exactly like BufRead::read_line, so `io.stdin.read_line()` exercises File::read_line's own
// stripping of the line end on contents chosen by the script.
thread_local! { static MEM_IN: RefCell<(String, usize)> = const { RefCell::new((String::new(), 0)) }; }

#[derive(Clone, Debug, Default)]
struct MemIn;
impl KotoFile for MemIn {
    fn id(&self) -> KString {
        "_memin_".into()
    }
}
impl KotoRead for MemIn {
    fn read_line(&self) -> koto::runtime::Result<Option<String>> {
        MEM_IN.with(|m| {
            let mut m = m.borrow_mut();
            let (text, pos) = (&m.0, m.1);
            if pos >= text.len() {
                return Ok(None);
            }
            let rest = &text[pos..];
            let end = rest.find('\n').map(|i| i + 1).unwrap_or(rest.len());
            let line = rest[..end].to_string();
            m.1 = pos + end;
            Ok(Some(line))
        })
    }
    fn read_to_string(&self) -> koto::runtime::Result<String> {
        MEM_IN.with(|m| {
            let mut m = m.borrow_mut();
            let r = m.0[m.1.min(m.0.len())..].to_string();
            m.1 = m.0.len();
            Ok(r)
        })
    }
}
impl KotoWrite for MemIn {}

/// the scratch directory of this worker process (file-I/O cases only): `io-w<pid>` next to the
/// worker's stderr file (the pool's scratch directory); in-process: `<tmp>/c06-scratch-<pid>/w<pid>`
fn worker_scratch() -> std::path::PathBuf {
    let pid = std::process::id();
    match std::env::var("C06_ERRFILE").ok().and_then(|f| std::path::Path::new(&f).parent().map(|p| p.to_path_buf())).filter(|p| p.is_dir() && p != std::path::Path::new("/dev")) {
        Some(dir) => dir.join(format!("io-w{}", pid)),
        None => std::env::temp_dir().join(format!("c06-scratch-{}", pid)).join(format!("w{}", pid)),
    }
}

fn clear_scratch() {
    let dir = worker_scratch();
    if let Ok(rd) = std::fs::read_dir(&dir) {
        for e in rd.filter_map(|e| e.ok()) {
            let p = e.path();
            if p.is_dir() {
                let _ = std::fs::remove_dir_all(&p);
            } else {
                let _ = std::fs::remove_file(&p);
            }
        }
    }
}

const IO_MARK: &str = "#!io";

const VM_LIMIT_MS: u64 = 400;

fn new_koto() -> Koto {
    let koto = Koto::with_settings(
        KotoSettings::default()
            .with_stdout(Sink)
            .with_stderr(Sink)
            .with_execution_limit(Duration::from_millis(VM_LIMIT_MS)),
    );
    // no file system, no processes, no blocking reads
    koto.prelude().remove("io");
    koto.prelude().remove("os");
    // serialisation entry points (they traverse values: cyclic / very deep values must not abort)
    koto.prelude().insert("json", koto_json::make_module());
    koto.prelude().insert("yaml", koto_yaml::make_module());
    koto.prelude().insert("toml", koto_toml::make_module());
    // hook H1 made visible to scripts: the number of registers in use above the running frame's base
    koto.prelude().add_fn("verif_regs", |ctx| {
        let (len, _, _, _, base) = ctx.vm.verif_stack_sizes();
        Ok(KValue::Number(((len - base) as i64).into()))
    });
    koto
}

/// the Koto instance for a file-I/O case (script text starts with `#!io`): the real `io` module, an
/// in-memory stdin, and `verif_scratch` — the worker's own scratch directory, emptied before and
/// after the case. The generators build every path they write to from `verif_scratch`.
fn new_koto_io() -> Koto {
    let koto = Koto::with_settings(
        KotoSettings::default()
            .with_stdin(MemIn)
            .with_stdout(Sink)
            .with_stderr(Sink)
            .with_execution_limit(Duration::from_millis(VM_LIMIT_MS)),
    );
    koto.prelude().remove("os");
    let dir = worker_scratch();
    let _ = std::fs::create_dir_all(&dir);
    clear_scratch();
    MEM_IN.with(|m| *m.borrow_mut() = (String::new(), 0));
    koto.prelude().insert("verif_scratch", KValue::Str(dir.to_string_lossy().to_string().into()));
    // raw bytes into a scratch file (contents that are not UTF-8 cannot be written through File.write)
    koto.prelude().add_fn("verif_write", |ctx| match ctx.args() {
        [KValue::Str(path), KValue::List(bytes)] => {
            let scratch = worker_scratch();
            let p = std::path::Path::new(path.as_str());
            if !p.starts_with(&scratch) {
                return koto::runtime::runtime_error!("verif_write: outside the scratch directory");
            }
            let data: Vec<u8> = bytes.data().iter().map(|v| match v { KValue::Number(n) => i64::from(n) as u8, _ => b'?' }).collect();
            match std::fs::write(p, data) {
                Ok(()) => Ok(KValue::Null),
                Err(e) => koto::runtime::runtime_error!("verif_write: {e}"),
            }
        }
        _ => koto::runtime::runtime_error!("verif_write: |String, List|"),
    });
    koto.prelude().add_fn("verif_stdin", |ctx| match ctx.args() {
        [KValue::Str(text)] => {
            MEM_IN.with(|m| *m.borrow_mut() = (text.as_str().to_string(), 0));
            Ok(KValue::Null)
        }
        _ => koto::runtime::runtime_error!("verif_stdin: |String|"),
    });
    koto
}

fn err_kind(e: &koto::Error, text: &str) -> &'static str {
    match e {
        koto::Error::CompileError { .. } => "compile",
        _ => {
            if text.contains("execution timed out") || text.contains("timed out") {
                "timeout"
            } else {
                "runtime"
            }
        }
    }
}

/// run a script: compile, run, display the value (and pull a few items if it is an iterator) or
/// display the error.
fn handle_run(src: &str) -> Value {
    // (`#!io` on the first line, or on the second one after a `# apis:` line of a corpus file)
    let io_case = src.lines().take(2).any(|l| l.trim_end() == IO_MARK);
    let v = handle_run_with(src, if io_case { new_koto_io() } else { new_koto() });
    if io_case {
        clear_scratch();
    }
    v
}

fn handle_run_with(src: &str, mut koto: Koto) -> Value {
    let mut panics: Vec<PanicRec> = vec![];
    let r = guarded("run", || koto.compile_and_run(src));
    let mut out = json!({});
    match r {
        Err(p) => {
            panics.push(p);
            out["o"] = json!("P");
        }
        Ok(Err(e)) => {
            match guarded("error-display", || e.to_string()) {
                Ok(s) => {
                    out["o"] = json!("E");
                    out["k"] = json!(err_kind(&e, &s));
                }
                Err(p) => {
                    panics.push(p);
                    out["o"] = json!("P");
                }
            }
        }
        Ok(Ok(v)) => {
            out["o"] = json!("V");
            out["t"] = json!(v.type_as_string().as_str());
            if let KValue::Iterator(it) = &v {
                let mut it2 = it.clone();
                match guarded("iterator-next", move || {
                    // only `next` (what a `for` loop does); size_hint is reached through koto's own
                    // consumers (to_list, …) in the generated scripts
                    let mut n = 0;
                    for _ in 0..3 {
                        match it2.next() {
                            Some(_) => n += 1,
                            None => break,
                        }
                    }
                    n
                }) {
                    Ok(n) => out["pulled"] = json!(n),
                    Err(p) => {
                        panics.push(p);
                        out["o"] = json!("P");
                    }
                }
            }
            match guarded("value-display", || koto.value_to_string(v.clone())) {
                Ok(Ok(s)) => out["dl"] = json!(s.len().min(1 << 20)),
                Ok(Err(e)) => match guarded("error-display", || e.to_string()) {
                    Ok(_) => out["de"] = json!(true),
                    Err(p) => {
                        panics.push(p);
                        out["o"] = json!("P");
                    }
                },
                Err(p) => {
                    panics.push(p);
                    out["o"] = json!("P");
                }
            }
        }
    }
    if !panics.is_empty() {
        out["p"] = Value::Array(panics.iter().map(panic_json).collect());
    }
    out
}

/// compile + format + error Display on arbitrary source text
fn handle_compile(src: &str) -> Value {
    let mut panics: Vec<PanicRec> = vec![];
    let mut out = json!({"o": "C"});
    // 1. parser alone, error Display
    match guarded("parse", || koto_parser::Parser::parse(src).map(|_| ())) {
        Ok(Ok(())) => out["parse"] = json!("ok"),
        Ok(Err(e)) => {
            out["parse"] = json!("err");
            if let Err(p) = guarded("parse-error-display", || {
                let _ = e.to_string();
                let _ = koto_parser::format_source_excerpt(src, &e.span, None);
                let _ = koto_parser::format_source_excerpt(src, &e.span, Some("/some/dir/script.koto"));
            }) {
                panics.push(p);
            }
        }
        Err(p) => {
            out["parse"] = json!("P");
            panics.push(p);
        }
    }
    // 2. the host entry point: Koto::compile (loader + compiler), error Display with excerpt
    let mut koto = new_koto();
    match guarded("compile", || koto.compile(src).map(|_| ())) {
        Ok(Ok(())) => out["compile"] = json!("ok"),
        Ok(Err(e)) => {
            out["compile"] = json!("err");
            if let Err(p) = guarded("compile-error-display", || e.to_string()) {
                panics.push(p);
            }
        }
        Err(p) => {
            out["compile"] = json!("P");
            panics.push(p);
        }
    }
    // 3. formatter with default and with narrow options
    for (i, opts) in [
        koto_format::FormatOptions::default(),
        koto_format::FormatOptions { line_length: 20, indent_width: 4, always_indent_arms: true, chain_break_threshold: 1 },
    ]
    .into_iter()
    .enumerate()
    {
        let key = if i == 0 { "fmt" } else { "fmt2" };
        match guarded("format", || koto_format::format(src, opts)) {
            Ok(Ok(_)) => out[key] = json!("ok"),
            Ok(Err(e)) => {
                out[key] = json!("err");
                if let Err(p) = guarded("format-error-display", || e.to_string()) {
                    panics.push(p);
                }
            }
            Err(p) => {
                out[key] = json!("P");
                panics.push(p);
            }
        }
    }
    if !panics.is_empty() {
        out["p"] = Value::Array(panics.iter().map(panic_json).collect());
    }
    out
}

fn worker_main(argv: &[String]) {
    // Re-exec once under a shell that sets an address-space limit (gigantic allocations abort the
    // worker instead of the machine) and appends stderr to a per-worker file so that the parent can
    // classify a death (allocation failure / native stack overflow / anything else).
    if std::env::var("C06_LIMITED").is_err() {
        use std::os::unix::process::CommandExt;
        let exe = std::env::current_exe().expect("current_exe");
        let errfile = argv
            .iter()
            .position(|a| a == "--errfile")
            .and_then(|i| argv.get(i + 1))
            .cloned()
            .unwrap_or_else(|| "/dev/null".to_string());
        let e = std::process::Command::new("/bin/sh")
            .arg("-c")
            .arg("ulimit -v 3000000; ulimit -c 0; exec \"$0\" \"$@\" 2>>\"$C06_ERRFILE\"")
            .arg(exe)
            .args(&argv[1..])
            .env("C06_LIMITED", "1")
            .env("C06_ERRFILE", errfile)
            .exec();
        eprintln!("exec failed: {e}");
        std::process::exit(3);
    }
    install_hook();
    kvh::worker::serve(|line| {
        let (cmd, rest) = line.split_once(' ').unwrap_or((line, ""));
        if cmd == "B" {
            // a block of cases: `B <kind><hex> <kind><hex> …` → JSON array of replies
            let mut outs = vec![];
            for item in rest.split(' ').filter(|x| !x.is_empty()) {
                let kind = &item[..1];
                let v = match kvh::unhex(&item[1..]).and_then(|b| String::from_utf8(b).ok()) {
                    Some(src) => match kind {
                        "R" => handle_run(&src),
                        "C" => handle_compile(&src),
                        _ => json!({"o": "bad-request"}),
                    },
                    None => json!({"o": "bad-request"}),
                };
                outs.push(v);
            }
            return Value::Array(outs).to_string();
        }
        let src = match kvh::unhex(rest).and_then(|b| String::from_utf8(b).ok()) {
            Some(s) => s,
            None => return json!({"o": "bad-request"}).to_string(),
        };
        match cmd {
            "R" => handle_run(&src).to_string(),
            "C" => handle_compile(&src).to_string(),
            _ => json!({"o": "bad-request"}).to_string(),
        }
    });
}
