// ---------------------------------------------------------------------------------------------
// Parent side: a pool of worker processes; cases are distributed over threads, one worker each.
// ---------------------------------------------------------------------------------------------

#[derive(Clone, Debug)]
struct Case {
    /// 'R' = run a script, 'C' = compile/format/display a source text
    kind: char,
    text: String,
    /// generator group (for the input distribution)
    group: &'static str,
    /// APIs the case exercises (sweep: the entry point; programs: operators / functions used)
    apis: Vec<String>,
}

#[derive(Clone, Debug)]
enum Outcome {
    Json(Value),
    Hang,
    Died(String),
}

struct WorkerPool {
    workers: Vec<(Worker, String)>,
    timeout: Duration,
}

impl WorkerPool {
    fn new(n: usize, timeout: Duration) -> WorkerPool {
        let scratch = std::env::var("VERIF_SCRATCH").unwrap_or_else(|_| {
            let d = std::env::temp_dir().join(format!("c06-{}", std::process::id()));
            d.display().to_string()
        });
        let _ = std::fs::create_dir_all(&scratch);
        let mut workers = vec![];
        for i in 0..n {
            let errfile = format!("{}/c06-worker-{}-{}.err", scratch, std::process::id(), i);
            let _ = std::fs::write(&errfile, b"");
            let w = Worker::spawn(&["--worker".to_string(), "--errfile".to_string(), errfile.clone()]);
            workers.push((w, errfile));
        }
        WorkerPool { workers, timeout }
    }

    /// Run all cases; returns outcomes in case order. Cases travel in blocks of `BLOCK` per
    /// request line; when a block times out or kills the worker, its cases are re-run one by one
    /// so that a hang / death is attributed to a single case. A single-case timeout is confirmed
    /// by one retry with a tripled limit (the machine may be busy) before it counts as a hang.
    fn run(&mut self, cases: &[Case]) -> Vec<Outcome> {
        let t = self.timeout;
        self.run_opts(cases, t, true)
    }

    fn run_opts(&mut self, cases: &[Case], timeout: Duration, retry: bool) -> Vec<Outcome> {
        const BLOCK: usize = 16;
        let n_blocks = cases.len().div_ceil(BLOCK);
        let next = AtomicUsize::new(0);
        let results: Vec<Mutex<Option<Outcome>>> = cases.iter().map(|_| Mutex::new(None)).collect();
        std::thread::scope(|sc| {
            for (w, errfile) in self.workers.iter_mut() {
                let next = &next;
                let results = &results;
                sc.spawn(move || loop {
                    let b = next.fetch_add(1, Ordering::Relaxed);
                    if b >= n_blocks {
                        break;
                    }
                    let lo = b * BLOCK;
                    let hi = (lo + BLOCK).min(cases.len());
                    let mut done = false;
                    if hi - lo > 1 {
                        let mut line = String::from("B");
                        for c in &cases[lo..hi] {
                            line.push(' ');
                            line.push(c.kind);
                            line.push_str(&kvh::hex(c.text.as_bytes()));
                        }
                        if let Reply::Ok(s) = w.request(&line, timeout) {
                            if let Ok(Value::Array(vs)) = serde_json::from_str::<Value>(&s) {
                                if vs.len() == hi - lo {
                                    for (i, v) in vs.into_iter().enumerate() {
                                        *results[lo + i].lock().unwrap() = Some(Outcome::Json(v));
                                    }
                                    done = true;
                                }
                            }
                        } else {
                            let _ = std::fs::write(&*errfile, b"");
                        }
                    }
                    if done {
                        continue;
                    }
                    for i in lo..hi {
                        let c = &cases[i];
                        let line = format!("{} {}", c.kind, kvh::hex(c.text.as_bytes()));
                        let mut reply = w.request(&line, timeout);
                        if retry && matches!(reply, Reply::Timeout) {
                            reply = w.request(&line, timeout * 3);
                        }
                        // a death that is neither an allocation failure nor a stack overflow is
                        // confirmed by one retry in a fresh worker (the machine's OOM killer or a
                        // neighbour's `kill` must not be charged to koto)
                        if let Reply::Died(st) = &reply {
                            let tail = std::fs::read_to_string(&*errfile).unwrap_or_default();
                            if classify_death(&format!("{} :: {}", st, tail)) == "abort" {
                                let _ = std::fs::write(&*errfile, b"");
                                reply = w.request(&line, timeout * 3);
                            }
                        }
                        let o = match reply {
                            Reply::Ok(s) => match serde_json::from_str::<Value>(&s) {
                                Ok(v) => Outcome::Json(v),
                                Err(_) => Outcome::Died(format!("unparsable reply: {}", s.chars().take(200).collect::<String>())),
                            },
                            Reply::Timeout => Outcome::Hang,
                            Reply::Died(st) => {
                                // classify by the tail of the worker's stderr
                                let tail = std::fs::read_to_string(&*errfile).unwrap_or_default();
                                let tail: String = {
                                    let mut v: Vec<&str> = tail.lines().rev().take(40).collect();
                                    v.reverse();
                                    v.join(" | ")
                                };
                                let _ = std::fs::write(&*errfile, b"");
                                Outcome::Died(format!("{} :: {}", st, tail))
                            }
                        };
                        *results[i].lock().unwrap() = Some(o);
                    }
                });
            }
        });
        results.into_iter().map(|m| m.into_inner().unwrap().unwrap_or(Outcome::Died("not run".into()))).collect()
    }
}
