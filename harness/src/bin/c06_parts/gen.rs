// ---------------------------------------------------------------------------------------------
// Case generators
// ---------------------------------------------------------------------------------------------

#[derive(Clone, Copy, Debug, PartialEq, Eq)]
enum Ty {
    Num,
    Str,
    List,
    Map,
    Tuple,
    Range,
    Func,
    Iter,
    Obj,
    Other,
}

#[derive(Clone, Copy, Debug)]
struct Item {
    expr: &'static str,
    pre: &'static [&'static str],
    ty: Ty,
    /// member of the reduced pool (used for the arity-3 cross products)
    reduced: bool,
}

const PRE_L: &[&str] = &["l = [3, 1, 2]"];
const PRE_M: &[&str] = &["m = {a: 1, b: 2, c: 3}"];
const PRE_XS: &[&str] = &["xs = 'a,b'.split(',')", "xs.next()", "xs.next()"];
const PRE_XL: &[&str] = &["xl = 'abc'.lines()", "xl.next()"];
const PRE_O1: &[&str] = &["o1 = {@display: || throw 'display'}"];
const PRE_O2: &[&str] = &["o2 = {@size: || -1, @index: |i| i}"];
const PRE_O3: &[&str] = &["o3 = {@<: |o| 1, @==: |o| 1, @>: |o| 'x'}"];
const PRE_O4: &[&str] = &["o4 = {@next: || throw 'next'}"];
const PRE_O5: &[&str] = &["o5 = {@iterator: || 5}"];
const PRE_O6: &[&str] = &["o6 = {@call: || 1, @+: |o| self, @size: || 1e30}"];
const PRE_O7: &[&str] = &["o7 = {@iterator: || self}"];
const PRE_O8: &[&str] = &["reg = {}", "o8 = {@iterator: || reg.b}", "o9 = {@iterator: || reg.a}", "reg.a = o8", "reg.b = o9"];
// cyclic values (`cy_…`) and very deep values (`dp_…`, built in a loop): a case that uses one of
// them is tagged `val:cyclic-deep`, and for such a case a worker death (native stack overflow,
// abort) is a VIOLATION, not a note
const PRE_CY_L: &[&str] = &["cy_l = [1]", "cy_l.push cy_l"];
const PRE_CY_M: &[&str] = &["cy_m = {a: 1}", "cy_m.insert 'self', cy_m"];
const PRE_CY_2: &[&str] = &["cy_2l = [1]", "cy_2m = {l: cy_2l}", "cy_2l.push cy_2m"];
const PRE_CY_T: &[&str] = &["cy_tl = [1]", "cy_t = (1, cy_tl)", "cy_tl.push cy_t"];
const PRE_CY_F: &[&str] = &["cy_f = || cy_f"];
const PRE_CY_FL: &[&str] = &["cy_fl = [1]", "cy_ff = || cy_fl", "cy_fl.push cy_ff"];
const PRE_CY_MK: &[&str] = &["cy_mk = {}", "cy_kt = (1, cy_mk)", "cy_mk.insert 'k', cy_kt"];
const PRE_DP_50: &[&str] = &["dp_50 = [0]", "for i in 0..50", "  dp_50 = [dp_50]"];
const PRE_DP_85: &[&str] = &["dp_85 = [0]", "for i in 0..85", "  dp_85 = [dp_85]"];
const PRE_DP_100: &[&str] = &["dp_100 = [0]", "for i in 0..100", "  dp_100 = [dp_100]"];
const PRE_DP_300: &[&str] = &["dp_300 = [0]", "for i in 0..300", "  dp_300 = [dp_300]"];
const PRE_DP_1000: &[&str] = &["dp_1000 = [0]", "for i in 0..1000", "  dp_1000 = [dp_1000]"];
const PRE_DP_T100: &[&str] = &["dp_t100 = (0,)", "for i in 0..100", "  dp_t100 = (dp_t100, i)"];
const PRE_DP_T1000: &[&str] = &["dp_t1000 = (0,)", "for i in 0..1000", "  dp_t1000 = (dp_t1000, i)"];
const PRE_DP_M100: &[&str] = &["dp_m100 = {v: 0}", "for i in 0..100", "  dp_m100 = {v: dp_m100}"];
const PRE_DP_M1000: &[&str] = &["dp_m1000 = {v: 0}", "for i in 0..1000", "  dp_m1000 = {v: dp_m1000}"];
// iterators that are advanced by the callbacks handed to their own consumers / adaptors
const PRE_RI: &[&str] = &["ri = (1..5).iter()"];
const PRE_RJ: &[&str] = &["rh = {}", "rh.j = (1..5).each |x| rh.j.next()"];
const PRE_RK: &[&str] = &["rh2 = {}", "rh2.k = (1..5).keep |x| rh2.k.next() != 'zz'"];
const PRE_RG: &[&str] = &["rg = {}", "rg.f = ||", "  yield 1", "  yield rg.g.next()", "  yield rg.g.next_back()", "rg.g = rg.f()"];
const PRE_LO: &[&str] = &["l = [3, 1, 2]", "lo = [{@<: |o| l.push(1), @==: |o| l.clear()}, {@<: |o| l.pop(), @==: |o| l.clear()}]"];

const fn it(expr: &'static str, pre: &'static [&'static str], ty: Ty, reduced: bool) -> Item {
    Item { expr, pre, ty, reduced }
}

/// The boundary-value pool (DESIGN §6 C06): numbers …
const NUMS: &[Item] = &[
    it("0", &[], Ty::Num, true),
    it("1", &[], Ty::Num, true),
    it("-1", &[], Ty::Num, true),
    it("2", &[], Ty::Num, true),
    it("63", &[], Ty::Num, false),
    it("64", &[], Ty::Num, true),
    it("255", &[], Ty::Num, false),
    it("256", &[], Ty::Num, false),
    it("65535", &[], Ty::Num, false),
    it("65536", &[], Ty::Num, false),
    it("2147483646", &[], Ty::Num, false),
    it("2147483647", &[], Ty::Num, false),
    it("2147483648", &[], Ty::Num, false),
    it("-2147483647", &[], Ty::Num, false),
    it("-2147483648", &[], Ty::Num, false),
    it("-2147483649", &[], Ty::Num, false),
    it("9223372036854775806", &[], Ty::Num, false),
    it("9223372036854775807", &[], Ty::Num, true),
    it("-9223372036854775807", &[], Ty::Num, false),
    it("(-9223372036854775807 - 1)", &[], Ty::Num, true),
    it("number.nan", &[], Ty::Num, true),
    it("number.infinity", &[], Ty::Num, true),
    it("number.negative_infinity", &[], Ty::Num, false),
    it("0.0", &[], Ty::Num, false),
    it("-0.0", &[], Ty::Num, false),
    it("0.5", &[], Ty::Num, true),
    it("-0.5", &[], Ty::Num, false),
    it("1e30", &[], Ty::Num, true),
    it("-1e30", &[], Ty::Num, false),
];

/// … and containers, strings, ranges, functions, iterators, objects.
const OTHERS: &[Item] = &[
    it("null", &[], Ty::Other, true),
    it("true", &[], Ty::Other, false),
    it("false", &[], Ty::Other, false),
    it("''", &[], Ty::Str, true),
    it("'a'", &[], Ty::Str, false),
    it("'abc'", &[], Ty::Str, true),
    it("'héllo wörld'", &[], Ty::Str, false),
    it("'a,b,,c'", &[], Ty::Str, false),
    it("'l1\\nl2\\r\\n'", &[], Ty::Str, false),
    it("'{}'", &[], Ty::Str, false),
    it("'é'[0..1]", &[], Ty::Str, false),
    it("[]", &[], Ty::List, true),
    it("[1, 2, 3]", &[], Ty::List, false),
    it("l", PRE_L, Ty::List, true),
    it("[[1, 2], [3]]", &[], Ty::List, false),
    it("[null, 'a', 1.5]", &[], Ty::List, false),
    it("lo", PRE_LO, Ty::List, false),
    it("()", &[], Ty::Tuple, false),
    it("(1, 2, 3)", &[], Ty::Tuple, true),
    it("((1, 2), (3, 4))", &[], Ty::Tuple, false),
    it("(1, 2, 3, 4)[1..3]", &[], Ty::Tuple, false),
    it("{}", &[], Ty::Map, false),
    it("m", PRE_M, Ty::Map, true),
    it("{a: 1}", &[], Ty::Map, false),
    it("(0..3)", &[], Ty::Range, true),
    it("(0..=3)", &[], Ty::Range, false),
    it("(3..0)", &[], Ty::Range, false),
    it("(-3..3)", &[], Ty::Range, false),
    it("(..)", &[], Ty::Range, false),
    it("(..5)", &[], Ty::Range, false),
    it("(2..)", &[], Ty::Range, false),
    it("(0..=9223372036854775807)", &[], Ty::Range, true),
    it("((-9223372036854775807 - 1)..9223372036854775807)", &[], Ty::Range, false),
    it("(9223372036854775806..)", &[], Ty::Range, false),
    it("(9223372036854775800..9223372036854775807)", &[], Ty::Range, false),
    it("(9223372036854775800..=9223372036854775807)", &[], Ty::Range, true),
    it("(|x| x)", &[], Ty::Func, true),
    it("(|a, b| a)", &[], Ty::Func, false),
    it("(|| 1)", &[], Ty::Func, false),
    it("(|x| true)", &[], Ty::Func, false),
    it("(|x| false)", &[], Ty::Func, false),
    it("(|x| throw 'e')", &[], Ty::Func, true),
    it("(|a, b| a < b)", &[], Ty::Func, false),
    it("(|x| l.push(x))", PRE_L, Ty::Func, true),
    it("(|x| l.clear())", PRE_L, Ty::Func, false),
    it("(|x| size l)", PRE_L, Ty::Func, false),
    it("(|x| l.pop())", PRE_L, Ty::Func, false),
    it("(|x| l.pop() != 'zz')", PRE_L, Ty::Func, false),
    it("(|x| l.push(x) != 'zz')", PRE_L, Ty::Func, false),
    it("(|k, v| m.clear() != 'zz')", PRE_M, Ty::Func, false),
    it("(|k, v| m.insert(k, v))", PRE_M, Ty::Func, false),
    it("(|x| m.clear())", PRE_M, Ty::Func, false),
    it("(|x| m.remove('a'))", PRE_M, Ty::Func, false),
    it("(1..4).iter()", &[], Ty::Iter, false),
    it("'abc'.chars()", &[], Ty::Iter, false),
    it("l.iter()", PRE_L, Ty::Iter, false),
    it("m.iter()", PRE_M, Ty::Iter, false),
    it("xs", PRE_XS, Ty::Iter, true),
    it("xl", PRE_XL, Ty::Iter, false),
    it("'ab'.bytes()", &[], Ty::Iter, false),
    it("'ab'.char_indices()", &[], Ty::Iter, false),
    it("(1).step_to(9, 2)", &[], Ty::Iter, false),
    it("o1", PRE_O1, Ty::Obj, true),
    it("o2", PRE_O2, Ty::Obj, false),
    it("o3", PRE_O3, Ty::Obj, false),
    it("o4", PRE_O4, Ty::Obj, false),
    it("o5", PRE_O5, Ty::Obj, false),
    it("o6", PRE_O6, Ty::Obj, false),
    it("ri", PRE_RI, Ty::Iter, false),
    it("(|x| ri.next() != 'zz')", PRE_RI, Ty::Func, false),
    it("(|a, b| ri.next())", PRE_RI, Ty::Func, false),
    it("(|x| ri.to_tuple())", PRE_RI, Ty::Func, false),
    it("rh.j", PRE_RJ, Ty::Iter, false),
    it("rh2.k", PRE_RK, Ty::Iter, false),
    it("rg.g", PRE_RG, Ty::Iter, false),
    it("cy_l", PRE_CY_L, Ty::List, false),
    it("cy_m", PRE_CY_M, Ty::Map, false),
    it("cy_2l", PRE_CY_2, Ty::List, false),
    it("cy_2m", PRE_CY_2, Ty::Map, false),
    it("cy_t", PRE_CY_T, Ty::Tuple, false),
    it("cy_f", PRE_CY_F, Ty::Func, false),
    it("cy_fl", PRE_CY_FL, Ty::List, false),
    it("cy_kt", PRE_CY_MK, Ty::Tuple, false),
    it("dp_50", PRE_DP_50, Ty::List, false),
    it("dp_85", PRE_DP_85, Ty::List, false),
    it("dp_100", PRE_DP_100, Ty::List, false),
    it("dp_300", PRE_DP_300, Ty::List, false),
    it("dp_1000", PRE_DP_1000, Ty::List, false),
    it("dp_t100", PRE_DP_T100, Ty::Tuple, false),
    it("dp_t1000", PRE_DP_T1000, Ty::Tuple, false),
    it("dp_m100", PRE_DP_M100, Ty::Map, false),
    it("dp_m1000", PRE_DP_M1000, Ty::Map, false),
    // @iterator that returns the object itself / another object whose @iterator returns it
    // (make_iterator nesting limit, commit 47b1155)
    it("o7", PRE_O7, Ty::Obj, false),
    it("o8", PRE_O8, Ty::Obj, false),
    it("{@iterator: || {@iterator: || {@iterator: || (1, 2)}}}", &[], Ty::Obj, false),
];

fn all_items() -> Vec<Item> {
    NUMS.iter().chain(OTHERS.iter()).copied().collect()
}

const CYCLIC_DEEP: &str = "val:cyclic-deep";

fn uses_cyclic_or_deep(items: &[&Item]) -> bool {
    items.iter().any(|i| i.expr.starts_with("cy_") || i.expr.starts_with("dp_"))
}

const ITER_REENTRANCY: &str = "gen:iterator-reentrancy";

fn uses_reentrant_iterator(items: &[&Item]) -> bool {
    items.iter().any(|i| [PRE_RI, PRE_RJ, PRE_RK, PRE_RG].iter().any(|p| std::ptr::eq(p.as_ptr(), i.pre.as_ptr())))
}

/// tags derived from the values a case uses
fn value_tags(items: &[&Item]) -> Vec<String> {
    let mut t = vec![];
    if uses_cyclic_or_deep(items) {
        t.push(CYCLIC_DEEP.to_string());
    }
    if uses_reentrant_iterator(items) {
        t.push(ITER_REENTRANCY.to_string());
    }
    t
}

fn script_for(items: &[&Item], body: &str) -> String {
    // each distinct preamble group once (a group may repeat a line, e.g. `xs.next()` twice);
    // groups that define the same variable `l` share their first line
    let mut groups: Vec<&[&str]> = vec![];
    for it in items {
        if !it.pre.is_empty() && !groups.iter().any(|g| std::ptr::eq(g.as_ptr(), it.pre.as_ptr())) {
            groups.push(it.pre);
        }
    }
    let mut pre: Vec<&str> = vec![];
    for g in groups {
        for (i, l) in g.iter().enumerate() {
            if i == 0 && pre.contains(l) {
                continue;
            }
            pre.push(l);
        }
    }
    let mut s = String::new();
    for l in pre {
        s.push_str(l);
        s.push('\n');
    }
    s.push_str(body);
    s.push('\n');
    s
}

/// core-library entry points, enumerated from the prelude at run time
fn entry_points() -> Vec<(String, String)> {
    let koto = Koto::default();
    let prelude = koto.prelude().clone();
    let mut out = vec![];
    for module in ["number", "string", "list", "map", "tuple", "range", "iterator", "koto", "test"] {
        if let Some(KValue::Map(m)) = prelude.get(module) {
            let mut names: Vec<String> = vec![];
            for (k, v) in m.data().iter() {
                if let KValue::Str(name) = k.value() {
                    if matches!(v, KValue::NativeFunction(_)) {
                        names.push(name.as_str().to_string());
                    }
                }
            }
            names.sort();
            for n in names {
                out.push((module.to_string(), n));
            }
        }
    }
    out
}

fn instance_type(module: &str) -> Option<&'static [Ty]> {
    match module {
        "number" => Some(&[Ty::Num]),
        "string" => Some(&[Ty::Str]),
        "list" => Some(&[Ty::List]),
        "map" => Some(&[Ty::Map, Ty::Obj]),
        "tuple" => Some(&[Ty::Tuple]),
        "range" => Some(&[Ty::Range]),
        "iterator" => Some(&[Ty::List, Ty::Tuple, Ty::Str, Ty::Range, Ty::Map, Ty::Iter, Ty::Obj]),
        _ => None,
    }
}

/// Generation filter (never a suppression rule): shapes documented as excluded by the property —
/// counts that ask for a gigantic allocation, and walking a range of ~2^63 elements.
fn excluded_shape(module: &str, name: &str, args: &[&Item]) -> bool {
    let huge_num = |i: &Item| {
        i.ty == Ty::Num
            && matches!(
                i.expr,
                "2147483646" | "2147483647" | "2147483648" | "9223372036854775806" | "9223372036854775807" | "number.infinity" | "1e30"
            )
    };
    let size_taking = matches!(
        (module, name),
        ("list", "resize") | ("list", "resize_with") | ("string", "repeat") | ("iterator", "repeat") | ("iterator", "generate") | ("iterator", "step")
    );
    if size_taking && args.iter().any(|a| huge_num(a)) {
        return true;
    }
    // an @next that always throws never ends an adaptor that skips / takes ~2^31 items
    if args.iter().any(|a| a.expr == "o4") && args.iter().any(|a| huge_num(a)) {
        return true;
    }
    // walking ~2^63 elements never finishes: the two huge ranges are not offered to the iterator
    // module / iterable-consuming functions (a 7-element range ending at i64::MAX inclusive is)
    let huge_range = |i: &Item| matches!(i.expr, "(0..=9223372036854775807)" | "((-9223372036854775807 - 1)..9223372036854775807)");
    let consumes = module == "iterator"
        || matches!((module, name), ("list", "extend") | ("map", "extend") | ("string", "from_bytes") | ("tuple", "contains") | ("koto", "deep_copy") | ("test", "assert_eq") | ("test", "assert_ne"));
    if consumes && args.iter().any(|a| huge_range(a)) {
        return true;
    }
    false
}

struct Sweep {
    eps: Vec<(String, String)>,
    all: Vec<Item>,
}

impl Sweep {
    fn new() -> Sweep {
        Sweep { eps: entry_points(), all: all_items() }
    }

    fn case(&self, module: &str, name: &str, instance_form: bool, args: &[&Item]) -> Option<Case> {
        if excluded_shape(module, name, args) {
            return None;
        }
        let body = if instance_form {
            let rest: Vec<&str> = args[1..].iter().map(|a| a.expr).collect();
            format!("({}).{}({})", args[0].expr, name, rest.join(", "))
        } else {
            let a: Vec<&str> = args.iter().map(|a| a.expr).collect();
            format!("{}.{}({})", module, name, a.join(", "))
        };
        Some(Case {
            kind: 'R',
            text: script_for(args, &body),
            group: if instance_form { "sweep-instance" } else { "sweep-module" },
            apis: std::iter::once(format!("{}.{}", module, name)).chain(value_tags(args)).collect(),
        })
    }

    /// Calls `f` with each case. `tier`: thorough = larger products. `sample(n)` → keep 1 of n.
    fn generate(&self, thorough: bool, rng: &mut Rng, f: &mut dyn FnMut(Case)) {
        let all: Vec<&Item> = self.all.iter().collect();
        let reduced: Vec<&Item> = self.all.iter().filter(|i| i.reduced).collect();
        for (module, name) in &self.eps {
            let typed: Vec<&Item> = match instance_type(module) {
                Some(tys) => self.all.iter().filter(|i| tys.contains(&i.ty)).collect(),
                None => vec![],
            };
            // --- module-function form ---------------------------------------------------------
            // arity 0, 1: complete
            if let Some(c) = self.case(module, name, false, &[]) {
                f(c);
            }
            for a in &all {
                if let Some(c) = self.case(module, name, false, &[a]) {
                    f(c);
                }
            }
            // arity 2: typed first argument (or everything when the module has no instance type)
            // × whole pool — complete; wrong-typed first argument × reduced pool — complete;
            // thorough: whole pool × whole pool
            let firsts: Vec<&Item> = if typed.is_empty() || thorough { all.clone() } else { typed.clone() };
            for a in &firsts {
                for b in &all {
                    if let Some(c) = self.case(module, name, false, &[a, b]) {
                        f(c);
                    }
                }
            }
            if !typed.is_empty() && !thorough {
                for a in &reduced {
                    if typed.iter().any(|t| t.expr == a.expr) {
                        continue;
                    }
                    for b in &reduced {
                        if let Some(c) = self.case(module, name, false, &[a, b]) {
                            f(c);
                        }
                    }
                }
            }
            // arity 3: thorough — typed × reduced × reduced complete, plus reduced³;
            // quick — a seeded sample of typed × reduced × reduced
            let firsts3: Vec<&Item> = if typed.is_empty() { reduced.clone() } else { typed.clone() };
            for a in &firsts3 {
                for b in &reduced {
                    for c3 in &reduced {
                        if !thorough && !rng.chance(1, 24) {
                            continue;
                        }
                        if let Some(c) = self.case(module, name, false, &[a, b, c3]) {
                            f(c);
                        }
                    }
                }
            }
            if thorough && !typed.is_empty() {
                // second/third argument from the whole pool for the typed instances: sampled
                for a in &typed {
                    for b in &all {
                        for c3 in &all {
                            if !rng.chance(1, 12) {
                                continue;
                            }
                            if let Some(c) = self.case(module, name, false, &[a, b, c3]) {
                                f(c);
                            }
                        }
                    }
                }
            }
            // --- instance-call form -----------------------------------------------------------
            for a in &typed {
                if let Some(c) = self.case(module, name, true, &[a]) {
                    f(c);
                }
                for b in &all {
                    if let Some(c) = self.case(module, name, true, &[a, b]) {
                        f(c);
                    }
                }
                for b in &reduced {
                    for c3 in &reduced {
                        if !thorough && !rng.chance(1, 24) {
                            continue;
                        }
                        if let Some(c) = self.case(module, name, true, &[a, b, c3]) {
                            f(c);
                        }
                    }
                }
            }
        }
    }
}

// ---- (c) generated small programs mixing operators on pool values ---------------------------------

const BIN_OPS: &[&str] = &["+", "-", "*", "/", "%", "^", "==", "!=", "<", "<=", ">", ">=", "and", "or"];
const ASSIGN_OPS: &[&str] = &["+=", "-=", "*=", "/=", "%=", "^="];

fn op_api(op: &str) -> String {
    format!("op:{}", op)
}

fn program_cases(thorough: bool, rng: &mut Rng, f: &mut dyn FnMut(Case)) {
    let all = all_items();
    let all: Vec<&Item> = all.iter().collect();
    let reduced: Vec<&Item> = all.iter().filter(|i| i.reduced).copied().collect();
    let nums: Vec<&Item> = all.iter().filter(|i| i.ty == Ty::Num).copied().collect();
    let mk = |items: &[&Item], body: String, mut apis: Vec<String>| {
        apis.extend(value_tags(items));
        Case { kind: 'R', text: script_for(items, &body), group: "program", apis }
    };
    // 1. binary operators and compound assignment: numbers × numbers complete; whole pool² complete
    //    in thorough, reduced² in quick
    for a in &nums {
        for b in &nums {
            for op in BIN_OPS {
                f(mk(&[a, b], format!("{} {} {}", a.expr, op, b.expr), vec![op_api(op)]));
            }
            for op in ASSIGN_OPS {
                f(mk(&[a, b], format!("x = {}\nx {} {}\nx", a.expr, op, b.expr), vec![op_api(op)]));
            }
        }
    }
    let (pa, pb): (&Vec<&Item>, &Vec<&Item>) = if thorough { (&all, &all) } else { (&reduced, &all) };
    for a in pa {
        for b in pb {
            if a.ty == Ty::Num && b.ty == Ty::Num {
                continue;
            }
            for op in BIN_OPS {
                f(mk(&[a, b], format!("{} {} {}", a.expr, op, b.expr), vec![op_api(op)]));
            }
            for op in ASSIGN_OPS {
                f(mk(&[a, b], format!("x = {}\nx {} {}\nx", a.expr, op, b.expr), vec![op_api(op)]));
            }
        }
    }
    // 2. unary, ranges, indexing, index assignment, slicing, unpacking, patterns, loops, strings
    for a in &all {
        for (t, api) in [
            ("-({a})", "op:neg"),
            ("not ({a})", "op:not"),
            ("size ({a})", "op:size"),
            ("'{{a}}'", "op:interpolate"),
            ("'{{a}:>8.3}'", "op:interpolate"),
            ("'{{a}:x}'", "op:interpolate"),
            ("'{{a}:?}'", "op:interpolate"),
            ("x = {a}\nx2 = copy x\nx2 == x", "koto.copy"),
            ("koto.deep_copy({a})", "koto.deep_copy"),
            ("for v in {a}\n  if v == null then break\n  break\n1", "op:for"),
            ("a, b = {a}\n(a, b)", "op:unpack"),
            ("a, b..., c = {a}\n(a, b, c)", "op:unpack"),
            ("match {a}\n  (x, y) then 1\n  (x, ...) then 2\n  (..., y) then 3\n  [x, rest...] then 4\n  [first..., y, z] then 5\n  else 6", "op:match"),
            ("match {a}\n  (x, y, z) then z\n  (x, rest...) then rest\n  (rest..., x, y) then rest\n  else 0", "op:match"),
            ("switch\n  {a} then 1\n  else 2", "op:switch"),
            ("x = {a}\nx.foo = 1\nx", "op:access_assign"),
            ("({a}).foo", "op:access"),
            ("({a})?.foo", "op:access"),
            ("koto.type({a})", "koto.type"),
            ("f = |a| a\ntry\n  f()\ncatch e\n  print e", "op:call-arity-catch"),
            ("f = |a, b| a\ntry\n  f({a})\ncatch e\n  print '{e}'", "op:call-arity-catch"),
            ("f = || 1\ntry\n  f({a}, {a})\ncatch e\n  print e", "op:call-arity-catch"),
            ("f = |a, b, c| a\nx = try\n  f({a})\ncatch e\n  (e, {a})\nx", "op:call-arity-catch"),
            ("export x = {a}\nkoto.exports()", "koto.exports"),
            ("try\n  throw {a}\ncatch e\n  e", "op:throw"),
            ("f = |x = {a}| x\nf()", "op:call"),
            ("g = || yield {a}\ng().to_tuple()", "op:yield"),
            ("({a})({a})", "op:call"),
            ("x = [{a}, {a}]\nx.sort()\nx", "list.sort"),
            ("x = {{a}: 1}\nx", "op:map-key"),
            // everything that traverses a value (cyclic / very deep values are in the pool)
            ("({a}) == ({a})", "op:=="),
            ("x = {a}\ny = koto.deep_copy? x\nx != y", "op:!="),
            ("({a}) < ({a})", "op:<"),
            ("koto.hash({a})", "koto.hash"),
            ("debug {a}", "op:debug"),
            ("'{{a}} {{a}:?} {{a}:>40.3}'", "op:interpolate"),
            ("string.format('{} {:?}', {a}, {a})", "string.format"),
            ("copy {a}", "koto.copy"),
            ("koto.deep_copy {a}", "koto.deep_copy"),
            ("[{a}, 1].contains({a})", "list.contains"),
            ("({a}, 1).contains({a})", "tuple.contains"),
            ("x = [{a}, {a}, 1]\nx.sort()\nx", "list.sort"),
            ("({a}, {a}).sort_copy()", "tuple.sort_copy"),
            ("x = [{a}, {a}]\nx.sort |v| v\nx", "list.sort"),
            ("[{a}, {a}].min()", "iterator.min"),
            ("[{a}, {a}].max()", "iterator.max"),
            ("[{a}, {a}].min_max()", "iterator.min_max"),
            ("({a}).to_list()", "iterator.to_list"),
            ("({a}).to_tuple()", "iterator.to_tuple"),
            ("[{a}, [{a}]].flatten().to_list()", "iterator.flatten"),
            ("({a}).flatten().to_tuple()", "iterator.flatten"),
            ("[{a}].to_string()", "iterator.to_string"),
            ("({a}).iter().to_map()", "iterator.to_map"),
            ("json.to_string {a}", "json.to_string"),
            ("yaml.to_string {a}", "yaml.to_string"),
            ("toml.to_string {a}", "toml.to_string"),
            ("json.to_string {v: {a}}", "json.to_string"),
            ("toml.to_string {v: {a}}", "toml.to_string"),
            ("test.assert_eq {a}, {a}", "test.assert_eq"),
            ("test.assert_ne {a}, {a}", "test.assert_ne"),
            ("test.assert_near {a}, {a}", "test.assert_near"),
            ("m = {}\nm.insert(({a}, 1), 1)\nm.get(({a}, 1))", "map.insert"),
            ("x = ({a}, {a})\nmatch x\n  (p, q) if p == q then 1\n  else 2", "op:match"),
            ("x = [{a}]\nx.retain {a}\nx", "list.retain"),
            ("({a}, 1) == ({a}, 1)", "op:=="),
            ("[{a}] in [[{a}]]", "op:in"),
            ("throw {a}", "op:throw"),
            ("f = |x: List| x\nf {a}", "op:typecheck"),
            ("export cyc = {a}\nkoto.exports()", "koto.exports"),
            // map keys from the whole pool (NaN, -0.0, ranges, …) through update / insert / get / remove
            ("m = {}\nm.update({a}, |x| x)\nm", "map.update"),
            ("m = {}\nm.update({a}, 0, |x| x + 1)\nm.update({a}, 0, |x| x + 1)\nsize m", "map.update"),
            ("m = {}\nm.insert({a}, 1)\n(m.get({a}), m.contains_key({a}), m.remove({a}), size m)", "map.insert"),
            // list.retain with predicates that resize the list
            ("x = [1, 2, 3, 4]\nx.retain |v|\n  x.pop()\n  {a} != 'zz'\nx", "list.retain"),
            ("x = [1, 2, 3, 4]\nx.retain |v|\n  x.clear()\n  true\nx", "list.retain"),
            ("x = [1, 2, 3, 4]\nx.retain |v|\n  x.push({a})\n  v != 2\nx", "list.retain"),
        ] {
            // walking a range of ~2^63 elements never finishes (and since 256df45 it no longer fails
            // fast with a capacity overflow): the huge ranges are not offered to consuming templates
            if api.starts_with("iterator.") && matches!(a.expr, "(0..=9223372036854775807)" | "((-9223372036854775807 - 1)..9223372036854775807)") {
                continue;
            }
            let body = t.replace("{a}", a.expr);
            f(mk(&[a], body, vec![api.to_string()]));
        }
    }
    let (pa, pb): (&Vec<&Item>, &Vec<&Item>) = if thorough { (&all, &all) } else { (&all, &all) };
    for a in pa {
        for b in pb {
            for (t, api) in [("({a})[{b}]", "op:index"), ("x = {a}\nx[{b}] = 9\nx", "op:index_assign"), ("({a})..({b})", "op:range"), ("({a})..=({b})", "op:range"),
                             ("x = {a}\nx[{b}] = ('c', 9)\nx", "op:index_assign"), ("({a})[{b}..]", "op:index"), ("({a})[..{b}]", "op:index"), ("({a})[..={b}]", "op:index")] {
                let body = t.replace("{a}", a.expr).replace("{b}", b.expr);
                f(mk(&[a, b], body, vec![api.to_string()]));
            }
        }
    }
    // ranges built from numbers: size, iteration, containment, indexing into containers
    for a in &nums {
        for b in &nums {
            for (t, api) in [("size (({a})..({b}))", "op:range"), ("size (({a})..=({b}))", "op:range"),
                             ("for i in ({a})..({b})\n  break\n1", "op:for-range"), ("for i in ({a})..=({b})\n  break\n1", "op:for-range"),
                             ("r = ({a})..=({b})\nr.contains 1", "range.contains"), ("[1, 2, 3][({a})..({b})]", "op:index"), ("'héllo'[({a})..=({b})]", "op:index"),
                             ("(1, 2, 3)[({a})..({b})]", "op:index"), ("x = [1, 2, 3]\nx[({a})..=({b})] = 0\nx", "op:index_assign"),
                             ("(({a})..({b}))[1]", "op:index"), ("(({a})..=({b}))[0]", "op:index"), ("(({a})..)[({b})]", "op:index"),
                             ("match ({a})..({b})\n  (x, y) then 1\n  (x, ...) then 2\n  else 3", "op:match-range"),
                             ("match ({a})..=({b})\n  (..., y) then y\n  else 3", "op:match-range"),
                             ("x, y = ({a})..=({b})\nx", "op:unpack-range"),
                             ("(({a})..({b})).iter().next_back()", "iterator.next_back"), ("(({a})..=({b})).iter().next_back()", "iterator.next_back"),
                             ("(({a})..=({b})).iter().next()", "iterator.next"),
                             // number.step_to from both ends, at the limits, with zero / negative / huge steps
                             ("(({a}).step_to({b})).take(3).to_tuple()", "number.step_to"),
                             ("(({a}).step_to({b})).reversed().take(3).to_tuple()", "number.step_to"),
                             ("(({a}).step_to(0, {b})).take(3).to_tuple()", "number.step_to"),
                             ("(({a}).step_to({b}, 0)).take(3).to_tuple()", "number.step_to"),
                             ("(({a}).step_to({b}, {b})).reversed().take(2).to_tuple()", "number.step_to"),
                             ("(({b}).step_to({a}, 9223372036854775807)).take(5).to_tuple()", "number.step_to"),
                             ("i = ({a}).step_to({b}, 4611686018427387904)\n(i.next_back(), i.next(), i.next_back(), i.next())", "number.step_to")] {
                let body = t.replace("{a}", a.expr).replace("{b}", b.expr);
                f(mk(&[a, b], body, vec![api.to_string()]));
            }
        }
    }
    // 3. seeded random compositions (depth ≤ 3)
    let n_random = if thorough { 150_000 } else { 12_000 };
    // (the two ~2^63-element ranges are left out here: a consumer would walk them forever)
    let all: Vec<&Item> = all.iter().filter(|i| !matches!(i.expr, "(0..=9223372036854775807)" | "((-9223372036854775807 - 1)..9223372036854775807)")).copied().collect();
    for _ in 0..n_random {
        let mut used: Vec<&Item> = vec![];
        let mut apis: Vec<String> = vec![];
        let e = random_expr(rng, &all, 3, &mut used, &mut apis);
        let body = match rng.below(4) {
            0 => format!("x = {}\nx", e),
            1 => format!("'{{{}}}'", e),
            2 => format!("try\n  {}\ncatch err\n  '{{err}}'", e),
            _ => e,
        };
        apis.extend(value_tags(&used));
        f(Case { kind: 'R', text: script_for(&used, &body), group: "program-random", apis });
    }
}

fn random_expr<'a>(rng: &mut Rng, all: &[&'a Item], depth: u32, used: &mut Vec<&'a Item>, apis: &mut Vec<String>) -> String {
    if depth == 0 || rng.chance(1, 4) {
        let it = *rng.pick(all);
        used.push(it);
        return it.expr.to_string();
    }
    match rng.below(7) {
        0 | 1 => {
            let op = *rng.pick(BIN_OPS);
            apis.push(op_api(op));
            format!("({} {} {})", random_expr(rng, all, depth - 1, used, apis), op, random_expr(rng, all, depth - 1, used, apis))
        }
        2 => {
            apis.push("op:index".into());
            format!("({})[{}]", random_expr(rng, all, depth - 1, used, apis), random_expr(rng, all, depth - 1, used, apis))
        }
        3 => {
            apis.push("op:range".into());
            let incl = if rng.chance(1, 2) { "..=" } else { ".." };
            format!("(({}){}({}))", random_expr(rng, all, depth - 1, used, apis), incl, random_expr(rng, all, depth - 1, used, apis))
        }
        4 => {
            apis.push("op:size".into());
            format!("(size {})", random_expr(rng, all, depth - 1, used, apis))
        }
        5 => {
            let (m, n) = *rng.pick(&[("list", "get"), ("iterator", "to_list"), ("iterator", "to_tuple"), ("number", "abs"), ("string", "to_number"), ("iterator", "count"), ("tuple", "first"), ("iterator", "reversed"), ("iterator", "skip"), ("iterator", "take"), ("iterator", "chunks"), ("iterator", "windows"), ("range", "expanded"), ("iterator", "step")]);
            apis.push(format!("{}.{}", m, n));
            let two = matches!(n, "get" | "skip" | "take" | "chunks" | "windows" | "expanded" | "step");
            if two {
                format!("{}.{}({}, {})", m, n, random_expr(rng, all, depth - 1, used, apis), random_expr(rng, all, depth - 1, used, apis))
            } else if matches!(n, "to_list" | "to_tuple" | "count") {
                // consumers get a bounded prefix: a dynamically built range can have ~2^63 elements
                format!("{}.{}(iterator.take({}, 1000))", m, n, random_expr(rng, all, depth - 1, used, apis))
            } else {
                format!("{}.{}({})", m, n, random_expr(rng, all, depth - 1, used, apis))
            }
        }
        _ => {
            apis.push("op:neg".into());
            format!("(-{})", random_expr(rng, all, depth - 1, used, apis))
        }
    }
}

// ---- (a) sources for compile / format / Display ----------------------------------------------------

fn collect_files(dir: &std::path::Path, out: &mut Vec<std::path::PathBuf>) {
    if let Ok(rd) = std::fs::read_dir(dir) {
        let mut es: Vec<_> = rd.filter_map(|e| e.ok()).map(|e| e.path()).collect();
        es.sort();
        for p in es {
            if p.is_dir() {
                if p.file_name().is_some_and(|n| n == "target" || n == ".git" || n == "node_modules") {
                    continue;
                }
                collect_files(&p, out);
            } else if p.extension().is_some_and(|e| e == "koto" || e == "md") {
                out.push(p);
            }
        }
    }
}

/// (name, text): every .koto file and every ```koto fenced block of the docs
fn corpus_sources() -> Vec<(String, String)> {
    let mut files = vec![];
    collect_files(std::path::Path::new(&repo_root()), &mut files);
    let mut out = vec![];
    for f in files {
        let Ok(text) = std::fs::read_to_string(&f) else { continue };
        let name = f.display().to_string();
        if name.ends_with(".koto") {
            out.push((name, text));
        } else {
            let mut in_block = false;
            let mut cur = String::new();
            let mut n = 0;
            for line in text.lines() {
                let t = line.trim_start();
                if !in_block && t.starts_with("```koto") {
                    in_block = true;
                    cur.clear();
                } else if in_block && t.starts_with("```") {
                    in_block = false;
                    n += 1;
                    // doc-test markers: keep the raw block and a normalised variant
                    out.push((format!("{}#{}", name, n), cur.clone()));
                    if cur.contains("print! ") || cur.contains("check! ") {
                        let norm: String = cur
                            .lines()
                            .filter(|l| !l.trim_start().starts_with("check! "))
                            .map(|l| l.replace("print! ", "print "))
                            .collect::<Vec<_>>()
                            .join("\n");
                        out.push((format!("{}#{}n", name, n), norm + "\n"));
                    }
                } else if in_block {
                    cur.push_str(line);
                    cur.push('\n');
                }
            }
        }
    }
    out
}

/// token byte ranges (whole input is covered; lexing stops at the first Error token, the rest is
/// one more range)
fn token_ranges(src: &str) -> Vec<(usize, usize)> {
    let mut out = vec![];
    let mut end = 0;
    let r = guarded("lex", || {
        let mut v = vec![];
        for t in koto_lexer::Lexer::new(src) {
            v.push((t.source_bytes.start, t.source_bytes.end, t.token == koto_lexer::Token::Error));
            if v.len() > 3 * src.len() + 8 {
                break;
            }
        }
        v
    });
    if let Ok(v) = r {
        for (s, e, is_err) in v {
            if is_err || e < s || s != end || e > src.len() || !src.is_char_boundary(e) {
                break;
            }
            out.push((s, e));
            end = e;
        }
    }
    if end < src.len() {
        out.push((end, src.len()));
    }
    out
}

#[derive(Clone, Copy, PartialEq, Eq, Debug)]
enum Mutation {
    Delete,
    Duplicate,
    Swap,
}

fn mutate(src: &str, toks: &[(usize, usize)], i: usize, m: Mutation) -> Option<String> {
    let (s, e) = toks[i];
    match m {
        Mutation::Delete => Some(format!("{}{}", &src[..s], &src[e..])),
        Mutation::Duplicate => Some(format!("{}{}{}", &src[..e], &src[s..e], &src[e..])),
        Mutation::Swap => {
            let (s2, e2) = *toks.get(i + 1)?;
            Some(format!("{}{}{}{}", &src[..s], &src[s2..e2], &src[s..e], &src[e2..]))
        }
    }
}

/// distinct token texts of the corpus, for token soups
fn token_vocabulary(sources: &[(String, String)]) -> Vec<String> {
    let mut set: BTreeSet<String> = BTreeSet::new();
    for (_, s) in sources {
        for (a, b) in token_ranges(s) {
            let t = &s[a..b];
            if t.len() <= 24 {
                set.insert(t.to_string());
            }
        }
    }
    for extra in ["\n", "\n  ", "\n    ", "\n      ", " ", "\t", "\r\n", "#-", "-#", "'", "\"", "{", "}", "r#'", "'#", "\\", "...", "@", "?", "->", "=>"] {
        set.insert(extra.to_string());
    }
    set.into_iter().collect()
}

fn compile_case(text: String, group: &'static str) -> Case {
    Case { kind: 'C', text, group, apis: vec!["compile".into(), "format".into(), "display".into()] }
}

// ---- (d) control-flow endings: bodies whose final statement is a control-flow statement nested in
//          blocks without else (class of aad4e1c: a function ran off the end of its bytecode) -------------

/// a block: lines that open it (relative indent, text), the indent of the nested body, and lines
/// that close it
struct Blk {
    open: &'static [(usize, &'static str)],
    body: usize,
    close: &'static [(usize, &'static str)],
}

const BLOCKS: &[Blk] = &[
    Blk { open: &[(0, "if c")], body: 1, close: &[] },
    Blk { open: &[(0, "if not c")], body: 1, close: &[] },
    Blk { open: &[(0, "if c"), (1, "k += 1"), (0, "else if k > 5")], body: 1, close: &[] },
    Blk { open: &[(0, "for x in (1, 2)")], body: 1, close: &[] },
    Blk { open: &[(0, "while k < 2"), (1, "k += 1")], body: 1, close: &[] },
    Blk { open: &[(0, "until k >= 2"), (1, "k += 1")], body: 1, close: &[] },
    Blk { open: &[(0, "try")], body: 1, close: &[(0, "catch e"), (1, "k")] },
    Blk { open: &[(0, "try"), (1, "throw 'inner'"), (0, "catch e")], body: 1, close: &[] },
    Blk { open: &[(0, "try"), (1, "k"), (0, "catch e"), (1, "k"), (0, "finally")], body: 1, close: &[] },
    Blk { open: &[(0, "match c"), (1, "true then")], body: 2, close: &[] },
    Blk { open: &[(0, "match c"), (1, "false then 0"), (1, "else")], body: 2, close: &[] },
    Blk { open: &[(0, "switch"), (1, "c then")], body: 2, close: &[] },
];

const FINALS: &[&str] = &["return", "return 42", "return (1, 2)", "break", "break 5", "continue", "throw 'x'", "yield 7", "return yield 8"];

fn control_flow_cases(thorough: bool, rng: &mut Rng, f: &mut dyn FnMut(Case)) {
    let api = vec!["gen:control-flow-ending".to_string()];
    let emit = |body: Vec<(usize, String)>, f: &mut dyn FnMut(Case)| {
        // three embeddings of the same body: function, generator (a yield first), top level
        for variant in 0..3 {
            let mut s = String::new();
            let base = if variant == 2 { 0 } else { 1 };
            match variant {
                0 => s.push_str("f = |c|\n  k = 0\n"),
                1 => s.push_str("f = |c|\n  k = 0\n  yield k\n"),
                _ => s.push_str("c = true\nk = 0\n"),
            }
            for (ind, l) in &body {
                for _ in 0..(base + ind) {
                    s.push_str("  ");
                }
                s.push_str(l);
                s.push('\n');
            }
            match variant {
                0 => s.push_str("r = []\nfor a in (true, false, null, 1)\n  try\n    r.push f(a)\n  catch e\n    r.push 'err'\nr\n"),
                1 => s.push_str("r = []\nfor a in (true, false, null, 1)\n  try\n    r.push f(a).to_tuple()\n  catch e\n    r.push 'err'\nr\n"),
                _ => {}
            }
            f(Case { kind: 'R', text: s, group: "control-flow-ending", apis: api.clone() });
        }
    };
    let build = |chain: &[&Blk], fin: &str, prefix: bool| -> Vec<(usize, String)> {
        let mut lines: Vec<(usize, String)> = vec![];
        if prefix {
            lines.push((0, "k += 10".to_string()));
        }
        let mut ind = 0;
        let mut closes: Vec<(usize, &'static [(usize, &'static str)])> = vec![];
        for b in chain {
            for (i, l) in b.open {
                lines.push((ind + i, l.to_string()));
            }
            closes.push((ind, b.close));
            ind += b.body;
        }
        lines.push((ind, fin.to_string()));
        for (ci, cl) in closes.iter().rev() {
            for (i, l) in cl.iter() {
                lines.push((ci + i, l.to_string()));
            }
        }
        lines
    };
    // depth 0 (the statement itself) and inline forms
    for fin in FINALS {
        emit(vec![(0, fin.to_string())], f);
        emit(vec![(0, format!("if c then {}", fin))], f);
    }
    // depth 1 and 2: complete; depth 3: complete in thorough, seeded sample in quick
    for b1 in BLOCKS {
        for fin in FINALS {
            for prefix in [false, true] {
                emit(build(&[b1], fin, prefix), f);
            }
            for b2 in BLOCKS {
                emit(build(&[b1, b2], fin, false), f);
                for b3 in BLOCKS {
                    if !thorough && !rng.chance(1, 8) {
                        continue;
                    }
                    emit(build(&[b1, b2, b3], fin, false), f);
                }
            }
        }
    }
}

// ---- (e) register pressure: fill a frame's registers to ~240..255, then compile every form
//          (class of fa404dd: compile_make_sequence with no temporary register left) -----------------------

/// expression forms (one line)
const EXPR_FORMS: &[&str] = &[
    "[1, 2]", "(1, 2)", "[1, 2, 3, 4, 5]", "(x, y, x)", "{a: 1, b: 2}", "[[1, 2], (3, 4)]", "{a: [1, 2], b: (x, y)}",
    "'{x} and {y}'", "'{x:>5} {y:.2}'", "'a {[1, 2]} b'", "g(1, 2)", "g(x, [1, 2], (3, 4))", "g(xs...)", "g(1, xs..., 2)",
    "xs[0]", "xs[0..1]", "xs[1..]", "m.a", "m.get('a')", "xs.first()", "xs.iter().skip(1).take(1).to_tuple()", "m?.a?.b",
    "x..y", "x..=y", "(x..y).to_tuple()", "1 + 2 * 3", "x + y * x - y", "1 < 2 < 3", "x < y <= x", "x and y or x", "not x",
    "-x", "if x then [1, 2] else (3, 4)", "|a, b| [a, b]", "(|a| (a, a))(1)", "xs.each(|v| [v, v]).to_list()",
    "size [1, 2, 3]", "koto.type (1, 2)", "'x'", "null", "x = y = [1, 2]", "(a2, b2 = 1, 2)", "[(1, 2), [3, 4], {k: (5, 6)}]",
    "{@+: |o| [1, 2]}", "xs.fold(0, |a, b| a + b)", "match x\n    1 then [1, 2]\n    else (3, 4)",
];

/// statement forms (possibly several lines; `~` marks the statement's own indentation)
const STMT_FORMS: &[&str] = &[
    "a2, b2 = 1, 2", "a2, b2 = xs", "a2, b2..., c2 = 1, 2, 3, 4", "(a2, b2), c2 = (1, 2), 3", "xs[0] = [1, 2]", "m.a = (1, 2)", "x += 1",
    "for a2, b2 in ((1, 2), (3, 4))\n~  [a2, b2]", "for v in [1, 2]\n~  (v, v)", "while false\n~  [1, 2]",
    "match xs\n~  (a2, b2) then [a2, b2]\n~  [a2, rest...] then (a2, rest)\n~  else [1, 2]",
    "match x, y\n~  1, 2 then [1, 2]\n~  else (3, 4)", "switch\n~  x == 1 then [1, 2]\n~  else (3, 4)",
    "try\n~  throw [1, 2]\n~catch e\n~  (e, e)", "try\n~  [1, 2]\n~catch e\n~  e\n~finally\n~  (1, 2)",
    "h = |a, b = [1, 2], c...| (a, b, c)\n~h(1)", "h = || yield [1, 2]\n~h().to_tuple()", "export z9 = [1, 2]", "debug [1, 2]",
    "assert_eq [1, 2], [1, 2]", "print '{x} {y}'", "return [1, 2]", "throw (1, 2)", "if x\n~  [1, 2]\n~else\n~  (3, 4)",
    "let q: List = [1, 2]", "from koto import type, size", "import number.pi as pp",
];

fn register_pressure_cases(thorough: bool, f: &mut dyn FnMut(Case)) {
    let api = vec!["gen:register-pressure".to_string()];
    let pre = "g = |args...| size args\nx = 1\ny = 2\nxs = [1, 2, 3]\nm = {a: {b: 1}}\n";
    let levels: Vec<usize> = if thorough { (236..=256).collect() } else { vec![240, 246, 248, 249, 250, 251, 252, 253, 254, 255] };
    let emit = |text: String, f: &mut dyn FnMut(Case)| f(Case { kind: 'R', text, group: "register-pressure", apis: api.clone() });
    for &n in &levels {
        let zeros = |k: usize| vec!["0"; k].join(", ");
        for e in EXPR_FORMS {
            let inline = !e.contains("\n");
            if inline {
                // B. many call arguments, the form last / first
                emit(format!("{}g({}, {})\n", pre, zeros(n), e), f);
                emit(format!("{}g({}, {}, 0)\n", pre, e, zeros(n.saturating_sub(2))), f);
                // D. nested binary operations hold one temporary per level
                let mut s = String::new();
                for _ in 0..n {
                    s.push_str("1 + (");
                }
                s.push_str(&format!("size [{}]", e));
                for _ in 0..n {
                    s.push(')');
                }
                emit(format!("{}r = {}\n", pre, s), f);
                // E. a long list / tuple / map literal with the form as its last entry
                emit(format!("{}r = [{}, {}]\n", pre, zeros(n), e), f);
                emit(format!("{}r = ({}, {})\n", pre, zeros(n), e), f);
                // F. a long interpolated string
                let parts: String = (0..n.min(250)).map(|_| "{0}").collect();
                emit(format!("{}r = '{}{{{}}}'\n", pre, parts, e.replace('\'', "\"")), f);
                // C. locals + call arguments
                let locals: String = (0..200).map(|i| format!("  v{} = {}\n", i, i)).collect();
                emit(format!("{}f = ||\n{}  g({}, {})\nf()\n", pre, locals, zeros(n.saturating_sub(200)), e), f);
            }
            // A. many locals, then the form as a statement in the same frame
            let locals: String = (0..n).map(|i| format!("  v{} = {}\n", i, i)).collect();
            emit(format!("{}f = ||\n{}  r = {}\n  r\nf()\n", pre, locals, e), f);
        }
        for st in STMT_FORMS {
            let locals: String = (0..n).map(|i| format!("  v{} = {}\n", i, i)).collect();
            emit(format!("{}f = ||\n{}  {}\nf()\n", pre, locals, st.replace('~', "  ")), f);
            // G. locals + captures (Frame::new) — the inner function captures 12 outer locals
            let outer: String = (0..12).map(|i| format!("c{} = {}\n", i, i)).collect();
            let caps: String = (0..12).map(|i| format!("c{}", i)).collect::<Vec<_>>().join(" + ");
            let locals2: String = (0..n.saturating_sub(14)).map(|i| format!("  v{} = {}\n", i, i)).collect();
            emit(format!("{}{}f = ||\n{}  {}\n  {}\nf()\n", pre, outer, locals2, st.replace('~', "  "), caps), f);
            // at the top level (the main chunk's frame)
            let locals0: String = (0..n).map(|i| format!("v{} = {}\n", i, i)).collect();
            emit(format!("{}{}{}\n", pre, locals0, st.replace('~', "")), f);
        }
    }
}

// ---- (f) iterator re-entrancy: every iterator.* entry point applied to an iterator whose callback /
//          adaptor body advances that same iterator ------------------------------------------------------

fn iterator_reentrancy_cases(eps: &[(String, String)], f: &mut dyn FnMut(Case)) {
    let callbacks = [
        "|x| ri.next() != 'zz'",
        "|a, b| ri.next()",
        "|x| ri.next_back()",
        "|x| size ri.to_tuple()",
        "|x| ri.copy().next()",
        "|a, b| a + b + (ri.next()?.get() or 0)",
        "|x| ri.peekable().peek()",
        "|x| ri.reversed().next()",
    ];
    for (module, name) in eps {
        if module != "iterator" {
            continue;
        }
        let api = vec![format!("iterator.{}", name), ITER_REENTRANCY.to_string()];
        let mut emit = |body: String| f(Case { kind: 'R', text: body, group: "iterator-reentrancy", apis: api.clone() });
        for cb in callbacks {
            // the callback advances the iterator that is being consumed
            for args in [format!("{}", cb), format!("0, {}", cb), format!("{}, 0", cb), format!("(1..3), {}", cb)] {
                emit(format!("ri = (1..5).iter()\nr = ri.{}({})\nif koto.type(r) == 'Iterator'\n  r = r.to_tuple()\n(r, ri.to_tuple())\n", name, args));
                emit(format!("ri = (1..5).iter().peekable()\nri.peek()\nr = ri.{}({})\nif koto.type(r) == 'Iterator'\n  r = r.to_tuple()\nr\n", name, args));
            }
        }
        // an adaptor whose callback advances the adaptor itself (through a map that holds it)
        for cb in ["|x| rh.j.next()", "|a, b| rh.j.next()", "|x| rh.j.next_back() != 'zz'", "|x| rh.j.to_tuple()", "|x| size rh.j"] {
            for args in [format!("{}", cb), format!("0, {}", cb), format!("(1..3), {}", cb)] {
                emit(format!("rh = {{}}\nrh.j = (1..5).{}({})\nr = if koto.type(rh.j) == 'Iterator' then (rh.j.next(), rh.j.next_back(), rh.j.to_tuple()) else rh.j\nr\n", name, args));
            }
        }
        // a generator that pulls from itself while it is being consumed by the entry point
        for args in ["", "|x| true", "0, |a, b| a", "2"] {
            emit(format!("rg = {{}}\nrg.f = ||\n  yield 1\n  yield rg.g.next()\n  yield rg.g.{}({})\n  yield 2\nrg.g = rg.f()\nr = rg.g.{}({})\nif koto.type(r) == 'Iterator'\n  r = r.to_tuple()\nr\n", name, args, name, args));
        }
    }
}

// ---- (g) extreme depth: finite values nested 2000 .. 100000 deep through the traversal templates, and
//          dropped at scope exit (100000 / 300000). Every case is tagged val:cyclic-deep (a native stack
//          overflow is a VIOLATION unless a listed finding covers that entry point) ------------------------

fn extreme_depth_cases(f: &mut dyn FnMut(Case)) {
    let kinds = [("tuple", "(1,)", "(x,)", "(y,)"), ("list", "[1]", "[x]", "[y]"), ("map", "{v: 1}", "{v: x}", "{v: y}")];
    // (body, tags): bodies end in a small value so that the worker's display of the result is not
    // what traverses the deep value (unless that is the point of the template)
    let templates: &[(&str, &[&str])] = &[
        ("json.to_string x\nnull", &["json.to_string"]),
        ("yaml.to_string x\nnull", &["yaml.to_string"]),
        ("toml.to_string {v: x}\nnull", &["toml.to_string"]),
        ("s = '{x}'\nsize s", &["deep:display"]),
        ("s = '{x:?}'\nsize s", &["deep:display"]),
        ("s = string.format('{}', x)\nsize s", &["deep:display"]),
        ("x", &["deep:display"]),
        ("throw x", &["deep:display"]),
        ("x == y", &["op:=="]),
        ("x != y", &["op:!="]),
        ("x < y", &["op:<"]),
        ("test.assert_eq x, y\nnull", &["test.assert_eq", "deep:display"]),
        ("r = koto.deep_copy x\nnull", &["koto.deep_copy"]),
        ("r = copy x\nnull", &["koto.copy"]),
        ("koto.hash x", &["deep:hash"]),
        ("m = {}\nm.insert(x, 1)\nsize m", &["deep:map-key"]),
        ("m = {}\nm.insert((x, 1), 1)\nm.get((y, 1))", &["deep:map-key"]),
        ("size x", &["op:size"]),
        ("[x, 1].contains(y)", &["list.contains"]),
        ("(x, 1).contains(y)", &["tuple.contains"]),
        ("l = [x, y]\nl.sort()\nnull", &["list.sort"]),
        ("r = [x, y].min()\nnull", &["iterator.min"]),
        ("r = x.to_list()\nnull", &["iterator.to_list"]),
        ("r = [x, [y]].flatten().to_list()\nnull", &["iterator.flatten"]),
        ("match x\n  (a,) then 1\n  [a] then 2\n  else 3", &["op:match"]),
        ("r = koto.type x\nr", &["koto.type"]),
        ("export z = x\nnull", &["koto.exports"]),
        ("f = |v| size v\nf x", &["op:call"]),
        ("g = || yield x\nr = g().next()\nnull", &["op:yield"]),
    ];
    for (kind, init, wrap_x, wrap_y) in kinds {
        // nothing but building the value and dropping it when the script ends — emitted first: when
        // the drop alone overflows the stack at some depth, every other template at that depth (or
        // deeper) of the same kind dies for the same reason and is attributed to it
        for depth in [2000usize, 5000, 20000, 100000, 300000] {
            let text = format!("x = {}\nfor i in 0..{}\n  x = {}\nnull\n", init, depth, wrap_x);
            f(Case { kind: 'R', text, group: "extreme-depth", apis: vec!["deep:drop".to_string(), CYCLIC_DEEP.to_string(), format!("depth:{}:{}", kind, depth), "gen:extreme-depth".to_string()] });
        }
        for depth in [2000usize, 5000, 20000, 100000] {
            for (body, tags) in templates {
                let text = format!("x = {}\ny = {}\nfor i in 0..{}\n  x = {}\n  y = {}\n{}\n", init, init, depth, wrap_x, wrap_y, body);
                let mut apis: Vec<String> = tags.iter().map(|t| t.to_string()).collect();
                apis.push(CYCLIC_DEEP.to_string());
                apis.push(format!("depth:{}:{}", kind, depth));
                apis.push("gen:extreme-depth".to_string());
                f(Case { kind: 'R', text, group: "extreme-depth", apis });
            }
        }
    }
}

// ---- (h) metamethods that mutate the container they live in, inconsistent comparisons, functions and
//          generators with many defaulted parameters at register pressure ---------------------------------

fn meta_mutator_cases(eps: &[(String, String)], thorough: bool, f: &mut dyn FnMut(Case)) {
    // (h1) an element whose @display mutates the enclosing container, shown in every way
    let shows = ["'{c}'", "print c", "debug c", "string.format('{} {}', c, c)", "'{c:?}'", "throw c", "'{(c, c)}'", "koto.type c", "test.assert_eq c, 1", "c", "'{c.first()}'"];
    let containers = [
        ("c = []", "c.push e", "c.push 1", "c.clear()", "c.pop()"),
        ("c = {}", "c.insert 'e', e", "c.insert 'zz', 1", "c.clear()", "c.remove 'e'"),
        ("inner = []\nc = [inner, 1]", "inner.push e", "c.push 1", "c.clear()", "inner.clear()"),
        ("c = {inner: []}", "c.inner.push e", "c.insert 'zz', 1", "c.inner.push 1", "c.clear()"),
    ];
    for (init, put, m1, m2, m3) in containers {
        for mutation in [m1, m2, m3] {
            for show in shows {
                let text = format!("{}\ne =\n  @display: ||\n    {}\n    'e'\n{}\n{}\n", init, mutation, put, show);
                f(Case { kind: 'R', text, group: "meta-mutator", apis: vec!["gen:display-mutator".to_string()] });
            }
        }
    }
    // (h2) an element whose operators / protocols mutate the container, through every entry point of
    //      list / tuple / map / iterator that compares, adds, iterates or calls
    let metas = ["@==", "@!=", "@<", "@<=", "@>", "@>=", "@+", "@-", "@*", "@/", "@%", "@negate", "@size", "@index", "@call", "@iterator", "@next"];
    let meta_body = |mutation: &str| -> String {
        let mut b = String::from("e =\n  n: 1\n");
        for m in metas {
            let args = match m {
                "@negate" | "@size" | "@iterator" | "@next" => "||",
                "@call" => "|x|",
                _ => "|other|",
            };
            let ret = match m {
                "@==" | "@<=" | "@>=" => "true",
                "@!=" | "@<" | "@>" => "false",
                "@size" => "1",
                "@iterator" => "(1, 2)",
                "@next" => "null",
                _ => "self",
            };
            b.push_str(&format!("  {}: {}\n    {}\n    {}\n", m, args, mutation, ret));
        }
        b
    };
    for (module, name) in eps {
        if !matches!(module.as_str(), "list" | "tuple" | "map" | "iterator") {
            continue;
        }
        let api = format!("{}.{}", module, name);
        for (init, put, m1, m2, m3) in [
            ("c = [3, 1, 2]", "c.push e\nc.push 0", "c.push 9", "c.clear()", "c.pop()"),
            ("c = {a: 3, b: 1}", "c.insert 'e', e\nc.insert 'z', 0", "c.insert 'zz', 9", "c.clear()", "c.remove 'a'"),
        ] {
            if module == "map" && !init.starts_with("c = {") || module == "list" && !init.starts_with("c = [") {
                continue;
            }
            for mutation in [m1, m2, m3] {
                let recv = if module == "tuple" { "(c, e, 1)" } else if module == "iterator" && init.starts_with("c = {") { "c.values()" } else { "c" };
                for args in ["", "e", "|x| x", "|x| e", "e, e", "|a, b| e", "0, |a, b| e", "1", "(e, 1)", "[e]"] {
                    let text = format!("{}\n{}{}\nr = ({}).{}({})\nif koto.type(r) == 'Iterator'\n  r = r.to_tuple()\nsize c\n", init, meta_body(mutation), put, recv, name, args);
                    let mut apis = vec![api.clone(), "gen:meta-mutator".to_string()];
                    if module == "iterator" && matches!(name.as_str(), "cycle" | "repeat" | "generate") {
                        // the template collects the result: an endless sequence — the result would have to hold it all
                        apis.push(UNBOUNDED_GROWTH.to_string());
                    }
                    f(Case { kind: 'R', text, group: "meta-mutator", apis });
                }
            }
        }
    }
    // operators applied directly
    for op in ["==", "!=", "<", ">", "+", "in"] {
        for mutation in ["c.push 9", "c.clear()", "c.pop()"] {
            for expr in [format!("c {} [e]", op), format!("[e] {} c", op), format!("(c, 1) {} (c, 1)", op), format!("e {} c", op), format!("c {} e", op)] {
                let text = format!("c = [3, 1, 2]\n{}c.push e\nr = try\n  {}\ncatch err\n  'err'\nsize c\n", meta_body(mutation), expr);
                f(Case { kind: 'R', text, group: "meta-mutator", apis: vec![format!("op:{}", op), "gen:meta-mutator".to_string()] });
            }
        }
    }
    // (h3) comparisons that are not a total order, over 20 .. 1000 elements, for every sorting / extremum
    //      entry point (Rust's slice::sort_by may panic when it detects an inconsistent order)
    let sizes: &[usize] = if thorough { &[20, 21, 33, 50, 100, 257, 500, 1000] } else { &[21, 50, 100, 500] };
    // comparator objects: `st` is shared state (a counter and an LCG)
    let comparators = [
        ("lcg", "st.s = (st.s * 1103515245 + 12345) % 2147483648\n    st.s % 2 == 0", "st.s = (st.s * 1103515245 + 12345) % 2147483648\n    st.s % 3 == 0"),
        ("always-true", "true", "true"),
        ("always-false-lt-true-gt", "false", "true"),
        ("alternating", "st.i += 1\n    st.i % 2 == 0", "st.i += 1\n    st.i % 2 == 1"),
        ("reversed-after-100", "st.i += 1\n    if st.i < 100 then self.n < other.n else self.n > other.n", "st.i += 1\n    if st.i < 100 then self.n > other.n else self.n < other.n"),
        ("reversed-after-30", "st.i += 1\n    if st.i < 30 then self.n < other.n else self.n > other.n", "st.i += 1\n    if st.i < 30 then self.n > other.n else self.n < other.n"),
        ("reversed-after-300", "st.i += 1\n    if st.i < 300 then self.n < other.n else self.n > other.n", "st.i += 1\n    if st.i < 300 then self.n > other.n else self.n < other.n"),
        ("flips-every-64", "st.i += 1\n    if (st.i / 64).floor() % 2 == 0 then self.n < other.n else self.n > other.n", "st.i += 1\n    if (st.i / 64).floor() % 2 == 0 then self.n > other.n else self.n < other.n"),
        ("throws-after-50", "st.i += 1\n    if st.i > 50 then throw 'cmp'\n    self.n < other.n", "self.n > other.n"),
        ("non-bool-after-50", "st.i += 1\n    if st.i > 50 then return 'x'\n    self.n < other.n", "self.n > other.n"),
        ("cyclic-mod-3", "(self.n % 3 + 1) % 3 == other.n % 3", "(other.n % 3 + 1) % 3 == self.n % 3"),
    ];
    let uses = [
        ("list.sort", "l = xs.to_list()\nl.sort()\nsize l"),
        ("list.sort", "l = (0..N).to_list()\nl.sort |v| xs[v]\nsize l"),
        ("tuple.sort_copy", "size xs.sort_copy()"),
        ("tuple.sort_copy", "size (0..N).to_tuple().sort_copy |v| xs[v]"),
        ("map.sort", "m = {}\nfor i in 0..N\n  m.insert i, i\nm.sort |k, v| xs[v]\nsize m"),
        ("iterator.min", "r = xs.min()\nnull"),
        ("iterator.max", "r = xs.max()\nnull"),
        ("iterator.min_max", "r = xs.min_max()\nnull"),
        ("iterator.min", "r = (0..N).min |v| xs[v]\nnull"),
        ("iterator.max", "r = (0..N).max |v| xs[v]\nnull"),
        ("list.contains", "xs.to_list().contains xs[0]"),
    ];
    for &n in sizes {
        for (cname, lt, gt) in comparators {
            for (api, body) in uses {
                let text = format!(
                    "st = {{i: 0, s: 7}}\nmk = |n|\n  n: n\n  @<: |other|\n    {}\n  @>: |other|\n    {}\n  @==: |other| self.n == other.n\nxs = (0..{}).each(|i| mk((i * 7919) % {})).to_tuple()\n{}\n",
                    lt, gt, n, n, body.replace("N", &n.to_string())
                );
                f(Case { kind: 'R', text, group: "comparator", apis: vec![api.to_string(), "gen:comparator".to_string(), format!("cmp:{}", cname)] });
            }
        }
        // plain values that stop being comparable part way: one string / null / NaN key among numbers
        for (pos_name, pos) in [("first", 0usize), ("middle", n / 2), ("last", n - 1)] {
            for odd in ["'x'", "null", "(1, 2)", "number.nan", "[1]"] {
                for (api, body) in [
                    ("list.sort", "l.sort()\nsize l"),
                    ("list.sort", "l.sort |v| v\nsize l"),
                    ("tuple.sort_copy", "size l.to_tuple().sort_copy()"),
                    ("iterator.min_max", "r = l.min_max()\nnull"),
                    ("map.sort", "m = {}\nfor v in l\n  m.insert(koto.hash(v), v)\nm.sort |k, v| v\nsize m"),
                ] {
                    let text = format!("l = (0..{}).each(|i| (i * 7919) % {}).to_list()\nl[{}] = {}\n{}\n", n, n, pos, odd, body);
                    f(Case { kind: 'R', text, group: "comparator", apis: vec![api.to_string(), "gen:comparator".to_string(), format!("cmp:incomparable-{}", pos_name)] });
                }
            }
            // map.sort() on keys that include NaN
            let text = format!("m = {{}}\nfor i in 0..{}\n  m.insert((i * 7919) % {}, i)\nm.insert number.nan, 0\nm.insert -0.0, 1\nm.sort()\nsize m\n", n, n);
            f(Case { kind: 'R', text, group: "comparator", apis: vec!["map.sort".to_string(), "gen:comparator".to_string(), format!("cmp:nan-key-{}", pos_name)] });
        }
    }
    // (h4) functions / generators with many defaulted (and variadic) parameters called with few arguments
    //      from frames under register pressure (call_koto_function / call_generator add ids in u8)
    let defaults: &[usize] = if thorough { &[1, 50, 100, 120, 150, 200, 250] } else { &[50, 100, 150, 250] };
    let locals: &[usize] = if thorough { &[0, 50, 100, 150, 170, 180, 190, 200, 220, 240, 250] } else { &[0, 150, 180, 200, 240] };
    for &d in defaults {
        let params: Vec<String> = (0..d).map(|i| format!("p{} = {}", i, i)).collect();
        for (kind, body, consume) in [("function", "  p0", ""), ("generator", "  yield p0\n  yield 1", ".to_tuple()"), ("variadic", "  size rest", "")] {
            let plist = if kind == "variadic" { format!("{}, rest...", params.join(", ")) } else { params.join(", ") };
            for &l in locals {
                let locs: String = (0..l).map(|i| format!("  v{} = {}\n", i, i)).collect();
                for call in ["g()", "g(1)", "g(1, 2, 3)", "(1, 2).each(|x| g(x)).to_tuple()", "g(g())"] {
                    let text = format!("g = |{}|\n{}\nf = ||\n{}  r = {}{}\n  r\nf()\n", plist, body, locs, call, consume);
                    f(Case { kind: 'R', text, group: "default-args", apis: vec!["gen:default-args".to_string(), "gen:register-pressure".to_string()] });
                }
            }
        }
    }
}

// ---- (i) collectors on infinite / astronomically long iterators: the size hint must not be reserved up
//          front (a "capacity overflow" panic before a single value is pulled). After the repair such a call
//          simply never ends (or exhausts memory) — outside the property; the cases run in their own batch with
//          a short limit and no retry ----------------------------------------------------------------------

const INFINITE_COLLECT: &str = "gen:infinite-collect";

fn infinite_collect_cases(thorough: bool, f: &mut dyn FnMut(Case)) {
    let sources_quick = ["(1, 2).cycle()", "'ab'.chars().cycle()", "(1,).chain((1, 2).cycle())", "(1, 2).cycle().zip((3, 4).cycle())", "(1, 2).cycle().each(|x| x)",
        "(0..9223372036854775807).iter()", "(-9223372036854775807).step_to(9223372036854775807)", "iterator.repeat(1, 9223372036854775807)"];
    let sources_more = ["(1, 2).cycle().enumerate()", "(1, 2).cycle().intersperse(0)", "(1, 2).cycle().skip(1)", "(1, 2).cycle().step(2)", "(1, 2).cycle().keep(|x| true)",
        "(1, 2).cycle().peekable()", "(1, 2).cycle().windows(2)", "(1, 2).cycle().chunks(2)", "(1, 2).cycle().take(9223372036854775807)", "((1, 2), (3, 4)).cycle().flatten()",
        "iterator.repeat(1)", "iterator.generate(|| 1)", "(|| loop yield 1)()", "iterator.generate(9223372036854775807, || 1)"];
    let collectors = [
        ("iterator.to_tuple", "X.to_tuple()"),
        ("iterator.to_list", "X.to_list()"),
        ("iterator.to_map", "X.to_map()"),
        ("iterator.to_string", "X.to_string()"),
        ("list.extend", "l = []\nl.extend X\nsize l"),
        ("map.extend", "m = {}\nm.extend X\nsize m"),
        ("string.from_bytes", "string.from_bytes X"),
        ("iterator.cycle", "X.cycle().next()"),
    ];
    let mut sources: Vec<&str> = sources_quick.to_vec();
    if thorough {
        sources.extend(sources_more);
    }
    for src in sources {
        for (api, body) in collectors {
            let text = format!("{}\n", body.replace('X', &format!("({})", src)));
            f(Case { kind: 'R', text, group: "infinite-collect", apis: vec![api.to_string(), INFINITE_COLLECT.to_string()] });
        }
    }
}

// ---- (j) deferred self-capture family (F-C02-8 / F-C02-10 / F-C05-12 / F-C06-33): function literals that
//          reference the id being assigned from NON-direct positions of the right-hand side, each then
//          called; and Koto-implemented operators called many times in a loop (register residue) ---------

fn deferred_capture_cases(f: &mut dyn FnMut(Case)) {
    let api = vec!["gen:deferred-capture".to_string()];
    // the function literal: L = references f, N = does not; `{caps}` = other captured ids
    let lit = |refs_f: bool, caps: usize, f_first: bool, generator: bool| -> String {
        let others: Vec<&str> = ["x", "y", "z"].iter().take(caps).copied().collect();
        let rec = if refs_f { "(if n <= 0 then 0 else f(n - 1))" } else { "n" };
        let mut terms: Vec<String> = others.iter().map(|s| s.to_string()).collect();
        if f_first { terms.insert(0, rec.to_string()) } else { terms.push(rec.to_string()) }
        let body = terms.join(" + ");
        if generator { format!("(|n| yield {})", body) } else { format!("(|n| {})", body) }
    };
    // right-hand sides: A and B are function literals
    let forms: &[&str] = &[
        "A", "(A)", "((A))", "if c then A else B", "if not c then A else B", "if c then A", "A or B", "c and A or B", "not c and A or B",
        "[A, B]", "(A, B)", "{g: A, h: B}", "id(A)", "id(id(A))", "pick(c, A, B)", "pick(not c, A, B)", "(|g| g)(A)", "[A][0]", "(B, A)[1]", "{g: A}.g",
        "match c\n  true then A\n  else B", "match c\n  false then A\n  else B", "switch\n  c then A\n  else B", "switch\n  not c then A\n  else B",
        "try\n  A\ncatch e\n  B", "try\n  throw 1\ncatch e\n  A", "|| A", "|k = A| k", "(A)(0) + 0", "'{A}'", "A.bind? 1", "copy A", "(1..3).each(A).to_tuple()",
    ];
    let calls: &[&str] = &["f 1", "f(2)", "f[0](1)", "f[1](1)", "f.g(1)", "f.h 1", "f()(1)", "f()", "(f 1).to_tuple()", "f.to_tuple()", "size f", "g = f\nf = null\ng 1"];
    // (the last entry is a statement sequence: rebinding the id after the capture was made)
    for c in ["true", "false"] {
        for form in forms {
            for caps in 0..=3usize {
                for f_first in [true, false] {
                    for generator in [false, true] {
                        // A references f; B references f or not
                        for b_refs in [false, true] {
                            if !form.contains('B') && b_refs {
                                continue;
                            }
                            let a = lit(true, caps, f_first, generator);
                            let b = lit(b_refs, (caps + 1) % 4, !f_first, generator);
                            let rhs = form.replace('A', &a).replace('B', &b);
                            let assign = if rhs.contains('\n') {
                                format!("f = {}", rhs.replace('\n', "\n  ").replacen("\n  ", "\n  ", 1))
                            } else {
                                format!("f = {}", rhs)
                            };
                            let mut text = format!("x = 10\ny = 20\nz = 30\nc = {}\nid = |v| v\npick = |k, p, q| if k then p else q\n{}\nr = []\n", c, assign);
                            for call in calls {
                                match call.rsplit_once('\n') {
                                    Some((pre, last)) => text.push_str(&format!("try\n  {}\n  r.push({})\ncatch e\n  r.push 'err'\n", pre.replace('\n', "\n  "), last)),
                                    None => text.push_str(&format!("try\n  r.push({})\ncatch e\n  r.push 'err'\n", call)),
                                }
                            }
                            text.push_str("size r\n");
                            f(Case { kind: 'R', text, group: "deferred-capture", apis: api.clone() });
                        }
                    }
                }
            }
        }
    }
    // the same inside a function body (locals instead of top-level ids), one call style per case
    for form in forms {
        for call in ["f 1", "f[0](1)", "f.g(1)", "f()(1)"] {
            let a = lit(true, 2, true, false);
            let b = lit(true, 1, false, false);
            let rhs = form.replace('A', &a).replace('B', &b);
            let text = format!("outer = |c|\n  x = 10\n  y = 20\n  z = 30\n  id = |v| v\n  pick = |k, p, q| if k then p else q\n  f = {}\n  {}\nr = []\nfor c in (true, false)\n  try\n    r.push outer(c)\n  catch e\n    r.push 'err'\nsize r\n", rhs.replace('\n', "\n    "), call);
            f(Case { kind: 'R', text, group: "deferred-capture", apis: api.clone() });
        }
    }
    // Koto-implemented operators / protocols called many times from one frame (register residue):
    // every overridable operator, as statement and as compound assignment, in for / while / loop
    let ops: &[(&str, &str)] = &[
        ("@+", "v = v + 1"), ("@-", "v = v - 1"), ("@*", "v = v * 2"), ("@/", "v = v / 2"), ("@%", "v = v % 2"), ("@^", "v = v ^ 2"),
        ("@r+", "v = 1 + v"), ("@r-", "v = 1 - v"), ("@r*", "v = 2 * v"), ("@+=", "v += 1"), ("@-=", "v -= 1"), ("@*=", "v *= 2"),
        ("@<", "b = v < 1"), ("@<=", "b = v <= 1"), ("@>", "b = v > 1"), ("@>=", "b = v >= 1"), ("@==", "b = v == 1"), ("@!=", "b = v != 1"),
        ("@negate", "v = -v"), ("@index", "b = v[1]"), ("@call", "b = v(1)"), ("@size", "b = size v"), ("@display", "b = '{v}'"),
        ("@index_mut", "v[1] = 2"), ("@access", "b = v.foo"), ("@iterator", "for q in v\n    break"),
    ];
    for (key, stmt) in ops {
        let args = if matches!(*key, "@negate" | "@size" | "@display" | "@iterator") { "||" } else if *key == "@index_mut" { "|i, x|" } else { "|other|" };
        let ret = match *key {
            "@<" | "@<=" | "@>" | "@>=" | "@==" | "@!=" => "true",
            "@size" => "3",
            "@display" => "'v'",
            "@iterator" => "(1, 2)",
            _ => "self",
        };
        for (lname, header, footer) in [("for", "for i in 0..N", ""), ("while", "i = 0\nwhile i < N\n  i += 1", ""), ("loop", "i = 0\nloop\n  i += 1\n  if i > N\n    break", "")] {
            for n in [100usize, 300, 1000] {
                for in_fn in [false, true] {
                    let body = format!("{}\n  {}{}", header.replace('N', &n.to_string()), stmt, footer);
                    let text = if in_fn {
                        format!("v =\n  {}: {} {}\nw = ||\n  {}\n  1\nw()\n", key, args, ret, body.replace('\n', "\n  "))
                    } else {
                        format!("v =\n  {}: {} {}\n{}\n1\n", key, args, ret, body)
                    };
                    f(Case { kind: 'R', text, group: "operator-loop", apis: vec![format!("meta:{}", key), format!("gen:operator-loop:{}", lname)] });
                }
            }
        }
    }
}

// ---- (k) constructs that are only valid in one syntactic position (map key rebinds / map patterns, type
//          hints, meta keys, match / switch arms, argument lists, ellipses, wildcards) placed in every other
//          position, next to nested assignments (class: compile_node `unreachable!()` reached from source) ------

fn misplaced_construct_cases(thorough: bool, f: &mut dyn FnMut(Case)) {
    let api = vec!["compile".to_string(), "format".to_string(), "display".to_string(), "gen:misplaced-construct".to_string()];
    let special = [
        "{a as b}", "{a as b, c}", "{'k' as b}", "{a as b} = m", "let {a as b}: Map = m", "{a, b}", "{a: 1, b as c}", "{@+ as p}", "{a as _}",
        "x: Number", "let y: String = 's'", "|p: Number| p", "|{a as b}| b", "|(p, q), [r, s...]| p", "@main", "@meta k", "@+", "export @main = || 0",
        "...", "xs...", "_", "_x", "1 then 2", "else 3", "(a as b)", "a as b", "then", "for {a as b} in ms", "match m\n  {a as b} then b", "match m\n  {a as b} if b then b\n  else 0",
        "switch\n  a then {a as b}", "try\n  {a as b}\ncatch {e as f}\n  f", "from m import a as b", "import m as {a}", "|| {a as b}", "yield {a as b}", "return {a as b}", "throw {a as b}",
    ];
    let plain = ["(x = 1)", "x = 1", "(x, y = 1, 2)", "x += 1", "(x = y = 2)", "m = {a: 1}", "(m.a = 2)", "(xs[0] = 1)", "f(x = 1)", "[x = 1]", "1", "m", "f()", "(|| x = 1)()", "if c then x = 1", "(export z = 1)"];
    let wrappers = [
        "A, B", "B, A", "[A, B]", "(A, B)", "{k: A, j: B}", "f(A, B)", "f A, B", "A + B", "A and B", "if A then B", "if B then A else A", "'{A} {B}'", "A\nB", "B\nA", "return A, B", "z = A, B",
        "A, B = m, 1", "for q in A, B\n  q", "match A, B\n  else 0", "(A) = (B)", "[A, [B, (A)]]", "g = |v = A| B", "A >> B", "not A or B", "A.b = B", "A[B]", "A(B)", "x = if c then A else B",
        "while A\n  B", "until B\n  A", "loop\n  A\n  break B", "try\n  A\nfinally\n  B", "debug A, B", "assert A, B", "A ? B : A",
    ];
    let mut n = 0usize;
    for a in special {
        for b in plain.iter().chain(special.iter()) {
            for w in wrappers {
                n += 1;
                // complete for special x plain; special x special: complete in thorough, every 5th in quick
                let both_special = special.contains(b);
                if both_special && !thorough && n % 5 != 0 {
                    continue;
                }
                let mut text = w.replace('A', "\u{1}").replace('B', "\u{2}").replace('\u{1}', a).replace('\u{2}', b);
                text.push_str("\n0\n");
                f(Case { kind: 'C', text: text.clone(), group: "misplaced-construct", apis: api.clone() });
                // also run when it happens to compile
                f(Case { kind: 'R', text: format!("m = {{a: 1, b: 2}}\nms = (m, m)\nc = true\nf = |args...| size args\nxs = [1, 2]\n{}", text), group: "misplaced-construct", apis: api.clone() });
            }
        }
    }
}

// ---- (l1) interpolation with a minimum width: rendered values whose grapheme count, UTF-8 length and
//           display width differ × widths around each of these × every alignment / fill ------------------

/// (koto expression, grapheme count, UTF-8 bytes) of the rendered text (0, 0 = not tabulated)
pub const WIDTH_VALUES: &[(&str, usize, usize)] = &[
    ("'abc'", 3, 3),
    ("''", 0, 0),
    ("'\u{e9}\u{e9}\u{e9}'", 3, 6),
    ("'\u{65e5}\u{672c}\u{8a9e}'", 3, 9),
    ("'e\u{301}o\u{308}'", 2, 6),
    ("'\u{1f468}\u{200d}\u{1f469}\u{200d}\u{1f467}'", 1, 18),
    ("'\u{1f1ef}\u{1f1f5}\u{1f1eb}\u{1f1f7}'", 2, 16),
    ("'a\u{1f44b}\u{1f3fd}b'", 3, 10),
    ("'\u{feff}\u{200b}x'", 0, 0),
    ("'\\r\\n\\t'", 0, 0),
    ("42", 2, 2),
    ("-1.5", 4, 4),
    ("1e300", 0, 0),
    ("null", 4, 4),
    ("['\u{e9}', '\u{65e5}']", 0, 0),
    ("('\u{fc}',)", 0, 0),
    ("{'\u{e9}': '\u{f6}'}", 0, 0),
    ("od", 2, 6),
    ("(1..=3)", 0, 0),
    ("'\u{e9}'.chars()", 0, 0),
];

fn format_width_cases(thorough: bool, f: &mut dyn FnMut(Case)) {
    let api = vec!["gen:format-width".to_string()];
    let pre = "od =\n  @display: || '\u{65e5}\u{672c}'\n";
    let fills = ["", "*", "0", "\u{e9}", "\u{65e5}", "\u{1f44b}", "e\u{301}", "\u{1f468}\u{200d}\u{1f469}\u{200d}\u{1f467}", " ", "<", "{"];
    let aligns = ["", "<", "^", ">"];
    let tails: &[&str] = if thorough { &["", ".0", ".1", ".2", ".40", "?", ".2?", "x", "e"] } else { &["", ".1", ".2", "?"] };
    for (v, g, b) in WIDTH_VALUES {
        let mut widths: Vec<usize> = (0..=20).collect();
        for w in [g.wrapping_sub(1), *g, g + 1, b.wrapping_sub(1), *b, b + 1, 2 * b, 32, 255, 256, 1000, 65_536] {
            if w < 1_000_000 && !widths.contains(&w) {
                widths.push(w);
            }
        }
        for fill in fills {
            for al in aligns {
                if al.is_empty() && !fill.is_empty() && fill != "0" {
                    continue; // a fill needs an alignment ("0" is the zero-padding flag)
                }
                for tail in tails {
                    for &w in &widths {
                        // (specifications the parser refuses are compile errors: not violations)
                        let text = format!("{}v = {}\nr = '{{v:{}{}{}{}}}'\nsize r\n", pre, v, fill, al, w, tail);
                        f(Case { kind: 'R', text, group: "format-width", apis: api.clone() });
                    }
                }
            }
        }
        // the value written inline, nested interpolation, several padded values in one string
        let vq = v.replace('\'', "\"");
        for w in [g.wrapping_sub(1), *g, g + 1, b.wrapping_sub(1), *b, b + 1].into_iter().filter(|w| *w < 1000) {
            f(Case { kind: 'R', text: format!("{}r = '{{{}:^{}}}|{{{}:>{}}}|{{{}:*<{}}}'\n", pre, vq, w, vq, w, vq, w), group: "format-width", apis: api.clone() });
            f(Case { kind: 'R', text: format!("{}v = {}\nr = '{{\"{{v:{}}}\":\u{e9}^{}}}'\n", pre, v, w, w + 3), group: "format-width", apis: api.clone() });
            f(Case { kind: 'R', text: format!("{}v = {}\nr = '{{v:{}}}'.to_tuple()\nprint '{{v:>{}}}'\n", pre, v, w, w), group: "format-width", apis: api.clone() });
        }
    }
}

// ---- (l2) calls with several packed (`xs...`) arguments whose unpacked lengths fit one by one but not
//           together, mixed with plain arguments, for every kind of callee --------------------------------

fn packed_args_cases(thorough: bool, f: &mut dyn FnMut(Case)) {
    let api = vec!["gen:register-pressure".to_string(), "gen:packed-args".to_string()];
    let pre = "f = |args...| size args\nf2 = |a, b, rest...| size rest\nf3 = |a, b| a\nf4 = |a, b = 2, c = 3| c\ngn = |args...|\n  yield size args\no =\n  @call: |args...| size args\nm =\n  f: |args...| size args\nxs = [1, 2, 3]\n";
    // (call prefix, suffix): the argument list is placed between them
    let callees: &[(&str, &str)] = &[
        ("f(", ")"), ("f2(", ")"), ("f3(", ")"), ("f4(", ")"), ("gn(", ").next()"), ("o(", ")"), ("m.f(", ")"), ("xs.push(", ")"), ("size(", ")"), ("type(", ")"),
        ("verif_regs(", ")"), ("koto.hash(", ")"), ("string.join(", ")"), ("(|args...| size args)(", ")"), ("1 -> f(", ")"), ("xs.each(|x| f(", ")).consume()"), ("'{f(", ")}'"),
    ];
    let source = |kind: usize, n: usize| -> String {
        match kind {
            0 => format!("(0..{})", n),
            1 => format!("(0..{}).to_list()", n),
            2 => format!("(0..{}).to_tuple()", n),
            3 => format!("'{}'", "a".repeat(n)),
            4 => format!("(0..{}).each(|x| x)", n),
            _ => format!("(0..{}).to_map()", n),
        }
    };
    let sums: Vec<usize> = if thorough { (244..=262).collect() } else { vec![250, 251, 252, 253, 254, 255, 256, 257, 260] };
    let kinds: &[usize] = if thorough { &[0, 1, 2, 3, 4, 5] } else { &[0, 1, 4] };
    for &s in &sums {
        let mut splits: Vec<Vec<usize>> = vec![
            vec![200, s - 200], vec![s - 200, 200], vec![s / 2, s - s / 2], vec![1, s - 1], vec![s - 1, 1], vec![0, s], vec![s, 0], vec![s.saturating_sub(254), 254], vec![254, s.saturating_sub(254)],
            vec![100, 100, s - 200], vec![s - 2, 1, 1], vec![1, 1, s - 2], vec![0, s - 1, 1], vec![84, 84, s - 168],
            vec![60, 60, 60, s - 180], vec![1, s - 3, 1, 1], vec![0, 0, s, 0], vec![63, 64, 65, s - 192],
        ];
        splits.retain(|sp| sp.iter().all(|l| *l < 258));
        for sp in &splits {
            for (ci, (open, close)) in callees.iter().enumerate() {
                for &kind in kinds {
                    if !thorough && ci >= 7 && kind != 0 {
                        continue;
                    }
                    let packed: Vec<String> = sp.iter().map(|l| format!("{}...", source(kind, *l))).collect();
                    // plain arguments: none / before / between / after
                    let layouts: Vec<String> = vec![
                        packed.join(", "),
                        format!("1, 2, {}", packed.join(", ")),
                        packed.join(", 7, "),
                        format!("{}, 8, 9", packed.join(", ")),
                        format!("1, {}, 2", packed.join(", 3, ")),
                    ];
                    for (li, args) in layouts.iter().enumerate() {
                        if !thorough && li >= 2 && (s + ci + li) % 3 != 0 {
                            continue;
                        }
                        f(Case { kind: 'R', text: format!("{}r = {}{}{}\n", pre, open, args, close), group: "packed-args", apis: api.clone() });
                    }
                }
            }
        }
    }
    // many plain arguments and one / two short packed ones at the end of the register window
    for n in 236..=254usize {
        for (extra, extra2) in [(0usize, None), (1, None), (2, None), (3, None), (10, None), (1, Some(1usize)), (0, Some(0)), (2, Some(3))] {
            for (open, close) in &callees[..7] {
                let zeros = vec!["0"; n].join(", ");
                let mut args = format!("{}, (0..{})...", zeros, extra);
                if let Some(e2) = extra2 {
                    args.push_str(&format!(", (0..{})...", e2));
                }
                f(Case { kind: 'R', text: format!("{}r = {}{}{}\n", pre, open, args, close), group: "packed-args", apis: api.clone() });
                f(Case { kind: 'R', text: format!("{}r = {}(0..{})..., {}{}\n", pre, open, extra, zeros, close), group: "packed-args", apis: api.clone() });
            }
        }
    }
}

// ---- (m1) container re-entrancy beyond arity 2: every list.* / map.* / iterator.* entry point called on a
//           list / map with 2-3 arguments one of which is a callback that reads or writes that same
//           container (the arity-2 product is complete in the sweep; arity 3 is only sampled there) -------

fn container_reentrancy_cases(eps: &[(String, String)], thorough: bool, f: &mut dyn FnMut(Case)) {
    let l_cbs = [
        "|x| size l", "|x| l.push 1", "|x| l.pop()", "|x| l.clear()", "|x| '{l}'", "|x| l.sort()", "|x| l[0]", "|x| l.resize 10, 0", "|a, b| l.push 1", "|a, b| size l",
        "|x| l.iter().to_list()", "|x| l.insert 0, x", "|x| l.contains x", "|a, b| l.first() == a",
    ];
    let m_cbs = [
        "|v| size m", "|v| m.insert 'd', v", "|v| m.remove 'a'", "|v| m.clear()", "|v| m.get 'a'", "|v| '{m}'", "|v| m.keys().to_list()", "|v| m.a", "|k, v| m.insert 'd', v", "|k, v| size m",
        "|v| m.update 'a', |w| w", "|v| m.sort()", "|v| m.contains_key 'a'", "|v| m.extend {z: 1}",
    ];
    for (module, name) in eps {
        let targets: &[(&str, &str, &[&str])] = match module.as_str() {
            "list" => &[("l", "l = [3, 1, 2]\n", &l_cbs)],
            "map" => &[("m", "m = {a: 1, b: 2, c: 3}\n", &m_cbs)],
            "iterator" => &[("l", "l = [3, 1, 2]\n", &l_cbs), ("m", "m = {a: 1, b: 2, c: 3}\n", &m_cbs)],
            _ => continue,
        };
        let api = vec![format!("{}.{}", module, name), "gen:container-reentrancy".to_string()];
        for (c, pre, cbs) in targets {
            let keys: Vec<&str> = if thorough { vec!["'a'", "'zz'", "0", "-1", "1", "100", "null", c, "(0..2)"] } else { vec!["'a'", "'zz'", "0", "-1", "null", c] };
            let defaults = ["0", "null", c];
            for cb in cbs.iter() {
                let mut layouts: Vec<String> = vec![format!("{}, {}", cb, cb), format!("{}", cb)];
                for k in &keys {
                    layouts.push(format!("{}, {}", k, cb));
                    layouts.push(format!("{}, {}", cb, k));
                    for d in &defaults {
                        layouts.push(format!("{}, {}, {}", k, d, cb));
                    }
                }
                for args in layouts {
                    let text = format!("{}r = {}.{}({})\nif koto.type(r) == 'Iterator'\n  r = r.take(20).to_tuple()\nsize {}\n", pre, c, name, args, c);
                    f(Case { kind: 'R', text, group: "container-reentrancy", apis: api.clone() });
                }
            }
        }
    }
}

// ---- (m2) iterator invalidation: an iterator (every adaptor chain of depth 1-2) over a list / map, some
//           values pulled from the front / back, THEN the container shrinks / grows / is reordered, then
//           the iterator is advanced again in every way ---------------------------------------------------

fn iterator_invalidation_cases(thorough: bool, f: &mut dyn FnMut(Case)) {
    let api = vec!["gen:iterator-invalidation".to_string()];
    let adaptors = [
        ".iter()", ".reversed()", ".skip(1)", ".take(5)", ".each(|x| x)", ".keep(|x| true)", ".enumerate()", ".chunks(2)", ".windows(2)", ".zip(C)", ".chain(C)", ".cycle().take(20)",
        ".intersperse(0)", ".peekable()", ".step(2)", ".flatten()", ".take(|x| true)", ".skip(|x| false)",
    ];
    let pulls = ["", "it.next()\n", "it.next_back()\n", "it.next()\nit.next_back()\n"];
    let consumes = [
        "it.next()", "it.next_back()", "it.to_list()", "it.to_tuple()", "it.count()", "it.last()", "it.reversed().to_tuple()", "it.min()", "it.fold 0, |a, b| a",
        "(it.next(), it.next(), it.next(), it.next(), it.next(), it.next(), it.next())", "(it.next_back(), it.next_back(), it.next_back(), it.next_back(), it.next_back(), it.next_back(), it.next_back())",
        "(it.next(), it.next_back(), it.next(), it.next_back(), it.next(), it.next_back(), it.next())", "for x in it\n  C.MUT0", "it.copy().to_tuple()", "'{it.to_tuple()}'",
    ];
    let containers: [(&str, &str, &[&str], &[&str]); 2] = [
        (
            "l",
            "l = [1, 2, 3, 4, 5, 6]\n",
            &[
                "l.pop()", "l.pop()\nl.pop()\nl.pop()", "l.clear()", "l.remove 0", "l.resize 1", "l.resize 100, 0", "l.retain |x| x > 4", "l.push 9", "l.insert 0, 9", "l.sort()", "l.fill 0",
                "l.extend [1, 2, 3]", "l.transform |x| x", "l.pop()\nl.pop()\nl.pop()\nl.pop()\nl.pop()",
            ],
            &[],
        ),
        (
            "m",
            "m = {a: 1, b: 2, c: 3, d: 4, e: 5, f: 6}\n",
            &[
                "m.remove 'f'", "m.remove 'a'", "m.clear()", "m.insert 'z', 1", "m.sort()", "m.extend {x: 1}", "m.update 'a', |v| v", "m.remove 'f'\nm.remove 'e'\nm.remove 'd'",
                "m.remove 'f'\nm.remove 'e'\nm.remove 'd'\nm.remove 'c'\nm.remove 'b'",
            ],
            &[".keys()", ".values()"],
        ),
    ];
    let mut n = 0usize;
    for (c, pre, muts, extra_adaptors) in containers {
        let first_mut = muts[0].split('\n').next().unwrap_or("").trim_start_matches(c).trim_start_matches('.').to_string();
        let ads: Vec<&str> = adaptors.iter().chain(extra_adaptors.iter()).copied().collect();
        let mut chains: Vec<String> = ads.iter().map(|a| a.to_string()).collect();
        for a in &ads {
            for b in &ads {
                n += 1;
                let key = [".reversed()", ".peekable()", ".keys()", ".values()"];
                if thorough || key.contains(a) || key.contains(b) || n % 6 == 0 {
                    chains.push(format!("{}{}", a, b));
                }
            }
        }
        for chain in &chains {
            let chain = chain.replace('C', c);
            for m in muts {
                // the loop body changes the container under the running loop
                f(Case { kind: 'R', text: format!("{}r = []\nfor x in {}{}\n  r.push x\n  {}\n  if size(r) > 50\n    break\nsize r\n", pre, c, chain, m.replace('\n', "\n  ")), group: "iterator-invalidation", apis: api.clone() });
                for p in pulls {
                    for cons in consumes {
                        n += 1;
                        if !thorough && !p.is_empty() && chain.matches('.').count() > 1 && n % 2 == 0 {
                            continue;
                        }
                        let cons = cons.replace("C.MUT0", &format!("{}.{}", c, first_mut));
                        f(Case { kind: 'R', text: format!("{}it = {}{}\n{}{}\nr = {}\nr\n", pre, c, chain, p, m, cons), group: "iterator-invalidation", apis: api.clone() });
                    }
                }
            }
        }
    }
}

// ---- (n) multi-byte adjacency: token × 0-3 ASCII bytes × multi-byte character (source text) ---------------

const KEYWORDS: &[&str] = &[
    "and", "or", "not", "if", "then", "else", "else if", "match", "switch", "for", "in", "while", "until", "loop", "break", "continue", "return", "yield", "throw", "try", "catch", "finally",
    "import", "from", "as", "export", "let", "true", "false", "null", "self", "debug", "assert", "0x", "0x1", "0b", "0b1", "0o", "0o7", "1e", "1e+", "1.", "1.5e", "r'", "r#'", "'\\u{", "'\\x", "'\\",
    "'{", "'{x:", "'{x:*<", "#", "#-", "-#", "#!", "@", "@meta", "@test", "_", "x", "x.", "x?", "x..", "x..=", "|x|", "|", "->", "=>", "...", "x...",
];

fn multibyte_adjacency_cases(vocab: &[String], f: &mut dyn FnMut(Case)) {
    let mut tokens: BTreeSet<String> = KEYWORDS.iter().map(|k| k.to_string()).collect();
    for t in vocab {
        // operators / punctuation of the corpus (identifiers and literals behave like `x` / `1`)
        if t.is_ascii() && !t.is_empty() && t.len() <= 4 && !t.chars().any(|c| c.is_alphanumeric() || c.is_whitespace()) {
            tokens.insert(t.clone());
        }
    }
    let seps = ["", " ", "  ", "   ", "'", " '", "  '", "\"", " \"", "(", " (", "((", "\t", "\n", "\n  ", "#", " #", " #-", "\\\n", "_", "0", ".", "..", ", ", "= ", "x", " x", "'{"];
    let mbs = ["\u{fc}", "\u{65e5}", "\u{1f44b}", "e\u{301}", "\u{a0}", "\u{2028}", "\u{feff}"];
    let contexts = ["A", "x = if c then 1 A", "f = ||\n  A", "'{A}'"];
    for t in &tokens {
        for sep in seps {
            for mb in mbs {
                let closer = if sep.ends_with('\'') { "'" } else if sep.ends_with('"') { "\"" } else if sep.ends_with("'{") { "}'" } else { "" };
                let fwd = format!("{}{}{}{}", t, sep, mb, closer);
                let back = format!("{}{}{}{}", mb, closer, sep, t);
                for ctx in contexts {
                    for body in [&fwd, &back] {
                        let mut text = ctx.replace('A', body);
                        text.push('\n');
                        f(compile_case(text, "multibyte-adjacency"));
                    }
                }
            }
        }
    }
}

// ---- (o) string escapes: every escape form with boundary code points (surrogates, > 0x10ffff, overflow of
//          the accumulator), wrong digits / lengths, unterminated forms — in every kind of string --------------

fn string_escape_cases(f: &mut dyn FnMut(Case)) {
    let hex = [
        "", "0", "7f", "80", "ff", "100", "7ff", "800", "d7ff", "d800", "D800", "dbff", "dc00", "dfff", "DFFF", "e000", "fffd", "fffe", "ffff", "10000", "10ffff", "10FFFF", "110000", "1fffff", "ffffff",
        "1000000", "fffffff", "ffffffff", "100000000", "fffffffff", "ffffffffffffffff", "10000000000000000", "00d800", "0000d800", "00000000000000d800", "0010ffff", "g", "d80g", "-1", "+1", " ", " d800", "d800 ",
        "d8 00", "\u{fc}", "\u{65e5}", "\u{1f44b}", "_", "0x41", "{41}", "}", "'", "\\",
    ];
    let mut escapes: Vec<String> = vec![];
    for h in hex {
        escapes.push(format!("\\u{{{}}}", h));
        escapes.push(format!("\\u{{{}", h)); // unterminated
        escapes.push(format!("\\u{}", h)); // no braces
        escapes.push(format!("\\x{}", h));
        escapes.push(format!("\\x{{{}}}", h));
    }
    for c in (0x20u8..0x7f).map(|b| (b as char).to_string()).chain(["\n", "\r\n", "\t", "\u{fc}", "\u{65e5}", "\u{1f44b}", "\u{301}", ""].iter().map(|s| s.to_string())) {
        escapes.push(format!("\\{}", c));
        escapes.push(format!("\\{}\\", c));
    }
    let shells: &[(&str, &str)] = &[
        ("'", "'"), ("\"", "\""), ("'a", "b'"), ("'\u{fc}", "\u{65e5}'"), ("r'", "'"), ("r#'", "'#"), ("'{'", "'}'"), ("'{x:", "<5}'"), ("'{x:", "}'"), ("{'", "': 1}"), ("import '", "'"), ("'", ""), ("'", "\n"),
        ("x = '", "'.to_tuple()"), ("'''", "'''"), ("match 'a'\n  '", "' then 1\n  else 2"), ("'{'{'", "'}'}'"),
    ];
    for e in &escapes {
        for (open, close) in shells {
            let text = format!("{}{}{}\n", open, e, close);
            f(Case { kind: 'C', text: text.clone(), group: "string-escape", apis: vec!["compile".into(), "format".into(), "display".into(), "gen:string-escape".into()] });
            f(Case { kind: 'R', text: format!("x = 1\n{}", text), group: "string-escape", apis: vec!["gen:string-escape".into()] });
        }
    }
}

// ---- (p) file I/O: the io module and every File method on files in the worker's own scratch directory.
//          A case whose text starts with `#!io` runs with the real io module, an in-memory stdin
//          (`verif_stdin`), `verif_scratch` and `verif_write(path, bytes)`; every path that is written
//          to is built from `verif_scratch` ------------------------------------------------------------------

const IO_PRE: &str = "#!io\np = io.extend_path verif_scratch, 'f.txt'\n";

fn file_io_cases(thorough: bool, f: &mut dyn FnMut(Case)) {
    let mut emit = |api: &str, body: String| f(Case { kind: 'R', text: format!("{}{}", IO_PRE, body), group: "file-io", apis: vec![api.to_string(), "gen:file-io".to_string()] });
    // contents: lines over the multi-byte alphabet × line ends (none / \n / \r\n / \r / doubled / reversed)
    let pieces = ["", "a", "abc", "\u{e9}", "h\u{e9}", "\u{65e5}\u{672c}", "\u{1f44b}", "e\u{301}", "\u{feff}", "\u{2028}x", " ", "\\t", "\\x00", "x\\x7f"];
    let ends = ["", "\\n", "\\r\\n", "\\r", "\\n\\n", "\\r\\n\\r\\n", "\\n\\r"];
    let mut single: Vec<String> = vec![];
    for p in pieces {
        for e in ends {
            single.push(format!("{}{}", p, e));
        }
    }
    let mut double: Vec<String> = vec![];
    let firsts: &[&str] = if thorough { &pieces } else { &["", "abc", "\u{e9}", "\u{65e5}\u{672c}", "\u{1f44b}", "e\u{301}"] };
    for a in firsts {
        for sep in ["\\n", "\\r\\n", "\\r"] {
            for (i, s) in single.iter().enumerate() {
                if thorough || i % 2 == 0 || s.ends_with("\u{e9}") || s.ends_with("\u{1f44b}") {
                    double.push(format!("{}{}{}", a, sep, s));
                }
            }
        }
    }
    let write = |content: &str| format!("f = io.create p\nf.write '{}'\nf.flush()\n", content);
    let five = "(g.read_line(), g.read_line(), g.read_line(), g.read_line(), g.read_line())";
    for c in single.iter().chain(double.iter()) {
        let w = write(c);
        emit("File.read_line", format!("{}g = io.open p\n{}\n", w, five));
        emit("File.read_line", format!("{}g = io.open p\nr = []\nloop\n  l = g.read_line()\n  if l == null\n    break\n  r.push l\n  if size(r) > 20\n    break\nr\n", w));
        emit("File.read_to_string", format!("{}g = io.open p\n(g.read_to_string(), g.read_to_string(), g.read_line())\n", w));
        emit("io.read_to_string", format!("{}io.read_to_string p\n", w));
        emit("File.read_line", format!("{}g = io.open p\ng.read_line()\ng.seek 1\n(g.read_line(), g.read_to_string())\n", w));
        emit("File.read_line", format!("{}(f.read_line(), f.read_to_string())\n", w));
        emit("File.write", format!("{}g = io.open p\ng.write 'x'\ng.flush()\n", w));
        emit("File.read_line", format!("{}f.write_line '\u{e9}'\nf.write_line()\nf.flush()\ng = io.open p\n{}\n", w, five));
        // the same contents through an in-memory stdin (File::read_line over another KotoFile)
        emit("File.read_line", format!("verif_stdin '{}'\ng = io.stdin\n{}\n", c, five));
        emit("File.read_to_string", format!("verif_stdin '{}'\ng = io.stdin\n(g.read_line(), g.read_to_string(), g.read_line())\n", c));
    }
    // seek: every position incl. inside a character, at / beyond the end, huge, fractional, non-finite
    let seeks = [
        "0", "1", "2", "3", "4", "5", "6", "7", "100", "4294967296", "9223372036854775807", "1e19", "18446744073709551615.0", "1.8446744073709552e19", "1e30", "0.5", "-0.0", "-1", "(-9223372036854775807 - 1)",
        "number.nan", "number.infinity", "number.negative_infinity",
    ];
    for (i, c) in single.iter().chain(double.iter()).enumerate() {
        if !thorough && i % 4 != 0 && i >= single.len() {
            continue;
        }
        let w = write(c);
        for k in seeks {
            emit("File.seek", format!("{}g = io.open p\ng.seek {}\n(g.read_line(), g.read_line())\n", w, k));
            emit("File.seek", format!("{}g = io.open p\ng.read_line()\ng.seek {}\ng.read_to_string()\n", w, k));
            // (a write beyond the end makes a sparse file: only what was written there is read back)
            emit("File.seek", format!("{}f.seek {}\nf.write 'z\u{e9}'\nf.flush()\ng = io.open p\ng.seek {}\n(g.read_line(), g.read_to_string())\n", w, k, k));
        }
    }
    // raw bytes: contents that are not UTF-8, characters cut by the end of the file / by a line end
    let raw: &[&[u8]] = &[
        &[0xC3], &[0x68, 0xC3], &[0xC3, 0x0A], &[0xE6, 0x97], &[0xF0, 0x9F, 0x91], &[0xFF], &[0x80], &[0x0A, 0xC3, 0xA9], &[0], &[0x61, 0, 0x0A], &[0xEF, 0xBB, 0xBF], &[0x0D], &[0x0D, 0x0A], &[0x0A, 0x0D],
        &[0x61, 0x0A, 0xC3], &[0x61, 0x0D, 0x0A, 0xF0, 0x9F], &[0xED, 0xA0, 0x80], &[0xC0, 0x80], &[0xF4, 0x90, 0x80, 0x80], &[0x61, 0xC3, 0x0A, 0xA9],
    ];
    for bytes in raw {
        let lit = bytes.iter().map(|b| b.to_string()).collect::<Vec<_>>().join(", ");
        let w = format!("verif_write p, [{}]\n", lit);
        emit("File.read_line", format!("{}g = io.open p\n{}\n", w, five));
        emit("File.read_to_string", format!("{}g = io.open p\ng.read_to_string()\n", w));
        emit("io.read_to_string", format!("{}io.read_to_string p\n", w));
        for k in ["1", "2", "3"] {
            emit("File.seek", format!("{}g = io.open p\ng.seek {}\n(g.read_line(), g.read_to_string())\n", w, k));
        }
    }
    // lines around the reader's buffer size with a multi-byte character on the boundary
    for n in [8189usize, 8190, 8191, 8192, 8193, 16383, 16384, 65535, 65536] {
        for tail in ["\u{e9}", "\u{65e5}", "\u{1f44b}", "\u{e9}\\n", "\u{1f44b}\\r\\n", "\\r", "\\r\\n\u{e9}"] {
            emit("File.read_line", format!("f = io.create p\nf.write('a'.repeat({}) + '{}')\nf.flush()\ng = io.open p\nr = (g.read_line(), g.read_line(), g.read_line())\nsize r[0]\n", n, tail));
            emit("File.seek", format!("f = io.create p\nf.write('a'.repeat({}) + '{}')\nf.flush()\ng = io.open p\ng.seek {}\nr = (g.read_line(), g.read_to_string())\nsize r[1]\n", n, tail, n + 1));
        }
    }
    // every File method × small argument pool × every kind of file
    let files = [("f", "f = io.create p\nf.write 'h\u{e9}\\nx'\n"), ("g", "f = io.create p\nf.write 'h\u{e9}\\nx'\nf.flush()\ng = io.open p\n"), ("io.stdin", "verif_stdin 'h\u{e9}'\n"), ("io.stdout", ""), ("io.stderr", ""), ("d", "d = io.open verif_scratch\n")];
    let methods = ["flush", "is_terminal", "path", "read_line", "read_to_string", "seek", "write", "write_line"];
    let args = ["", "0", "'x'", "null", "[1]", "-1", "1e30", "'\u{e9}', 1", "f", "number.nan", "(1, 2)", "{a: 1}", "|| 1", "'\\x00'", "cy", "ob"];
    for (name, pre) in files {
        for m in methods {
            for a in args {
                emit(&format!("File.{}", m), format!("cy = [1]\ncy.push cy\nob = {{@display: || throw 'no'}}\nf = null\n{}r = {}.{}({})\n(r, {}.{}({}))\n", pre, name, m, a, name, m, a));
            }
        }
        for op in ["'{X}'", "koto.copy X", "koto.deep_copy X", "X == X", "X != f", "koto.hash X", "koto.type X", "size X", "X.foo", "for x in X\n  x", "X[0]", "X + 1", "m = {}\nm.insert X, 1", "[X, X].sort()", "X()", "X.path().to_tuple()", "debug X"] {
            emit("File.@ops", format!("f = null\n{}{}\n", pre, op.replace('X', name)));
        }
    }
    // io.* on names inside the scratch directory (existing, missing, multi-byte, empty, blank, long, nested, NUL)
    let names = ["'f.txt'", "'missing.txt'", "'\u{e9}\u{65e5}\u{1f44b}.txt'", "''", "' '", "'x'.repeat(300)", "'x'.repeat(5000)", "'sub/f.txt'", "'f.txt/'", "'f.txt/x'", "'.'", "'a\\x00b'", "'e\u{301}'", "'\\n'"];
    for n in names {
        let q = format!("f = io.create p\nf.write 'h\u{e9}'\nf.flush()\nq = io.extend_path verif_scratch, {}\n", n);
        for func in ["create", "open", "exists", "read_to_string", "remove_file"] {
            emit(&format!("io.{}", func), format!("{}r = io.{}(q)\n(r, io.exists(q), io.{}(q))\n", q, func, func));
        }
        emit("io.create", format!("{}h = io.create q\nh.write_line '\u{e9}'\nh.flush()\nk = io.open q\n(k.read_line(), k.path(), io.remove_file(q), k.read_line(), h.write('x'), h.flush(), io.exists(q))\n", q));
        emit("io.create", format!("{}h = io.create q\nh.write 'abc'\nh2 = io.create q\nh.flush()\nh2.write '\u{e9}'\nh2.flush()\nio.read_to_string q\n", q));
        emit("io.remove_file", format!("{}g = io.open p\nio.remove_file p\n(g.read_line(), io.remove_file(p), io.exists(p))\n", q));
    }
    // the read-only / pure functions × the whole value pool (relative names are only read, never written)
    let all = all_items();
    for func in ["extend_path", "print", "exists", "open", "read_to_string", "current_dir", "temp_dir", "create", "remove_file"] {
        let writes = matches!(func, "create" | "remove_file");
        emit(&format!("io.{}", func), format!("io.{}()\n", func));
        for a in &all {
            if writes && a.ty == Ty::Str {
                continue; // a relative name would be created / removed in the working directory
            }
            let text = script_for(&[a], &format!("io.{}({})", func, a.expr));
            emit(&format!("io.{}", func), text);
            if matches!(func, "extend_path" | "print") {
                for b in all.iter().filter(|b| b.reduced || thorough) {
                    emit(&format!("io.{}", func), script_for(&[a, b], &format!("io.{}(verif_scratch, {}, {})", func, a.expr, b.expr)));
                }
            }
        }
    }
}

// ---- (q) size / count / index arguments: every entry point, on small FINITE receivers, with a huge /
//          negative / non-finite number in every argument position. The allocation exclusion is stated
//          per case: only a call whose RESULT must hold that many elements carries the tag
//          `excluded:allocation-request` (list.resize / list.resize_with to a huge size, string.repeat of a
//          non-empty string a huge number of times); for every other case a `capacity overflow` panic or
//          an allocation abort is a VIOLATION (a reservation for a size that is never reached) -------------

const ALLOC_EXCLUDED: &str = "excluded:allocation-request";
/// the script collects an endless sequence / grows a container in an endless loop
const UNBOUNDED_GROWTH: &str = "excluded:unbounded-growth";

fn size_argument_cases(eps: &[(String, String)], thorough: bool, f: &mut dyn FnMut(Case)) {
    let huge_all = [
        "9223372036854775807", "9223372036854775806", "1152921504606846976", "9007199254740993", "4294967297", "4294967296", "4294967295", "2147483648", "2147483647", "1000001", "1e30", "1e19",
        "1.8446744073709552e19", "number.infinity", "-1", "(-9223372036854775807 - 1)", "-1e30", "number.negative_infinity", "number.nan", "0.5",
    ];
    let huge_quick = ["9223372036854775807", "1152921504606846976", "4294967297", "4294967295", "2147483648", "1e30", "number.infinity", "-1", "number.nan", "(-9223372036854775807 - 1)"];
    let huge: &[&str] = if thorough { &huge_all } else { &huge_quick };
    // (module whose functions apply, receiver expression, preamble, receiver is an empty string)
    let receivers: &[(&[&str], &str, &str)] = &[
        (&["list", "iterator"], "l", "l = [1, 2, 3]\n"),
        (&["tuple", "iterator"], "(1, 2, 3)", ""),
        (&["string", "iterator"], "'a\u{e9}\u{65e5}'", ""),
        (&["string", "iterator"], "''", ""),
        (&["range", "iterator"], "(0..5)", ""),
        (&["map", "iterator"], "m", "m = {a: 1, b: 2}\n"),
        (&["iterator"], "(0..5).iter()", ""),
        (&["iterator"], "gs()", "gs = ||\n  yield 1\n  yield 2\n  yield 3\n"),
        (&["iterator"], "(1..=3).each(|x| x).peekable()", ""),
        (&["iterator"], "[]", ""),
        (&["number"], "7", ""),
    ];
    let is_big = |h: &str| !(h.starts_with('-') || h.starts_with("(-") || h == "number.nan" || h == "0.5" || h == "number.negative_infinity");
    let consumers = ["", ".to_tuple()", ".to_list()", ".count()", ".last()", ".to_string()", ".reversed().to_tuple()", ".min_max()", ".next_back()"];
    for (modules, recv, pre) in receivers {
        for (module, name) in eps {
            if !modules.contains(&module.as_str()) {
                continue;
            }
            // no receiver-less sources of the requested length here (see below), nothing that runs scripts
            if matches!((module.as_str(), name.as_str()), ("iterator", "repeat") | ("iterator", "generate") | ("iterator", "once")) {
                continue;
            }
            for h in huge {
                let layouts = [
                    format!("{}", h), format!("{}, 0", h), format!("0, {}", h), format!("{}, {}", h, h), format!("{}, |x| x", h), format!("|x| true, {}", h), format!("{}, 'a'", h), format!("'a', {}", h),
                    format!("0, 0, {}", h), format!("{}, {}, {}", h, h, h),
                ];
                for (li, args) in layouts.iter().enumerate() {
                    if !thorough && li >= 4 && (li + name.len()) % 2 == 0 {
                        continue;
                    }
                    // result must hold that many elements: the size is the first argument
                    let size_first = li != 2 && li != 5 && li != 7 && li != 8;
                    let excluded = is_big(h)
                        && size_first
                        && (matches!((module.as_str(), name.as_str()), ("list", "resize") | ("list", "resize_with")) || (module == "string" && name == "repeat" && *recv != "''"));
                    let mut apis = vec![format!("{}.{}", module, name), "gen:size-argument".to_string()];
                    if excluded {
                        apis.push(ALLOC_EXCLUDED.to_string());
                    }
                    // (number.step_to / range.* can return a lazily huge sequence: only pulled from, never collected)
                    let cons: &[&str] = if excluded || module == "number" || module == "range" { &[""] } else if module == "iterator" { &consumers } else { &["", ".to_tuple()"] };
                    for c in cons {
                        if !thorough && !c.is_empty() && li >= 2 {
                            continue;
                        }
                        let text = if c.is_empty() {
                            format!("{}r = {}.{}({})\nif koto.type(r) == 'Iterator'\n  r = (r.next(), r.next_back(), r.take(3).to_tuple())\nr\n", pre, recv, name, args)
                        } else {
                            format!("{}r = {}.{}({})\nif koto.type(r) == 'Iterator'\n  r = r{}\nr\n", pre, recv, name, args, c)
                        };
                        f(Case { kind: 'R', text, group: "size-argument", apis: apis.clone() });
                    }
                }
            }
        }
    }
    // sources whose length IS the argument: lazy, so creating them, pulling from either end, skipping,
    // stepping, chunking and taking a few values must work; collecting all of them is the excluded case
    // (never generated: it also never terminates)
    for h in huge {
        for src in [format!("iterator.repeat(1, {})", h), format!("iterator.repeat('a\u{e9}', {})", h), format!("iterator.generate({}, || 1)", h), format!("iterator.generate({}, |x| x)", h), format!("iterator.once({})", h)] {
            let api = vec![format!("iterator.{}", &src["iterator.".len()..src.find('(').unwrap_or(src.len())]), "gen:size-argument".to_string()];
            // (adaptor arguments stay small here: skipping / stepping / chunking BY a huge amount over a
            // source of huge length is a native loop that never ends — huge adaptor arguments are applied
            // to the finite receivers above)
            for tail in [
                "", ".next()", ".next_back()", ".take(3).to_tuple()", ".skip(2).next()", ".step(2).take(2).to_list()", ".chunks(2).next()", ".windows(2).next()", ".enumerate().next()", ".zip(1..3).to_tuple()",
                ".peekable().peek()", ".reversed().next()", ".chain(1..3).next()", ".intersperse(0).take(3).to_tuple()", ".each(|x| x).next()", ".keep(|x| true).next()", ".cycle().take(3).to_tuple()",
                ".take(3).to_string()", ".take(3).to_map()", ".find(|x| true)", ".any(|x| true)", ".position(|x| true)", ".flatten().take(2).to_tuple()", ".take(H).next()", ".take(H).next_back()",
                ".enumerate().take(H).next()", ".take(H).peekable().peek()", ".take(H).zip(1..3).to_tuple()",
            ] {
                f(Case { kind: 'R', text: format!("r = {}{}\nr\n", src, tail.replace('H', h)), group: "size-argument", apis: api.clone() });
            }
        }
    }
}
