// ---- copy / deep_copy on heap graphs: exhaustive small trees + random deep ones -----------------------------
// For every tree over {tuple, list, map, leaf}: build it, copy or deep_copy it, then mutate EVERY
// mutable node of the original and of the copy (through index / key paths, i.e. also containers that
// are reachable only through tuples of tuples) and compare the observations through both names:
// (K) full heap dump after each step against the Lean model; (D) the independence laws of
// Props/C14 (`copy_top_independent`, `deep_copy_disjoint`) evaluated on the implementation's dumps.

#[derive(Clone, Debug, PartialEq)]
enum Tree {
    Leaf,
    T(Vec<Tree>),
    L(Vec<Tree>),
    M(Vec<Tree>),
}

/// all ordered sequences of trees with `k` nodes in total
fn forests(k: usize, memo_t: &mut Vec<Option<Vec<Tree>>>) -> Vec<Vec<Tree>> {
    if k == 0 {
        return vec![vec![]];
    }
    let mut out = vec![];
    for s in 1..=k {
        let firsts = trees(s, memo_t);
        let rests = forests(k - s, memo_t);
        for f in &firsts {
            for r in &rests {
                let mut v = vec![f.clone()];
                v.extend(r.iter().cloned());
                out.push(v);
            }
        }
    }
    out
}

/// all trees with exactly `n` nodes
fn trees(n: usize, memo_t: &mut Vec<Option<Vec<Tree>>>) -> Vec<Tree> {
    if let Some(Some(v)) = memo_t.get(n) {
        return v.clone();
    }
    let mut out = vec![];
    if n == 1 {
        out.push(Tree::Leaf);
    }
    if n >= 1 {
        for ch in forests(n - 1, memo_t) {
            out.push(Tree::T(ch.clone()));
            out.push(Tree::L(ch.clone()));
            out.push(Tree::M(ch));
        }
    }
    while memo_t.len() <= n {
        memo_t.push(None);
    }
    memo_t[n] = Some(out.clone());
    out
}

impl Tree {
    fn children(&self) -> &[Tree] {
        match self {
            Tree::Leaf => &[],
            Tree::T(c) | Tree::L(c) | Tree::M(c) => c,
        }
    }
    fn depth(&self) -> usize {
        1 + self.children().iter().map(|c| c.depth()).max().unwrap_or(0)
    }
    fn nodes(&self) -> usize {
        1 + self.children().iter().map(|c| c.nodes()).sum::<usize>()
    }
    fn shape(&self) -> String {
        let c: String = self.children().iter().map(|c| c.shape()).collect();
        match self {
            Tree::Leaf => "x".into(),
            Tree::T(_) => format!("T({})", c),
            Tree::L(_) => format!("L({})", c),
            Tree::M(_) => format!("M({})", c),
        }
    }
    /// literal expression; leaves get distinct integers
    fn expr(&self, next: &mut i64) -> E {
        match self {
            Tree::Leaf => {
                *next += 1;
                imm(V::I(*next))
            }
            Tree::T(c) => E::Tup(c.iter().map(|t| t.expr(next)).collect()),
            Tree::L(c) => E::Lst(c.iter().map(|t| t.expr(next)).collect()),
            Tree::M(c) => E::Mp(c.iter().enumerate().map(|(j, t)| (imm(vs(&format!("k{}", j))), t.expr(next))).collect()),
        }
    }
    /// paths (rooted at `root`) to every list / map node, with `true` for maps
    fn mutable_paths(&self, root: E, out: &mut Vec<(E, bool)>) {
        match self {
            Tree::L(_) => out.push((root.clone(), false)),
            Tree::M(_) => out.push((root.clone(), true)),
            _ => {}
        }
        for (j, c) in self.children().iter().enumerate() {
            let p = match self {
                Tree::M(_) => op("get", vec![root.clone(), imm(vs(&format!("k{}", j)))]),
                _ => op("index", vec![root.clone(), imm(V::I(j as i64))]),
            };
            c.mutable_paths(p, out);
        }
    }
}

/// a random tree with at least 3 levels, mutable containers preferably below tuples
fn random_tree(rng: &mut Rng, depth: usize, budget: &mut usize) -> Tree {
    if depth == 0 || *budget == 0 {
        return if rng.chance(1, 2) { Tree::Leaf } else { Tree::L(vec![]) };
    }
    *budget -= 1;
    let n = if depth >= 3 { 1 + rng.below(2) } else { rng.below(3) };
    let mut ch = vec![];
    for j in 0..n {
        // the first child continues the spine, the others are shallow
        let d = if j == 0 { depth - 1 } else { rng.below(depth) };
        ch.push(random_tree(rng, d, budget));
    }
    match rng.below(7) {
        0..=2 => Tree::T(ch),
        3..=4 => Tree::L(ch),
        _ => Tree::M(ch),
    }
}

struct MutStep {
    through: usize,
    p0: E,
    p1: E,
    is_root: bool,
}

fn tree_history(t: &Tree, deep: bool, variant: usize) -> (Vec<Stmt>, Vec<MutStep>) {
    let mut next = 0;
    let mut stmts = vec![Stmt::Let(0, t.expr(&mut next))];
    let src = if variant % 3 == 1 { E::Arg(Box::new(E::Var(0))) } else { E::Var(0) };
    stmts.push(Stmt::Let(1, op(if deep { "deep_copy" } else { "copy" }, vec![src])));
    let (mut p0, mut p1) = (vec![], vec![]);
    t.mutable_paths(E::Var(0), &mut p0);
    t.mutable_paths(E::Var(1), &mut p1);
    let mut meta = vec![];
    let mut n = 90;
    for through in 0..2 {
        for (j, (p, is_map)) in (if through == 0 { &p0 } else { &p1 }).iter().enumerate() {
            n += 1;
            // some of the mutations go through a function argument
            let target = if (j + variant) % 4 == 3 { E::Arg(Box::new(p.clone())) } else { p.clone() };
            let st = if *is_map {
                op("insert", vec![target, imm(vs("z")), imm(V::I(n))])
            } else {
                op("push", vec![target, imm(V::I(n))])
            };
            stmts.push(Stmt::Do(st));
            meta.push(MutStep { through, p0: p0[j].0.clone(), p1: p1[j].0.clone(), is_root: j == 0 && matches!(p, E::Var(_)) });
        }
    }
    (stmts, meta)
}

/// (D) independence laws on the implementation's dumps of one tree history
fn independence(cx: &mut Ctx, t: &Tree, deep: bool, stmts: &[Stmt], meta: &[MutStep], real: &[String]) {
    let dumps: Vec<Option<Dump>> = real.iter().map(|l| parse_dump(l)).collect();
    let hist: Vec<String> = stmts.iter().map(|s| s.sexp()).collect();
    let fail = |cx: &mut Ctx, law: &str, step: usize, what: String| {
        cx.d_violation(law, json!({"kind": "history", "history": hist, "step": step, "tree": t.shape(), "what": what, "impl": real.get(step)}));
    };
    let root_container = matches!(t, Tree::L(_) | Tree::M(_));
    for i in 1..dumps.len() {
        let Some(d) = &dumps[i] else { continue };
        if d.status != "ok" {
            fail(cx, "copy_top_independent", i, format!("step failed: {}", d.status));
            return;
        }
        let (a, b) = (&d.vars[0], &d.vars[1]);
        if deep {
            // reach(deep_copy a) ∩ reach(a) = ∅, at the copy and after every later mutation
            let common: Vec<usize> = d.reach(a).intersection(&d.reach(b)).cloned().collect();
            if !common.is_empty() {
                fail(cx, "deep_copy_disjoint", i, format!("objects {:?} are reachable from the original and from its deep copy", common));
                return;
            }
        } else if root_container && a == b {
            fail(cx, "copy_top_independent", i, "copy returned the original object".into());
            return;
        }
        if i == 1 {
            if d.tree(a, 0) != d.tree(b, 0) {
                fail(cx, if deep { "deep_copy_disjoint" } else { "copy_top_independent" }, i, "the copy is not structurally identical to its source".into());
                return;
            }
            continue;
        }
        // a mutation step: what the other name sees
        let m = &meta[i - 2];
        let Some(prev) = &dumps[i - 1] else { continue };
        let (other_prev, other_now) = (&prev.vars[1 - m.through], &d.vars[1 - m.through]);
        let unchanged = prev.tree(other_prev, 0) == d.tree(other_now, 0);
        if deep || (root_container && m.is_root) {
            if !unchanged {
                fail(
                    cx,
                    if deep { "deep_copy_disjoint" } else { "copy_top_independent" },
                    i,
                    format!("a mutation through v{} is visible through v{}", m.through, 1 - m.through),
                );
                return;
            }
        } else if !m.is_root || !root_container {
            // copy: nested containers (and everything below a tuple root) are still shared
            let (x, y) = (eval_path(d, &m.p0), eval_path(d, &m.p1));
            if x.is_none() || x != y {
                fail(cx, "copy_top_independent", i, "a nested container is no longer shared between the original and its shallow copy".into());
                return;
            }
        }
    }
}

fn run_tree(cx: &mut Ctx, t: &Tree, deep: bool, variant: usize, origin: &str) {
    let (stmts, meta) = tree_history(t, deep, variant);
    let model = model_history(cx, &stmts);
    check_history(cx, &stmts, &model, origin);
    let real = std::mem::take(&mut cx.last_real);
    cx.rep.bump(&format!("tree_depth={}", t.depth().min(8)));
    cx.rep.bump(&format!("tree_nodes={}", t.nodes().min(12)));
    cx.rep.bump(if deep { "tree_op=deep_copy" } else { "tree_op=copy" });
    if real.len() == stmts.len() {
        independence(cx, t, deep, &stmts, &meta, &real);
    } else {
        cx.d_violation("copy_top_independent", json!({"kind": "history", "history": stmts.iter().map(|s| s.sexp()).collect::<Vec<_>>(), "tree": t.shape(), "what": "the tree history did not run to its end", "steps_run": real.len()}));
    }
}

fn run_trees(cx: &mut Ctx, rng: &mut Rng, max_nodes: usize, n_random: usize) {
    let mut memo = vec![];
    let mut count = 0u64;
    for n in 1..=max_nodes {
        for (i, t) in trees(n, &mut memo).iter().enumerate() {
            for deep in [false, true] {
                run_tree(cx, t, deep, i, "trees_exhaustive");
                count += 1;
            }
            if cx.k_fail + cx.d_fail > 40 {
                return;
            }
        }
    }
    cx.rep.extra.insert("trees_exhaustive".into(), json!({"max_nodes": max_nodes, "kinds": ["tuple", "list", "map", "leaf"], "histories": count}));
    for i in 0..n_random {
        let depth = 3 + rng.below(4);
        let mut budget = 5 + rng.below(8);
        let t = random_tree(rng, depth, &mut budget);
        run_tree(cx, &t, rng.chance(2, 3), i, "trees_random");
        if cx.k_fail + cx.d_fail > 40 {
            return;
        }
    }
}

// ---- where the implementation is partial: nesting limits -----------------------------------------------------
// * koto.deep_copy: at most 256 nesting levels (counting every node), an error beyond (fix 55b45e0);
//   the model's `deepCopy deepCopyLimit` has exactly this domain — checked at the boundary.
// * `==` on containers: every nesting level takes 3 registers of the calling frame (u8 register ids),
//   so comparisons deeper than about (255 - registers in use) / 3 ≈ 80 levels are a runtime error
//   (fix 0d6eb6a / b752efa). `Model/Equal.veq` is total on finite trees; histories and pools stay far
//   inside (depth ≤ 8). Outside we only assert: an error or the right answer, never a panic.

fn nested_list(levels: usize, leaf: Option<KValue>) -> KValue {
    let mut v = match leaf {
        Some(x) => KValue::List(KList::from_slice(&[x])),
        None => KValue::List(KList::default()),
    };
    for _ in 1..levels {
        v = KValue::List(KList::from_slice(&[v]));
    }
    v
}

fn deep_limits(cx: &mut Ctx) {
    // deep_copy boundary, implementation vs model
    for (levels, leaf) in [(255usize, false), (256, false), (257, false), (255, true), (256, true), (300, false)] {
        let v = nested_list(levels, if leaf { Some(KValue::Null) } else { None });
        let got = kvh::catch(|| v.deep_copy().is_ok());
        let mut stmts = vec![Stmt::Let(0, if leaf { E::Lst(vec![imm(V::Null)]) } else { E::Lst(vec![]) })];
        for _ in 1..levels {
            stmts.push(Stmt::Let(0, E::Lst(vec![E::Var(0)])));
        }
        stmts.push(Stmt::Do(op("deep_copy", vec![E::Var(0)])));
        let model = model_history(cx, &stmts);
        let model_ok = model.last().is_some_and(|m| m.starts_with("ok"));
        let key = format!("deep_copy_limit levels={} leaf={}", levels, leaf);
        cx.rep.case(&key, true);
        cx.rep.bump("pool=deep_copy_nesting_limit");
        match got.clone() {
            Ok(ok) if ok == model_ok => {}
            other => cx.k_violation(
                "Model.HeapEval.deepCopyLimit",
                json!({"kind": "deep_copy_limit", "nested_lists": levels, "with_leaf": leaf, "impl_ok": format!("{:?}", other), "model_ok": model_ok,
                       "note": "koto.deep_copy is defined for at most 256 nesting levels; model and implementation disagree about this input"}),
            ),
        }
        // an independent statement of the documented limit
        let depth = levels + leaf as usize;
        if got == Ok(depth > 256) {
            cx.d_violation("deep_copy_disjoint(domain)", json!({"kind": "deep_copy_limit", "nesting": depth, "impl_ok": format!("{:?}", got)}));
        }
    }
    // the measured limit from a bare VM (no script frame): deepest nesting that still answers
    let mut deepest_ok = 0usize;
    for levels in 1..=130usize {
        let (a, b) = (nested_list(levels, Some(KValue::Number(1.into()))), nested_list(levels, Some(KValue::Number(1.into()))));
        let mut vm = KotoVm::default();
        if let Ok(true) = kvh::catch(move || matches!(vm.run_binary_op(BinaryOp::Equal, a, b), Ok(KValue::Bool(true)))) {
            deepest_ok = levels;
        }
    }
    cx.rep.extra.insert("eq_nesting_limit_bare_vm".into(), json!(deepest_ok));
    // `==` beyond the register headroom: error or true, never a panic / a wrong answer
    for levels in [8usize, 40, 120, 300] {
        let (a, b) = (nested_list(levels, Some(KValue::Number(1.into()))), nested_list(levels, Some(KValue::Number(1.0.into()))));
        let mut vm = KotoVm::default();
        let r = kvh::catch(move || match vm.run_binary_op(BinaryOp::Equal, a, b) {
            Ok(KValue::Bool(x)) => Some(x),
            Ok(_) => Some(false),
            Err(_) => None,
        });
        cx.rep.case(&format!("eq_depth levels={}", levels), true);
        cx.rep.bump(&format!("pool=eq_nesting_{}", match &r { Ok(Some(_)) => "answered", Ok(None) => "error", Err(_) => "panic" }));
        let bad = match &r {
            Ok(Some(true)) => false,
            Ok(None) => levels <= 40,
            _ => true,
        };
        if bad {
            cx.d_violation("eq_refl(domain)", json!({"kind": "eq_depth", "nested_lists": levels, "impl": format!("{:?}", r),
                "note": "structurally equal nested lists: expected true (or a runtime error beyond the register headroom of about 80 levels)"}));
        }
    }
}

// ---- deep_copy and host objects ------------------------------------------------------------------------------
// `KotoCopy::deep_copy` is documented as "how the object should behave when called from koto.deep_copy";
// an object that owns a list and implements it must come out of `deep_copy` with a list of its own.

#[derive(Clone)]
struct Holder {
    inner: KList,
}

impl KotoType for Holder {
    fn type_static() -> &'static str {
        "Holder"
    }
    fn type_string(&self) -> KString {
        "Holder".into()
    }
}

impl KotoCopy for Holder {
    fn copy(&self) -> KObject {
        KObject::from(self.clone())
    }
    fn deep_copy(&self) -> KObject {
        let inner = match KValue::List(self.inner.clone()).deep_copy() {
            Ok(KValue::List(l)) => l,
            _ => self.inner.clone(),
        };
        KObject::from(Holder { inner })
    }
}

impl KotoAccess for Holder {}
impl KotoObject for Holder {}

fn host_object_deep_copy(cx: &mut Ctx) {
    for nested_in_list in [false, true] {
        let inner = KList::from_slice(&[KValue::Number(1.into())]);
        let obj = KValue::Object(KObject::from(Holder { inner: inner.clone() }));
        let src = if nested_in_list { KValue::List(KList::from_slice(&[obj])) } else { obj };
        let key = format!("deep_copy host object nested_in_list={}", nested_in_list);
        cx.rep.case(&key, true);
        cx.rep.bump("pool=deep_copy_host_object");
        let shared = kvh::catch(|| {
            let copy = src.deep_copy().ok()?;
            let o = match &copy {
                KValue::Object(o) => o.clone(),
                KValue::List(l) => match l.data().first() {
                    Some(KValue::Object(o)) => o.clone(),
                    _ => return None,
                },
                _ => return None,
            };
            let h = o.cast::<Holder>().ok()?;
            // mutate through the original, observe through the copy
            inner.data_mut().push(KValue::Null);
            Some(h.inner.is_same_instance(&inner) || h.inner.len() != 1)
        });
        match shared {
            Ok(Some(false)) => {}
            // regression check for F-C14-4 (fixed by d0adf2c): a VIOLATION if it returns
            Ok(Some(true)) => cx.d_violation(
                "deep_copy_disjoint(host object)",
                json!({"kind": "host_object", "nested_in_list": nested_in_list,
                       "note": "the list owned by a host object that implements KotoCopy::deep_copy is shared between the value and its deep copy"}),
            ),
            other => cx.d_violation("deep_copy_disjoint(host object)", json!({"kind": "host_object", "nested_in_list": nested_in_list, "outcome": format!("{:?}", other)})),
        }
    }
}
