// ---- history language: expressions / statements, model text, Koto source ----------------------------

const NV: usize = 6;
const NC: usize = 3;

#[derive(Clone, Debug, PartialEq)]
enum E {
    Var(usize),
    Cap(usize),
    Imm(V),
    Tup(Vec<E>),
    Lst(Vec<E>),
    Mp(Vec<(E, E)>),
    Arg(Box<E>),
    Op(String, Vec<E>),
}

#[derive(Clone, Debug, PartialEq)]
enum Stmt {
    Let(usize, E),
    Do(E),
    Clo(usize, E),
}

fn op(name: &str, args: Vec<E>) -> E {
    E::Op(name.to_string(), args)
}

impl E {
    fn sexp(&self) -> String {
        match self {
            E::Var(n) => format!("(v {})", n),
            E::Cap(n) => format!("(c {})", n),
            E::Imm(v) => v.canon(),
            E::Tup(es) => format!("(t{})", es.iter().map(|e| format!(" {}", e.sexp())).collect::<String>()),
            E::Lst(es) => format!("(l{})", es.iter().map(|e| format!(" {}", e.sexp())).collect::<String>()),
            E::Mp(es) => format!(
                "(m{})",
                es.iter().map(|(k, v)| format!(" ({} {})", k.sexp(), v.sexp())).collect::<String>()
            ),
            E::Arg(e) => format!("(arg {})", e.sexp()),
            E::Op(n, args) => format!("(op {}{})", n, args.iter().map(|e| format!(" {}", e.sexp())).collect::<String>()),
        }
    }

    /// Koto source. `y` is the name standing for the innermost wrapped target, if any.
    fn src(&self) -> String {
        match self {
            E::Var(n) => format!("v{}", n),
            E::Cap(n) => format!("c{}(|y| y)", n),
            E::Imm(v) => v.source(),
            E::Tup(es) => match es.len() {
                0 => "[].to_tuple()".into(),
                1 => format!("({},)", es[0].src()),
                _ => format!("({})", es.iter().map(|e| e.src()).collect::<Vec<_>>().join(", ")),
            },
            E::Lst(es) => format!("[{}]", es.iter().map(|e| e.src()).collect::<Vec<_>>().join(", ")),
            E::Mp(es) => format!(
                "{{{}}}",
                es.iter().map(|(k, v)| format!("{}: {}", k.src(), v.src())).collect::<Vec<_>>().join(", ")
            ),
            E::Arg(e) => format!("with_arg({}, |y| y)", e.src()),
            E::Op(name, args) => {
                // the first argument is the target; a target reached through a closure capture or a
                // function argument is operated on *inside* that function
                match args.first() {
                    Some(E::Cap(n)) => format!("c{}(|y| {})", n, op_src(name, "y".into(), &args[1..])),
                    Some(E::Arg(inner)) => {
                        format!("with_arg({}, |y| {})", inner.src(), op_src(name, "y".into(), &args[1..]))
                    }
                    Some(t) => op_src(name, t.src(), &args[1..]),
                    None => "null".into(),
                }
            }
        }
    }
}

fn op_src(name: &str, t: String, rest: &[E]) -> String {
    let a: Vec<String> = rest.iter().map(|e| e.src()).collect();
    let call = |m: &str| format!("{}.{}({})", t, m, a.join(", "));
    match name {
        "index" => format!("{}[{}]", t, a[0]),
        "iset" => format!("{}[{}] = {}", t, a[0], a[1]),
        "add" => format!("({} + {})", t, a[0]),
        "eq" => format!("({} == {})", t, a[0]),
        "ne" => format!("({} != {})", t, a[0]),
        "lt" => format!("({} < {})", t, a[0]),
        "gt" => format!("({} > {})", t, a[0]),
        "le" => format!("({} <= {})", t, a[0]),
        "ge" => format!("({} >= {})", t, a[0]),
        "copy" => format!("koto.copy({})", t),
        "deep_copy" => format!("koto.deep_copy({})", t),
        "size" => format!("koto.size({})", t),
        "keys" => format!("{}.keys().to_tuple()", t),
        "values" => format!("{}.values().to_tuple()", t),
        "sortkey" => format!("{}.sort(|x| x[0])", t),
        "sortval" => format!("{}.sort(|k, v| v)", t),
        "retainfn" => format!("{}.retain(|x| x > 1)", t),
        "extendinc" => format!("{}.extend({}.each(|x| x + 1))", t, a[0]),
        "updateinc" => format!("{}.update({}, {}, |x| x + 1)", t, a[0], a[1]),
        "update" => format!("{}.update({}, {}, |x| (x, 0))", t, a[0], a[1]),
        // the host (Rust) API, called by the native `kv_host` on the objects the script passes
        m if m.starts_with("h_") => {
            let mut all = vec![t.clone()];
            all.extend(a.iter().cloned());
            format!("kv_host('{}', {})", &m[2..], all.join(", "))
        }
        m => call(m),
    }
}

impl Stmt {
    fn sexp(&self) -> String {
        match self {
            Stmt::Let(n, e) => format!("(let {} {})", n, e.sexp()),
            Stmt::Do(e) => format!("(do {})", e.sexp()),
            Stmt::Clo(n, e) => format!("(clo {} {})", n, e.sexp()),
        }
    }
    fn expr(&self) -> &E {
        match self {
            Stmt::Let(_, e) | Stmt::Do(e) | Stmt::Clo(_, e) => e,
        }
    }
}

fn render_script(hist: &[Stmt]) -> String {
    let mut s = String::new();
    s.push_str("with_arg = |y, f| f y\n");
    for i in 0..NV {
        s.push_str(&format!("v{} = null\n", i));
    }
    for i in 0..NC {
        s.push_str(&format!("c{} = |f| f null\n", i));
    }
    s.push_str("r = null\nok = true\n");
    let vars: Vec<String> = (0..NV).map(|i| format!("v{}", i)).collect();
    let caps: Vec<String> = (0..NC).map(|i| format!("c{}(|y| y)", i)).collect();
    for st in hist {
        s.push_str("ok = true\ntry\n");
        s.push_str(&format!("  r = {}\n", st.expr().src()));
        s.push_str("catch e\n  ok = false\n");
        match st {
            Stmt::Let(n, _) => s.push_str(&format!("if ok\n  v{} = r\n", n)),
            Stmt::Clo(n, _) => s.push_str(&format!("if ok\n  c{} = |f| f r\n", n)),
            Stmt::Do(_) => {}
        }
        s.push_str(&format!("kv_step(ok, r, ({}), ({}))\n", vars.join(", "), caps.join(", ")));
    }
    s
}

// ---- s-expression text → E (replay / corpus) ---------------------------------------------------------

fn parse_e(tk: &mut Toks) -> E {
    let t = tk.t[tk.i];
    if t != "(" {
        let mut objs = BTreeMap::new();
        return E::Imm(parse_v(tk, &mut objs));
    }
    let head = tk.t[tk.i + 1];
    match head {
        "v" | "c" => {
            let n: usize = tk.t[tk.i + 2].parse().unwrap();
            tk.i += 4;
            if head == "v" { E::Var(n) } else { E::Cap(n) }
        }
        "arg" => {
            tk.i += 2;
            let e = parse_e(tk);
            tk.i += 1;
            E::Arg(Box::new(e))
        }
        "t" | "l" => {
            tk.i += 2;
            let mut es = vec![];
            while tk.t[tk.i] != ")" {
                es.push(parse_e(tk));
            }
            tk.i += 1;
            if head == "t" { E::Tup(es) } else { E::Lst(es) }
        }
        "m" => {
            tk.i += 2;
            let mut es = vec![];
            while tk.t[tk.i] != ")" {
                tk.i += 1;
                let k = parse_e(tk);
                let v = parse_e(tk);
                tk.i += 1;
                es.push((k, v));
            }
            tk.i += 1;
            E::Mp(es)
        }
        "op" => {
            let name = tk.t[tk.i + 2].to_string();
            tk.i += 3;
            let mut es = vec![];
            while tk.t[tk.i] != ")" {
                es.push(parse_e(tk));
            }
            tk.i += 1;
            E::Op(name, es)
        }
        _ => {
            // (r a b incl)
            let mut objs = BTreeMap::new();
            E::Imm(parse_v(tk, &mut objs))
        }
    }
}

fn parse_stmt(line: &str) -> Option<Stmt> {
    let t = tokenize(line);
    if t.len() < 3 || t[0] != "(" {
        return None;
    }
    let mut tk = Toks { t, i: 0 };
    let head = tk.t[1];
    match head {
        "let" | "clo" => {
            let n: usize = tk.t[2].parse().ok()?;
            tk.i = 3;
            let e = parse_e(&mut tk);
            Some(if head == "let" { Stmt::Let(n, e) } else { Stmt::Clo(n, e) })
        }
        "do" => {
            tk.i = 2;
            Some(Stmt::Do(parse_e(&mut tk)))
        }
        _ => None,
    }
}

// ---- running a script on the real runtime --------------------------------------------------------------

#[derive(Debug, Clone, PartialEq)]
enum Outcome {
    Finished,
    Error(String),
    Panic(String),
}

/// Runs `src` with the native `kv_step(ok, r, vars, caps)` / `kv_out(v)` collectors installed.
/// Returns the collected lines and how the run ended.
fn run_koto(src: &str, inputs: &[(&str, KValue)]) -> (Vec<String>, Outcome) {
    let lines: Rc<RefCell<Vec<String>>> = Rc::new(RefCell::new(vec![]));
    let l2 = lines.clone();
    let l3 = lines.clone();
    let src = src.to_string();
    let inputs: Vec<(String, KValue)> = inputs.iter().map(|(n, v)| (n.to_string(), v.clone())).collect();
    let r = kvh::catch(move || {
        let mut koto = koto::Koto::with_settings(koto::KotoSettings::default());
        let prelude = koto.prelude();
        prelude.add_fn("kv_step", move |ctx| {
            let a = ctx.args();
            if a.len() != 4 {
                return runtime_error!("kv_step: 4 arguments expected");
            }
            let ok = matches!(a[0], KValue::Bool(true));
            let (vars, caps) = match (&a[2], &a[3]) {
                (KValue::Tuple(v), KValue::Tuple(c)) => (v.to_vec(), c.to_vec()),
                _ => return runtime_error!("kv_step: tuples expected"),
            };
            let mut seen = Seen::default();
            let sv = dump_real_vals(&vars, &mut seen);
            let sc = dump_real_vals(&caps, &mut seen);
            let line = if ok {
                let sr = dump_real_vals(&[a[1].clone()], &mut seen);
                format!("ok ; {} ; {} ; {}", sv, sc, sr)
            } else {
                format!("err ; {} ; {} ; -", sv, sc)
            };
            l2.borrow_mut().push(line);
            Ok(KValue::Null)
        });
        prelude.add_fn("kv_host", host_call);
        prelude.add_fn("kv_out", move |ctx| {
            let a = ctx.args();
            let s = a.iter().map(real_tree).collect::<Vec<_>>().join(" ");
            l3.borrow_mut().push(s);
            Ok(KValue::Null)
        });
        for (n, v) in &inputs {
            prelude.insert(n.as_str(), v.clone());
        }
        match koto.compile_and_run(src.as_str()) {
            Ok(_) => Outcome::Finished,
            Err(e) => Outcome::Error(e.to_string()),
        }
    });
    let out = lines.borrow().clone();
    match r {
        Ok(o) => (out, o),
        Err(p) => (out, Outcome::Panic(p)),
    }
}


// ---- the host-op alphabet: the Rust API an embedding application uses --------------------------------------

fn host_index(v: &KValue) -> Option<usize> {
    match v {
        KValue::Number(KNumber::I64(i)) if *i >= 0 => Some(*i as usize),
        _ => None,
    }
}

/// `kv_host(name, target, args…)`: one call of the host API on the objects passed by the script
fn host_call(ctx: &mut CallContext) -> koto_runtime::Result<KValue> {
    let a = ctx.args();
    let name = match a.first() {
        Some(KValue::Str(s)) => s.as_str().to_string(),
        _ => return runtime_error!("kv_host: name expected"),
    };
    let key = |v: &KValue| ValueKey::try_from(v.clone());
    Ok(match (name.as_str(), &a[1..]) {
        ("insert", [KValue::Map(m), k, v]) => {
            m.insert(key(k)?, v.clone());
            KValue::Null
        }
        ("remove", [KValue::Map(m), k]) => m.remove(key(k)?).unwrap_or(KValue::Null),
        ("remove_path", [KValue::Map(m), KValue::Str(p)]) => m.remove_path(p.as_str()).unwrap_or(KValue::Null),
        ("get", [KValue::Map(m), k]) => match k {
            // the `&str` flavour of the lookup for string keys, `&ValueKey` otherwise
            KValue::Str(s) => m.get(s.as_str()).unwrap_or(KValue::Null),
            k => m.get(&key(k)?).unwrap_or(KValue::Null),
        },
        ("len", [KValue::Map(m)]) => KValue::Number((m.len() as i64).into()),
        ("len", [KValue::List(l)]) => KValue::Number((l.len() as i64).into()),
        ("clear", [KValue::Map(m)]) => {
            let mut m = m.clone();
            m.clear();
            KValue::Null
        }
        ("slice", [KValue::Map(m), x, y]) => match (host_index(x), host_index(y)) {
            (Some(x), Some(y)) if x <= y => match m.data().make_data_slice(x..y) {
                Some(d) => KValue::Map(KMap::with_data(d)),
                None => KValue::Null,
            },
            _ => KValue::Null,
        },
        ("keys", [KValue::Map(m)]) => {
            let ks: Vec<KValue> = m.data().keys().map(|k| k.value().clone()).collect();
            KValue::Tuple(ks.into())
        }
        ("push", [KValue::List(l), v]) => {
            l.data_mut().push(v.clone());
            KValue::Null
        }
        ("subtuple", [KValue::Tuple(t), x, y]) => match (host_index(x), host_index(y)) {
            (Some(x), Some(y)) if x <= y => t.make_sub_tuple(x..y).map(KValue::Tuple).unwrap_or(KValue::Null),
            _ => KValue::Null,
        },
        ("pop_front", [KValue::Tuple(t)]) => {
            let mut t = t.clone();
            match t.pop_front() {
                Some(v) => KValue::Tuple(vec![v, KValue::Tuple(t)].into()),
                None => KValue::Null,
            }
        }
        ("pop_back", [KValue::Tuple(t)]) => {
            let mut t = t.clone();
            match t.pop_back() {
                Some(v) => KValue::Tuple(vec![v, KValue::Tuple(t)].into()),
                None => KValue::Null,
            }
        }
        _ => return runtime_error!("kv_host: unknown operation or arguments"),
    })
}
