// ---- (D): the property's laws evaluated on the implementation's own dumps --------------------------------
// Independent of the Lean model: only the statement and the real dumps before / after it are used.

fn num_of(v: &V) -> Option<(Option<i64>, f64)> {
    match v {
        V::I(i) => Some((Some(*i), *i as f64)),
        V::F(b) => Some((None, f64::from_bits(*b))),
        _ => None,
    }
}

/// "equal as values" for keys: numbers by value (int/float mixed compare as f64), the rest structurally
fn key_eq(a: &V, b: &V) -> bool {
    match (a, b) {
        (V::I(x), V::I(y)) => x == y,
        (V::I(_) | V::F(_), V::I(_) | V::F(_)) => num_of(a).unwrap().1 == num_of(b).unwrap().1,
        (V::T(x), V::T(y)) => x.len() == y.len() && x.iter().zip(y.iter()).all(|(p, q)| key_eq(p, q)),
        _ => a == b,
    }
}

/// the two keys are `key_eq` but are written differently to the hasher (shape of F-C14-1)
fn hash_mismatch(a: &V, b: &V) -> bool {
    key_eq(a, b) && a.canon() != b.canon()
}

fn erase_ids(v: &V) -> V {
    match v {
        V::Ref(_) => V::Ref(0),
        V::T(xs) => V::T(xs.iter().map(erase_ids).collect()),
        v => v.clone(),
    }
}

/// value of a path expression in a dump
fn eval_path(d: &Dump, e: &E) -> Option<V> {
    match e {
        E::Var(n) => d.vars.get(*n).cloned(),
        E::Cap(n) => d.caps.get(*n).cloned(),
        E::Arg(e) => eval_path(d, e),
        E::Imm(v) => Some(v.clone()),
        E::Op(name, args) if name == "index" && args.len() == 2 => {
            let t = eval_path(d, &args[0])?;
            let E::Imm(V::I(i)) = &args[1] else { return None };
            let i = usize::try_from(*i).ok()?;
            match t {
                V::Ref(id) => match d.objs.get(&id)? {
                    Obj::List(xs) => xs.get(i).cloned(),
                    Obj::Map(es) => es.get(i).map(|(k, v)| V::T(vec![k.clone(), v.clone()])),
                },
                V::T(xs) => xs.get(i).cloned(),
                _ => None,
            }
        }
        E::Op(name, args) if name == "get" && args.len() == 2 => {
            let t = eval_path(d, &args[0])?;
            let E::Imm(k) = &args[1] else { return None };
            match t {
                V::Ref(id) => match d.objs.get(&id)? {
                    Obj::Map(es) => es.iter().find(|(kk, _)| key_eq(kk, k)).map(|(_, v)| v.clone()),
                    _ => None,
                },
                _ => None,
            }
        }
        _ => None,
    }
}

fn is_path(e: &E) -> bool {
    match e {
        E::Var(_) | E::Cap(_) => true,
        E::Arg(e) => is_path(e),
        E::Op(n, a) if (n == "index" || n == "get") && a.len() == 2 => {
            is_path(&a[0]) && matches!(&a[1], E::Imm(V::I(_))) | (n == "get" && matches!(&a[1], E::Imm(_)))
        }
        _ => false,
    }
}

/// the documented total order of keys (independent statement, not the model's keyCmp):
/// null < bool < number < string < range < tuple; tuples by length, then element-wise
fn spec_key_cmp(a: &V, b: &V) -> std::cmp::Ordering {
    use std::cmp::Ordering::*;
    let rank = |v: &V| match v {
        V::Null => 0,
        V::Bool(_) => 1,
        V::I(_) | V::F(_) => 2,
        V::S(_) => 3,
        V::R(..) => 4,
        V::T(_) => 5,
        _ => 6,
    };
    match (a, b) {
        (V::Bool(x), V::Bool(y)) => x.cmp(y),
        (V::I(x), V::I(y)) => x.cmp(y),
        (V::I(_) | V::F(_), V::I(_) | V::F(_)) => {
            let (x, y) = (num_of(a).unwrap().1, num_of(b).unwrap().1);
            x.partial_cmp(&y).unwrap_or_else(|| x.is_nan().cmp(&y.is_nan()))
        }
        (V::S(x), V::S(y)) => x.cmp(y),
        (V::R(a1, a2), V::R(b1, b2)) => (a1, a2).cmp(&(b1, b2)),
        (V::T(x), V::T(y)) => x.len().cmp(&y.len()).then_with(|| {
            for (p, q) in x.iter().zip(y.iter()) {
                let o = spec_key_cmp(p, q);
                if o != Equal {
                    return o;
                }
            }
            Equal
        }),
        _ => rank(a).cmp(&rank(b)),
    }
}

fn spec_key_lt(a: &V, b: &V) -> bool {
    match (a, b) {
        (V::Null, V::Null) => false,
        (V::Null, _) => true,
        (_, V::Null) => false,
        (V::S(x), V::S(y)) => x < y,
        _ => match (num_of(a), num_of(b)) {
            (Some((Some(x), _)), Some((Some(y), _))) => x < y,
            (Some((_, x)), Some((_, y))) => x < y,
            _ => false,
        },
    }
}

struct DFail {
    law: String,
    detail: String,
    finding: Option<&'static str>,
}

fn keys_text(es: &[(V, V)]) -> Vec<String> {
    es.iter().map(|(k, _)| k.canon()).collect()
}

fn map_of<'a>(d: &'a Dump, v: &V) -> Option<&'a Vec<(V, V)>> {
    match v {
        V::Ref(id) => match d.objs.get(id)? {
            Obj::Map(es) => Some(es),
            _ => None,
        },
        _ => None,
    }
}

/// all (D) laws for one executed step
fn d_check(prev: &Dump, st: &Stmt, next: &Dump) -> Vec<DFail> {
    let mut out = vec![];
    let mut fail = |law: &str, detail: String, finding: Option<&'static str>| {
        out.push(DFail { law: law.to_string(), detail, finding })
    };
    let ok = next.status == "ok";
    let assigned_var = match st {
        Stmt::Let(n, _) if ok => Some(*n),
        _ => None,
    };
    // immutables_frozen: a variable that was not assigned keeps its immediate value (tuple structure
    // included; only the contents of lists/maps referenced from it may change)
    for i in 0..prev.vars.len().min(next.vars.len()) {
        if Some(i) != assigned_var && erase_ids(&prev.vars[i]) != erase_ids(&next.vars[i]) {
            fail("immutables_frozen", format!("v{}: {} -> {}", i, prev.vars[i].canon(), next.vars[i].canon()), None);
        }
    }
    // keys pairwise non-equivalent in every map object
    for (id, o) in &next.objs {
        if let Obj::Map(es) = o {
            for i in 0..es.len() {
                for j in i + 1..es.len() {
                    if key_eq(&es[i].0, &es[j].0) {
                        let f = if hash_mismatch(&es[i].0, &es[j].0) { Some("F-C14-1") } else { None };
                        fail("map_keys_distinct", format!("object #{}: keys {} and {}", id, es[i].0.canon(), es[j].0.canon()), f);
                    }
                }
            }
        }
    }
    if !ok {
        let state = |d: &Dump| {
            let mut r = BTreeSet::new();
            d.vars.iter().chain(d.caps.iter()).for_each(|v| d.reach_into(v, &mut r));
            d.objs.iter().filter(|(k, _)| r.contains(k)).map(|(k, o)| (*k, o.clone())).collect::<Vec<_>>()
        };
        let unchanged = prev.vars == next.vars && prev.caps == next.caps && state(prev) == state(next);
        // operations that can fail part-way (a comparison / predicate / updater raises in the middle)
        let part_way = match st.expr() {
            E::Op(n, a) if matches!(n.as_str(), "sort" | "sortval" | "retainfn" | "updateinc") && a.first().is_some_and(is_path) => Some((n.as_str(), &a[0])),
            _ => None,
        };
        match part_way {
            None => {
                // every other failed operation leaves every name and every object as it was
                // (objects reachable from the names only: a dump also lists what the previous result reached)
                if !unchanged {
                    fail("error_leaves_state", "the statement raised an error but the heap changed".into(), None);
                }
            }
            Some((name, target)) => {
                // what the container holds after the caught failure, seen through the same path
                // (every alias shows the same object in the dump)
                let elems = |d: &Dump| -> Option<Vec<String>> {
                    match eval_path(d, target)? {
                        V::Ref(id) => match d.objs.get(&id)? {
                            Obj::List(xs) => xs.iter().map(|x| d.tree(x, 0).map(|t| t.canon())).collect(),
                            Obj::Map(es) => es.iter().map(|(k, x)| d.tree(x, 0).map(|t| format!("{} -> {}", k.canon(), t.canon()))).collect(),
                        },
                        _ => None,
                    }
                };
                if let (Some(before), Some(after)) = (elems(prev), elems(next)) {
                    let (mut b, mut a) = (before.clone(), after.clone());
                    b.sort();
                    a.sort();
                    match name {
                        "sort" | "sortval" => {
                            if a != b {
                                fail("sort_sorted_perm_stable(failure)", format!("after the failed sort the container does not hold a permutation of its entries: {:?} -> {:?}", before, after), None);
                            }
                        }
                        "retainfn" => {
                            // a sub-sequence that keeps the untested tail
                            let mut it = before.iter();
                            if !after.iter().all(|x| it.any(|y| y == x)) {
                                fail("error_leaves_state(retain)", format!("after the failed retain the list is not a sub-sequence of what it was: {:?} -> {:?}", before, after), None);
                            }
                        }
                        _ => {
                            // update: the entries that were there are all still there, in order
                            // (the default may have been appended, see requests/C14.md (c))
                            if after.len() < before.len() || after[..before.len()] != before[..] || after.len() > before.len() + 1 {
                                fail("map_order_inv(failure)", format!("after the failed update: {:?} -> {:?}", before, after), None);
                            }
                        }
                    }
                }
            }
        }
        return out;
    }
    match st {
        Stmt::Let(n, e) if is_path(e) => {
            // alias_shared: the new name denotes the very same object (when the path starts at the
            // assigned variable itself the source is read in the state before the step)
            let own = e.root_var() == Some(*n);
            let src = if own { eval_path(prev, e).map(|v| erase_ids(&v)) } else { eval_path(next, e) };
            if let (Some(a), Some(b)) = (src, next.vars.get(*n)) {
                let b = if own { erase_ids(b) } else { b.clone() };
                if a != b {
                    fail("alias_shared", format!("v{} = {} but the source is {}", n, b.canon(), a.canon()), None);
                }
            }
        }
        Stmt::Clo(n, e) if is_path(e) => {
            let own = e.root_cap() == Some(*n);
            let src = if own { eval_path(prev, e).map(|v| erase_ids(&v)) } else { eval_path(next, e) };
            if let (Some(a), Some(b)) = (src, next.caps.get(*n)) {
                let b = if own { erase_ids(b) } else { b.clone() };
                if a != b {
                    fail("alias_shared", format!("c{} captured {} but the source is {}", n, b.canon(), a.canon()), None);
                }
            }
        }
        Stmt::Let(n, E::Op(name, args)) if (name == "copy" || name == "deep_copy") && args.len() == 1 && is_path(&args[0]) => {
            let res = next.vars[*n].clone();
            let src_prev = eval_path(prev, &args[0]);
            if name == "copy" {
                // independent top level, nested elements shared: evaluate the source in the state
                // after the step unless the assignment replaced it
                let src_next = eval_path(next, &args[0]);
                let overwritten = matches!(args[0].root_var(), Some(r) if r == *n);
                if let (Some(V::Ref(a)), V::Ref(b), false) = (&src_next, &res, overwritten) {
                    if a == b {
                        fail("copy_top_independent", format!("copy returned the same object #{}", a), None);
                    } else if next.objs.get(a) != next.objs.get(b) {
                        fail(
                            "copy_top_independent",
                            format!("copy #{} differs from its source #{} (elements must be the same values / shared handles)", b, a),
                            None,
                        );
                    }
                } else if let (Some(s), false) = (&src_next, overwritten) {
                    if !matches!(s, V::Ref(_)) && s != &res {
                        fail("copy_top_independent", format!("copy of an immediate value changed it: {} -> {}", s.canon(), res.canon()), None);
                    }
                }
            } else {
                // deep_copy_disjoint: nothing else reaches the new tree; same structure
                let mine = next.reach(&res);
                let mut others = BTreeSet::new();
                for (i, v) in next.vars.iter().enumerate() {
                    if i != *n {
                        next.reach_into(v, &mut others);
                    }
                }
                for v in &next.caps {
                    next.reach_into(v, &mut others);
                }
                let common: Vec<_> = mine.intersection(&others).collect();
                if !common.is_empty() {
                    fail("deep_copy_disjoint", format!("objects {:?} of the deep copy are reachable from other names", common), None);
                }
                if let Some(sp) = src_prev {
                    let (a, b) = (prev.tree(&sp, 0), next.tree(&res, 0));
                    if a.is_some() && a != b {
                        fail("deep_copy_disjoint", "deep copy is not structurally identical to its source".into(), None);
                    }
                    // a tree: no object occurs twice
                    if let Some(t) = &b {
                        let _ = t;
                    }
                }
            }
        }
        _ => {}
    }
    // map order / key identity oracle
    // KTuple::make_sub_tuple: "the result will always be a subset of the input tuple"
    if let E::Op(name, args) = st.expr() {
        if name == "h_subtuple" && args.len() == 3 && is_path(&args[0]) {
            if let (Some(V::T(xs)), E::Imm(V::I(a)), E::Imm(V::I(b)), Some(r)) = (eval_path(prev, &args[0]), &args[1], &args[2], &next.result) {
                let (a, b, n) = (*a as usize, *b as usize, xs.len());
                let want = if a <= b && b <= n { V::T(xs[a..b].to_vec()) } else { V::Null };
                if erase_ids(r) != erase_ids(&want) {
                    // regression check for F-C14-6 (fixed by a83c277): no attribution, a VIOLATION if it returns
                    fail("immutables_frozen(sub-tuple bounds)", format!("make_sub_tuple({}..{}) of a {}-element tuple returned {}", a, b, n, r.canon()), None);
                }
            }
        }
    }
    // host-API operations are judged by the same laws as their script counterparts
    let normalized: Option<(String, Vec<E>)> = match st.expr() {
        E::Op(name, args) => match name.as_str() {
            "h_insert" => Some(("insert".into(), args.clone())),
            "h_remove" => Some(("remove".into(), args.clone())),
            "h_get" => Some(("get".into(), args.clone())),
            "h_clear" => Some(("clear".into(), args.clone())),
            "h_remove_path" => match (args.first(), args.get(1)) {
                // KMap::remove_path("a.b.x") = remove "x" from the map reached through keys a, b
                (Some(p), Some(E::Imm(V::S(path)))) if is_path(p) => {
                    let segs: Vec<&[u8]> = path.split(|b| *b == b'.').collect();
                    let mut target = p.clone();
                    let mut ok_path = true;
                    for seg in &segs[..segs.len() - 1] {
                        target = op("get", vec![target, imm(V::S(seg.to_vec()))]);
                        ok_path &= eval_path(prev, &target).is_some_and(|v| map_of(prev, &v).is_some());
                    }
                    if ok_path { Some(("remove".into(), vec![target, imm(V::S(segs[segs.len() - 1].to_vec()))])) } else { None }
                }
                _ => None,
            },
            _ => Some((name.clone(), args.clone())),
        },
        _ => None,
    };
    if let Some((name, args)) = &normalized {
        let overwritten = match st {
            Stmt::Let(n, _) => args.first().and_then(|t| t.root_var()) == Some(*n),
            Stmt::Clo(n, _) => args.first().and_then(|t| t.root_cap()) == Some(*n),
            _ => false,
        };
        if let Some(t) = args.first().filter(|t| is_path(t) && !overwritten) {
            if let (Some(pv), Some(nv)) = (eval_path(prev, t), eval_path(next, t)) {
                if let (Some(before), Some(after)) = (map_of(prev, &pv), map_of(next, &nv)) {
                    map_oracle(prev, name, args, before, after, next.result.as_ref(), &mut fail);
                }
            }
        }
    }
    out
}

impl E {
    fn root_cap(&self) -> Option<usize> {
        match self {
            E::Cap(n) => Some(*n),
            E::Arg(e) => e.root_cap(),
            E::Op(_, a) => a.first().and_then(|e| e.root_cap()),
            _ => None,
        }
    }
    fn root_var(&self) -> Option<usize> {
        match self {
            E::Var(n) => Some(*n),
            E::Arg(e) => e.root_var(),
            E::Op(_, a) => a.first().and_then(|e| e.root_var()),
            _ => None,
        }
    }
}

fn map_oracle(
    prev: &Dump,
    name: &str,
    args: &[E],
    before: &[(V, V)],
    after: &[(V, V)],
    result: Option<&V>,
    fail: &mut impl FnMut(&str, String, Option<&'static str>),
) {
    let imm_of = |e: &E| -> Option<V> {
        match e {
            E::Imm(v) => Some(v.clone()),
            _ => None,
        }
    };
    let find = |k: &V| before.iter().position(|(kk, _)| key_eq(kk, k));
    let attr = |k: &V| -> Option<&'static str> {
        if before.iter().any(|(kk, _)| hash_mismatch(kk, k)) { Some("F-C14-1") } else { None }
    };
    let mut expected: Vec<String> = keys_text(before);
    let mut finding = None;
    match name {
        "sortval" => {
            // a permutation of the entries, ordered by value (numbers / strings), stable
            let mut idx: Vec<usize> = (0..before.len()).collect();
            idx.sort_by(|a, b| {
                if spec_key_lt(&before[*a].1, &before[*b].1) {
                    std::cmp::Ordering::Less
                } else if spec_key_lt(&before[*b].1, &before[*a].1) {
                    std::cmp::Ordering::Greater
                } else {
                    std::cmp::Ordering::Equal
                }
            });
            expected = idx.iter().map(|i| before[*i].0.canon()).collect();
        }
        "insert" | "update" | "updateinc" => {
            let Some(k) = imm_of(&args[1]) else { return };
            finding = attr(&k);
            if find(&k).is_none() {
                expected.push(k.canon());
            }
        }
        "remove" => {
            let Some(k) = imm_of(&args[1]) else { return };
            finding = attr(&k);
            let pos = find(&k);
            if let Some(i) = pos {
                expected.remove(i);
            }
            // the removed value is returned
            if let Some(r) = result {
                let want = pos.map(|i| before[i].1.clone()).unwrap_or(V::Null);
                if want.is_container_free() && &want != r {
                    fail("key_identity", format!("remove {} returned {} expected {}", k.canon(), r.canon(), want.canon()), finding);
                }
            }
        }
        "extend" => {
            let Some(src) = eval_path(prev, &args[1]) else { return };
            let Some(other) = map_of(prev, &src) else { return };
            let mut ks: Vec<V> = before.iter().map(|(k, _)| k.clone()).collect();
            for (k, _) in other {
                if !ks.iter().any(|kk| key_eq(kk, k)) {
                    ks.push(k.clone());
                }
            }
            expected = ks.iter().map(|k| k.canon()).collect();
        }
        "clear" => expected.clear(),
        "sort" => {
            // ordered, stable permutation of the entries under the total order of keys
            // (null < bool < number < string < range < tuple, within a kind by value)
            let mut idx: Vec<usize> = (0..before.len()).collect();
            idx.sort_by(|a, b| spec_key_cmp(&before[*a].0, &before[*b].0));
            expected = idx.iter().map(|i| before[*i].0.canon()).collect();
            'outer: for i in 0..after.len() {
                for j in i + 1..after.len() {
                    if spec_key_cmp(&after[j].0, &after[i].0) == std::cmp::Ordering::Less {
                        fail("sort_sorted_perm_stable", format!("map.sort left {} before {}", after[i].0.canon(), after[j].0.canon()), None);
                        break 'outer;
                    }
                }
            }
        }
        "iset" => {
            let (Some(V::I(i)), E::Tup(kv)) = (imm_of(&args[1]), &args[2]) else { return };
            let Some(k) = kv.first().and_then(imm_of) else { return };
            if i >= 0 && (i as usize) < before.len() {
                expected[i as usize] = k.canon();
            }
        }
        "get" | "contains_key" => {
            let Some(k) = imm_of(&args[1]) else { return };
            finding = attr(&k);
            let pos = find(&k);
            if let Some(r) = result {
                if name == "contains_key" {
                    if r != &V::Bool(pos.is_some()) {
                        fail("key_identity", format!("contains_key {} = {} but the key {}", k.canon(), r.canon(), if pos.is_some() { "is present" } else { "is absent" }), finding);
                    }
                } else {
                    let dflt = args.get(2).and_then(imm_of).unwrap_or(V::Null);
                    let want = pos.map(|i| before[i].1.clone()).unwrap_or(dflt);
                    if want.is_container_free() && r.is_container_free() && &want != r {
                        fail("key_identity", format!("get {} returned {} expected {}", k.canon(), r.canon(), want.canon()), finding);
                    } else if want.is_container_free() != r.is_container_free() {
                        fail("key_identity", format!("get {} returned {} expected {}", k.canon(), r.canon(), want.canon()), finding);
                    }
                }
            }
        }
        _ => {}
    }
    let got = keys_text(after);
    if got != expected {
        fail(
            "map_order_inv",
            format!("{}: keys before {:?}, after {:?}, expected {:?}", name, keys_text(before), got, expected),
            finding,
        );
    }
}
