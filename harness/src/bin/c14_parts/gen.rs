// ---- history generator: picks the next statement from the model's current state ---------------------

#[derive(Clone, Debug)]
struct Path {
    e: E,
    v: V,
}

fn imm(v: V) -> E {
    E::Imm(v)
}

/// all access paths (depth ≤ 2 below a root) to values of the state
fn paths(d: &Dump) -> Vec<Path> {
    let mut out = vec![];
    let mut roots = vec![];
    for (i, v) in d.vars.iter().enumerate() {
        roots.push(Path { e: E::Var(i), v: v.clone() });
    }
    for (i, v) in d.caps.iter().enumerate() {
        roots.push(Path { e: E::Cap(i), v: v.clone() });
    }
    let mut frontier = roots;
    for depth in 0..3 {
        let mut next = vec![];
        for p in &frontier {
            out.push(p.clone());
            if depth == 2 {
                continue;
            }
            match &p.v {
                V::Ref(id) => match d.objs.get(id) {
                    Some(Obj::List(xs)) => {
                        for (k, x) in xs.iter().enumerate().take(6) {
                            if matches!(x, V::Ref(_) | V::T(_)) {
                                next.push(Path { e: op("index", vec![p.e.clone(), imm(V::I(k as i64))]), v: x.clone() });
                            }
                        }
                    }
                    Some(Obj::Map(es)) => {
                        for (k, x) in es.iter().take(6) {
                            if matches!(x, V::Ref(_) | V::T(_)) {
                                next.push(Path { e: op("get", vec![p.e.clone(), imm(k.clone())]), v: x.clone() });
                            }
                        }
                    }
                    None => {}
                },
                V::T(xs) => {
                    for (k, x) in xs.iter().enumerate().take(4) {
                        if matches!(x, V::Ref(_) | V::T(_)) {
                            next.push(Path { e: op("index", vec![p.e.clone(), imm(V::I(k as i64))]), v: x.clone() });
                        }
                    }
                }
                _ => {}
            }
        }
        frontier = next;
    }
    out
}

fn scalar(rng: &mut Rng) -> V {
    match rng.below(16) {
        0 => V::Null,
        1 => V::Bool(true),
        2 => V::Bool(false),
        3..=7 => V::I(rng.range(0, 6)),
        8 => V::I(rng.range(-3, 40)),
        9 => fbits(*rng.pick(&[0.5, 1.0, 2.5, -1.5, 2.0, 1e10])),
        10..=12 => vs(*rng.pick(&["a", "b", "c", "d", "e", "ab", ""])),
        13 => vs(*rng.pick(&["é", "zz", "A"])),
        14 => V::R(Some(rng.range(0, 2)), Some((rng.range(1, 4), rng.chance(1, 3)))),
        _ => V::T(vec![V::I(rng.range(0, 3)), vs(*rng.pick(&["a", "b"]))]),
    }
}

/// keys: container-free; integral floats (`1.0`, `-0.0` …) are included again since F-C14-1 is fixed
/// (they must address the entries of the equal integers)
fn key(rng: &mut Rng) -> V {
    match rng.below(16) {
        14 => fbits(*rng.pick(&[0.0, -0.0, 1.0, 2.0, 3.0, 4.0])),
        15 => V::T(vec![fbits(*rng.pick(&[0.0, 1.0, 2.0])), vs(*rng.pick(&["a", "b"]))]),
        0..=4 => vs(*rng.pick(&["a", "b", "c", "d", "e", "f"])),
        5..=8 => V::I(rng.range(0, 5)),
        9 => fbits(*rng.pick(&[0.5, 2.5, -1.5])),
        10 => rng.pick(&[V::Null, V::Bool(true), V::Bool(false)]).clone(),
        11 => V::T(vec![V::I(rng.range(0, 2)), vs(*rng.pick(&["a", "b"]))]),
        12 => V::R(Some(rng.range(0, 1)), Some((rng.range(2, 3), false))),
        _ => V::T(vec![V::I(rng.range(0, 2))]),
    }
}

fn is_num(v: &V) -> bool {
    matches!(v, V::I(_)) || matches!(v, V::F(b) if !f64::from_bits(*b).is_nan())
}
fn is_str(v: &V) -> bool {
    matches!(v, V::S(_))
}
fn sortable(xs: &[V]) -> bool {
    xs.len() >= 2 && (xs.iter().all(is_num) || xs.iter().all(is_str))
}

fn pick_opt<'b, T>(rng: &mut Rng, xs: &'b [T]) -> Option<&'b T> {
    if xs.is_empty() { None } else { Some(&xs[rng.below(xs.len())]) }
}

struct Gen<'a> {
    rng: &'a mut Rng,
}

impl<'a> Gen<'a> {
    /// a value expression and the set of existing objects it reaches
    fn value(&mut self, d: &Dump, ps: &[Path], depth: usize) -> (E, BTreeSet<usize>) {
        let rng = &mut *self.rng;
        let conts: Vec<&Path> = ps.iter().filter(|p| matches!(p.v, V::Ref(_) | V::T(_))).collect();
        let c = rng.below(20);
        if c < 9 || depth >= 2 {
            return (imm(scalar(rng)), BTreeSet::new());
        }
        if c < 13 && !conts.is_empty() {
            let p = *rng.pick(&conts);
            let e = if rng.chance(1, 6) { E::Arg(Box::new(p.e.clone())) } else { p.e.clone() };
            return (e, d.reach(&p.v));
        }
        let n = rng.below(4);
        let mut es = vec![];
        let mut reach = BTreeSet::new();
        for _ in 0..n {
            let (e, r) = self.value(d, ps, depth + 1);
            es.push(e);
            reach.extend(r);
        }
        let rng = &mut *self.rng;
        match c {
            13..=15 => (E::Lst(es), reach),
            16..=17 => (E::Tup(es), reach),
            _ => {
                let names = ["a", "b", "c", "d"];
                let mut used = vec![];
                let mut ents = vec![];
                for e in es {
                    let k = *rng.pick(&names);
                    if !used.contains(&k) {
                        used.push(k);
                        ents.push((imm(vs(k)), e));
                    }
                }
                (E::Mp(ents), reach)
            }
        }
    }

    fn target(&mut self, p: &Path) -> E {
        if self.rng.chance(1, 5) && !matches!(p.e, E::Cap(_)) {
            E::Arg(Box::new(p.e.clone()))
        } else {
            p.e.clone()
        }
    }

    fn index(&mut self, len: usize) -> V {
        let rng = &mut *self.rng;
        if rng.chance(1, 12) {
            return rng.pick(&[V::I(len as i64), V::I(-1), V::I(len as i64 + 3), fbits(-0.5), fbits(-1.5)]).clone();
        }
        if len == 0 {
            return V::I(0);
        }
        let i = rng.below(len) as i64;
        if rng.chance(1, 15) { fbits(i as f64 + 0.5) } else { V::I(i) }
    }

    fn range(&mut self, len: usize) -> V {
        let rng = &mut *self.rng;
        let a = rng.range(-1, len as i64 + 1);
        let b = rng.range(-1, len as i64 + 2);
        match rng.below(6) {
            0 => V::R(Some(a), None),
            1 => V::R(None, Some((b, false))),
            2 => V::R(None, None),
            3 => V::R(Some(a), Some((b, true))),
            _ => V::R(Some(a), Some((b, false))),
        }
    }

    fn map_key(&mut self, es: &[(V, V)]) -> V {
        if !es.is_empty() && self.rng.chance(1, 2) {
            es[self.rng.below(es.len())].0.clone()
        } else {
            key(self.rng)
        }
    }

    /// next statement for the state `d` (the model's dump), or None if the draw was not applicable
    fn stmt(&mut self, d: &Dump) -> Option<Stmt> {
        let ps = paths(d);
        let conts: Vec<Path> = ps.iter().filter(|p| matches!(p.v, V::Ref(_) | V::T(_))).cloned().collect();
        let slot = self.rng.below(NV);
        let kind = self.rng.below(100);
        if conts.is_empty() || kind < 10 {
            // create
            let (e, _) = self.value(d, &ps, 0);
            let e = match e {
                _ if self.rng.chance(1, 7) => {
                    // a list of (key, tag) pairs: sort-by-key and stability are observable
                    let n = 2 + self.rng.below(5);
                    let strs = self.rng.chance(1, 3);
                    E::Lst((0..n)
                        .map(|i| {
                            let k = if strs { vs(*self.rng.pick(&["a", "b", "c"])) } else if self.rng.chance(1, 3) { fbits(*self.rng.pick(&[0.0, 1.0, 2.0, 1.5])) } else { V::I(self.rng.range(0, 3)) };
                            imm(V::T(vec![k, V::I(i as i64)]))
                        })
                        .collect())
                }
                _ if self.rng.chance(1, 8) => {
                    // a map built by inserts with number keys (literals only take string keys)
                    E::Mp(vec![])
                }
                E::Imm(_) if self.rng.chance(3, 4) => {
                    let n = self.rng.below(5);
                    E::Lst((0..n).map(|_| imm(scalar(self.rng))).collect())
                }
                e => e,
            };
            return Some(Stmt::Let(slot, e));
        }
        let p = conts[self.rng.below(conts.len())].clone();
        if kind < 18 {
            // alias through a second name
            return Some(Stmt::Let(slot, self.target(&p)));
        }
        if kind < 24 {
            let n = self.rng.below(NC);
            return Some(Stmt::Clo(n, p.e.clone()));
        }
        if kind < 30 {
            let name = if self.rng.chance(1, 2) { "copy" } else { "deep_copy" };
            return Some(Stmt::Let(slot, op(name, vec![self.target(&p)])));
        }
        let t = self.target(&p);
        match &p.v {
            V::Ref(id) => match d.objs.get(id)?.clone() {
                Obj::List(xs) => self.list_stmt(d, &ps, &conts, *id, &xs, t, slot).map(|s| self.hostify(s, false)),
                Obj::Map(es) => {
                    if self.rng.chance(1, 14) {
                        return self.host_map_stmt(d, &es, t, slot);
                    }
                    self.map_stmt(d, &ps, &conts, *id, &es, t, slot).map(|s| self.hostify(s, true))
                }
            },
            V::T(xs) => self.tuple_stmt(d, &conts, xs, t, slot),
            _ => None,
        }
    }

    #[allow(clippy::too_many_arguments)]
    fn list_stmt(&mut self, d: &Dump, ps: &[Path], conts: &[Path], id: usize, xs: &[V], t: E, slot: usize) -> Option<Stmt> {
        let len = xs.len();
        let mut c = self.rng.below(40);
        if len >= 2 && xs.iter().all(|x| matches!(x, V::T(e) if !e.is_empty())) && self.rng.chance(1, 4) {
            c = 22;
        }
        // a value that may be stored into this list without creating a cycle
        let stored = |g: &mut Gen| -> E {
            for _ in 0..4 {
                let (e, r) = g.value(d, ps, 1);
                if !r.contains(&id) {
                    return e;
                }
            }
            imm(scalar(g.rng))
        };
        let other_lists: Vec<&Path> = conts
            .iter()
            .filter(|q| matches!(&q.v, V::Ref(o) if *o != id && matches!(d.objs.get(o), Some(Obj::List(_)))))
            .collect();
        Some(match c {
            0..=5 => Stmt::Do(op("push", vec![t, stored(self)])),
            6..=7 => Stmt::Do(op("pop", vec![t])),
            8..=9 => {
                let i = if self.rng.chance(1, 10) { self.index(len) } else { V::I(self.rng.range(0, len as i64)) };
                Stmt::Do(op("insert", vec![t, imm(i), stored(self)]))
            }
            10..=11 => Stmt::Do(op("remove", vec![t, imm(self.index(len))])),
            12..=13 => {
                if self.rng.chance(1, 8) {
                    // `l.extend l` doubles the list (fix 515abf4)
                    return Some(Stmt::Do(op("extend", vec![t.clone(), t])));
                }
                if !other_lists.is_empty() && self.rng.chance(2, 3) {
                    let q = *self.rng.pick(&other_lists);
                    // the source's elements are copied into the target
                    let V::Ref(o) = &q.v else { return None };
                    let Some(Obj::List(ys)) = d.objs.get(o) else { return None };
                    if ys.iter().any(|y| d.reach(y).contains(&id)) {
                        return None;
                    }
                    Stmt::Do(op("extend", vec![t, q.e.clone()]))
                } else {
                    let n = self.rng.below(3);
                    Stmt::Do(op("extend", vec![t, E::Tup((0..n).map(|_| stored(self)).collect())]))
                }
            }
            14 => match self.rng.below(3) {
                0 => Stmt::Do(op("clear", vec![t])),
                // a predicate / an iterator adaptor that raises for anything but numbers
                1 => Stmt::Do(op("retainfn", vec![t])),
                _ => {
                    let src = if !other_lists.is_empty() && self.rng.chance(1, 2) {
                        (*self.rng.pick(&other_lists)).e.clone()
                    } else if self.rng.chance(1, 4) {
                        t.clone()
                    } else {
                        let n = self.rng.below(4);
                        E::Tup((0..n).map(|_| imm(if self.rng.chance(3, 4) { V::I(self.rng.range(0, 5)) } else { scalar(self.rng) })).collect())
                    };
                    Stmt::Do(op("extendinc", vec![t, src]))
                }
            },
            15..=16 => {
                let n = if self.rng.chance(1, 12) { -1 } else { self.rng.range(0, len as i64 + 2) };
                if self.rng.chance(1, 2) {
                    Stmt::Do(op("resize", vec![t, imm(V::I(n))]))
                } else {
                    Stmt::Do(op("resize", vec![t, imm(V::I(n)), stored(self)]))
                }
            }
            17 => Stmt::Do(op("fill", vec![t, stored(self)])),
            18..=19 => Stmt::Do(op("reverse", vec![t])),
            20..=21 => {
                // also lists whose elements are not mutually comparable: the sort then fails part-way
                // and the list must still hold a permutation (the model says which)
                if sortable(xs) || (len >= 2 && self.rng.chance(1, 2)) {
                    Stmt::Do(op("sort", vec![t]))
                } else {
                    return None;
                }
            }
            22 => {
                let keys: Option<Vec<V>> = xs.iter().map(|x| match x { V::T(e) if !e.is_empty() => Some(e[0].clone()), _ => None }).collect();
                match keys {
                    Some(k) if sortable(&k) => Stmt::Do(op("sortkey", vec![t])),
                    _ => return None,
                }
            }
            23 => {
                if self.rng.chance(1, 6) {
                    // swapping a list with itself is a no-op (fix 515abf4)
                    return Some(Stmt::Do(op("swap", vec![t.clone(), t])));
                }
                let q = *pick_opt(self.rng, &other_lists)?;
                let V::Ref(o) = &q.v else { return None };
                let Some(Obj::List(ys)) = d.objs.get(o) else { return None };
                if ys.iter().any(|y| d.reach(y).contains(&id)) || xs.iter().any(|x| d.reach(x).contains(o)) {
                    return None;
                }
                Stmt::Do(op("swap", vec![t, q.e.clone()]))
            }
            24 => {
                let v = if !xs.is_empty() && self.rng.chance(2, 3) {
                    let x = &xs[self.rng.below(len)];
                    if x.is_container_free() { x.clone() } else { scalar(self.rng) }
                } else {
                    scalar(self.rng)
                };
                Stmt::Do(op("retain", vec![t, imm(v)]))
            }
            25..=27 => Stmt::Do(op("iset", vec![t, imm(self.index(len)), stored(self)])),
            28 => Stmt::Do(op("iset", vec![t, imm(self.range(len)), stored(self)])),
            29 => Stmt::Do(op(*self.rng.pick(&["first", "last", "size", "is_empty", "to_tuple"]), vec![t])),
            30 => {
                if self.rng.chance(1, 2) {
                    Stmt::Do(op("get", vec![t, imm(self.index(len))]))
                } else {
                    Stmt::Do(op("get", vec![t, imm(self.index(len)), imm(scalar(self.rng))]))
                }
            }
            31 => {
                // deep equality against scalars, existing containers and fresh literals
                let v = if self.rng.chance(1, 2) { imm(scalar(self.rng)) } else { self.value(d, ps, 1).0 };
                Stmt::Do(op("contains", vec![t, v]))
            }
            32..=33 => Stmt::Let(slot, op("index", vec![t, imm(self.index(len))])),
            34..=35 => Stmt::Let(slot, op("index", vec![t, imm(self.range(len))])),
            36 => {
                let q = *pick_opt(self.rng, &other_lists)?;
                Stmt::Let(slot, op("add", vec![t, q.e.clone()]))
            }
            37 => Stmt::Let(slot, op("to_tuple", vec![t])),
            _ => {
                let q = &conts[self.rng.below(conts.len())];
                Stmt::Do(op(*self.rng.pick(&["eq", "ne"]), vec![t, q.e.clone()]))
            }
        })
    }

    #[allow(clippy::too_many_arguments)]
    fn map_stmt(&mut self, d: &Dump, ps: &[Path], conts: &[Path], id: usize, es: &[(V, V)], t: E, slot: usize) -> Option<Stmt> {
        let len = es.len();
        let c = self.rng.below(36);
        let stored = |g: &mut Gen| -> E {
            for _ in 0..4 {
                let (e, r) = g.value(d, ps, 1);
                if !r.contains(&id) {
                    return e;
                }
            }
            imm(scalar(g.rng))
        };
        let other_maps: Vec<&Path> = conts
            .iter()
            .filter(|q| matches!(&q.v, V::Ref(o) if *o != id && matches!(d.objs.get(o), Some(Obj::Map(_)))))
            .collect();
        Some(match c {
            0..=6 => {
                let k = self.map_key(es);
                if self.rng.chance(1, 8) {
                    Stmt::Do(op("insert", vec![t, imm(k)]))
                } else {
                    Stmt::Do(op("insert", vec![t, imm(k), stored(self)]))
                }
            }
            7..=10 => Stmt::Do(op("remove", vec![t, imm(self.map_key(es))])),
            11..=12 => {
                let k = self.map_key(es);
                Stmt::Do(op("update", vec![t, imm(k), stored(self)]))
            }
            13..=14 => {
                if self.rng.chance(1, 6) {
                    return Some(Stmt::Do(op("extend", vec![t.clone(), t])));
                }
                let q = *pick_opt(self.rng, &other_maps)?;
                let V::Ref(o) = &q.v else { return None };
                let Some(Obj::Map(ys)) = d.objs.get(o) else { return None };
                if ys.iter().any(|(_, y)| d.reach(y).contains(&id)) {
                    return None;
                }
                Stmt::Do(op("extend", vec![t, q.e.clone()]))
            }
            15 => match self.rng.below(4) {
                0 => Stmt::Do(op("clear", vec![t])),
                // sort by value: fails part-way when the values are not mutually comparable
                1 | 2 => Stmt::Do(op("sortval", vec![t])),
                _ => {
                    // an updater that raises for anything but a number (the default stays inserted)
                    let k = self.map_key(es);
                    let d = if self.rng.chance(1, 2) { imm(V::I(self.rng.range(0, 5))) } else { imm(scalar(self.rng)) };
                    Stmt::Do(op("updateinc", vec![t, imm(k), d]))
                }
            },
            16..=18 => {
                // map.sort(): on keys of one kind (numbers / strings, null first) ValueKey::partial_cmp
                // is a total preorder; maps with keys of mixed kinds are sorted too — the order is total
                // since fix abae06d (F-C14-5)
                Stmt::Do(op("sort", vec![t]))
            }
            19..=22 => {
                // index assignment: a new key, the key already at that index, or (since F-C14-2 is
                // fixed: a runtime error) a key in use at another index
                let i = self.index(len);
                let k = self.map_key(es);
                Stmt::Do(op("iset", vec![t, imm(i), E::Tup(vec![imm(k), stored(self)])]))
            }
            23..=24 => {
                let k = self.map_key(es);
                if self.rng.chance(1, 2) {
                    Stmt::Do(op("get", vec![t, imm(k)]))
                } else {
                    Stmt::Do(op("get", vec![t, imm(k), imm(scalar(self.rng))]))
                }
            }
            25 => Stmt::Do(op("get_index", vec![t, imm(self.index(len))])),
            26 => Stmt::Do(op("contains_key", vec![t, imm(self.map_key(es))])),
            27..=28 => Stmt::Do(op(*self.rng.pick(&["keys", "values", "size", "is_empty"]), vec![t])),
            29 => Stmt::Let(slot, op("index", vec![t, imm(self.index(len))])),
            30 => {
                let q = *pick_opt(self.rng, &other_maps)?;
                Stmt::Let(slot, op("add", vec![t, q.e.clone()]))
            }
            31 => {
                // unhashable key
                Stmt::Do(op("insert", vec![t, E::Lst(vec![]), imm(V::I(1))]))
            }
            32..=33 => Stmt::Let(slot, op("get", vec![t, imm(self.map_key(es))])),
            _ => {
                let q = &conts[self.rng.below(conts.len())];
                Stmt::Do(op(*self.rng.pick(&["eq", "ne"]), vec![t, q.e.clone()]))
            }
        })
    }

    /// the same operation through the host (Rust) API instead of the script function, sometimes
    fn hostify(&mut self, st: Stmt, is_map: bool) -> Stmt {
        if !self.rng.chance(1, 3) {
            return st;
        }
        match st {
            Stmt::Do(E::Op(n, a)) => {
                let host = match (is_map, n.as_str(), a.len()) {
                    (true, "insert", 3) => Some("h_insert"),
                    (true, "remove", 2) => Some("h_remove"),
                    (true, "get", 2) => Some("h_get"),
                    (true, "clear", 1) => Some("h_clear"),
                    (true, "keys", 1) => Some("h_keys"),
                    (_, "size", 1) => Some("h_len"),
                    (false, "push", 2) => Some("h_push"),
                    _ => None,
                };
                Stmt::Do(E::Op(host.map(|h| h.to_string()).unwrap_or(n), a))
            }
            st => st,
        }
    }

    /// operations that only the host API has: ValueMap::make_data_slice, KMap::remove_path
    fn host_map_stmt(&mut self, d: &Dump, es: &[(V, V)], t: E, slot: usize) -> Option<Stmt> {
        let len = es.len() as i64;
        if self.rng.chance(1, 2) {
            let a = self.rng.range(0, len + 1);
            let b = self.rng.range(a.min(len), len + 2).max(0);
            return Some(Stmt::Let(slot, op("h_slice", vec![t, imm(V::I(a)), imm(V::I(b))])));
        }
        // a path through nested maps along string keys
        let mut path: Vec<u8> = vec![];
        let mut cur: Vec<(V, V)> = es.to_vec();
        for level in 0..3 {
            let strs: Vec<&(V, V)> = cur.iter().filter(|(k, _)| matches!(k, V::S(s) if !s.is_empty() && !s.contains(&b'.'))).collect();
            let nested: Vec<&(V, V)> = strs.iter().filter(|(_, v)| matches!(v, V::Ref(id) if matches!(d.objs.get(id), Some(Obj::Map(_))))).cloned().collect();
            if !nested.is_empty() && level < 2 && self.rng.chance(2, 3) {
                let (k, v) = nested[self.rng.below(nested.len())].clone();
                if let (V::S(s), V::Ref(id)) = (k, v) {
                    path.extend_from_slice(&s);
                    path.push(b'.');
                    if let Some(Obj::Map(inner)) = d.objs.get(&id) {
                        cur = inner.clone();
                    }
                    continue;
                }
            }
            let last: Vec<u8> = if !strs.is_empty() && self.rng.chance(3, 4) {
                match &strs[self.rng.below(strs.len())].0 { V::S(s) => s.clone(), _ => b"a".to_vec() }
            } else {
                self.rng.pick(&["a", "b", "zz"]).as_bytes().to_vec()
            };
            path.extend_from_slice(&last);
            break;
        }
        if path.is_empty() || path.ends_with(b".") {
            path.extend_from_slice(b"a");
        }
        Some(Stmt::Do(op("h_remove_path", vec![t, imm(V::S(path))])))
    }

    fn tuple_stmt(&mut self, _d: &Dump, conts: &[Path], xs: &[V], t: E, slot: usize) -> Option<Stmt> {
        let len = xs.len();
        let c = self.rng.below(15);
        Some(match c {
            // KTuple host helpers: sub-tuples (also of sub-tuples) and the pop_* bound adjustments
            12 => {
                let a = self.rng.range(0, len as i64);
                // now and then an end beyond the tuple's own length: the doc promises None
                let b = if self.rng.chance(1, 6) { len as i64 + 1 + self.rng.range(0, 1) } else { self.rng.range(a, len as i64) };
                Stmt::Let(slot, op("h_subtuple", vec![t, imm(V::I(a)), imm(V::I(b))]))
            }
            13 => Stmt::Let(slot, op("h_pop_front", vec![t])),
            14 => Stmt::Let(slot, op("h_pop_back", vec![t])),
            0 => Stmt::Do(op(*self.rng.pick(&["first", "last", "size", "is_empty"]), vec![t])),
            1 => Stmt::Do(op("get", vec![t, imm(self.index(len))])),
            2 => Stmt::Do(op("contains", vec![t, imm(scalar(self.rng))])),
            3..=4 => Stmt::Let(slot, op("to_list", vec![t])),
            5 => {
                if sortable(xs) {
                    Stmt::Let(slot, op("sort_copy", vec![t]))
                } else {
                    return None;
                }
            }
            6..=7 => Stmt::Let(slot, op("index", vec![t, imm(self.index(len))])),
            8..=9 => Stmt::Let(slot, op("index", vec![t, imm(self.range(len))])),
            10 => {
                let tups: Vec<&Path> = conts.iter().filter(|q| matches!(q.v, V::T(_))).collect();
                let q = *pick_opt(self.rng, &tups)?;
                Stmt::Let(slot, op("add", vec![t, q.e.clone()]))
            }
            _ => {
                let q = &conts[self.rng.below(conts.len())];
                Stmt::Do(op(*self.rng.pick(&["eq", "ne"]), vec![t, q.e.clone()]))
            }
        })
    }
}
