// ---- histories: model ↔ implementation, step by step -------------------------------------------------------

fn initial_dump() -> Dump {
    Dump { status: "ok".into(), vars: vec![V::Null; NV], caps: vec![V::Null; NC], result: None, objs: BTreeMap::new() }
}

fn norm_status(line: &str) -> String {
    // `err:<kind>` → `err` (error kinds are only recorded in the distribution)
    match line.split_once(" ; ") {
        Some((st, rest)) if st.starts_with("err:") => format!("err ; {}", rest),
        _ => line.to_string(),
    }
}

/// generate a history of `len` statements by stepping the model
fn gen_history(cx: &mut Ctx, rng: &mut Rng, len: usize) -> (Vec<Stmt>, Vec<String>) {
    cx.drv.ask(&format!("reset {} {}", NV, NC));
    let mut d = initial_dump();
    let mut stmts = vec![];
    let mut model = vec![];
    let mut tries = 0;
    while stmts.len() < len && tries < len * 20 {
        tries += 1;
        let st = {
            let mut g = Gen { rng };
            g.stmt(&d)
        };
        let Some(st) = st else { continue };
        let resp = cx.drv.ask(&format!("s {}", st.sexp()));
        let Some(nd) = parse_dump(&resp) else {
            cx.k_violation("driver", json!({"request": st.sexp(), "response": resp, "note": "model driver rejected a generated statement"}));
            break;
        };
        let stop = nd.status == "panic" || nd.status == "err:cycle" || nd.status == "err:fuel";
        d = nd;
        stmts.push(st);
        model.push(resp);
        if stop {
            break;
        }
    }
    (stmts, model)
}

/// feed an existing history to the model
fn model_history(cx: &mut Ctx, stmts: &[Stmt]) -> Vec<String> {
    cx.drv.ask(&format!("reset {} {}", NV, NC));
    let mut out = vec![];
    for st in stmts {
        let r = cx.drv.ask(&format!("s {}", st.sexp()));
        let stop = r.starts_with("panic");
        out.push(r);
        if stop {
            break;
        }
    }
    out
}

/// does the step have the shape of F-C14-2 (= F-C06-4): map index assignment whose key is present
/// at another index
fn is_iset_existing_key(prev: &Dump, st: &Stmt) -> bool {
    let E::Op(name, args) = st.expr() else { return false };
    if name != "iset" || args.len() != 3 {
        return false;
    }
    let (Some(t), E::Imm(V::I(i)), E::Tup(kv)) = (eval_path(prev, &args[0]), &args[1], &args[2]) else { return false };
    let (Some(es), Some(E::Imm(k))) = (map_of(prev, &t), kv.first()) else { return false };
    *i >= 0 && (*i as usize) < es.len() && es.iter().enumerate().any(|(j, (kk, _))| j as i64 != *i && key_eq(kk, k))
}

/// run one history on both sides and compare; returns ids of listed findings it reproduced
fn check_history(cx: &mut Ctx, stmts: &[Stmt], model: &[String], origin: &str) -> Vec<String> {
    let mut reproduced = vec![];
    let script = render_script(stmts);
    let (real, outcome) = run_koto(&script, &[]);
    cx.last_real = real.clone();
    let hist: Vec<String> = stmts.iter().map(|s| s.sexp()).collect();
    let key = hist.join(" ");
    cx.rep.case(&key, stmts.len() >= 3);
    cx.rep.bump(&format!("history_len={}", (stmts.len() / 5) * 5));
    cx.rep.bump(&format!("history_origin={}", origin));
    for st in stmts {
        let (kind, e) = match st {
            Stmt::Let(_, e) => ("let", e),
            Stmt::Do(e) => ("do", e),
            Stmt::Clo(_, e) => ("closure", e),
        };
        cx.rep.bump(&format!("stmt={}", kind));
        if let E::Op(n, a) = e {
            cx.rep.bump(&format!("op={}", n));
            match a.first() {
                Some(E::Cap(_)) => cx.rep.bump("target_via=closure_capture"),
                Some(E::Arg(_)) => cx.rep.bump("target_via=function_argument"),
                Some(E::Var(_)) => cx.rep.bump("target_via=variable"),
                Some(E::Op(..)) => cx.rep.bump("target_via=nested_path"),
                _ => cx.rep.bump("target_via=literal"),
            }
        }
    }
    for (i, m) in model.iter().enumerate() {
        let st = m.split(" ; ").next().unwrap_or("?");
        cx.rep.bump(&format!("model_status={}", st));
        if st.starts_with("err") {
            if let Some(E::Op(n, _)) = stmts.get(i).map(|s| s.expr()) {
                cx.rep.bump(&format!("{}_in={}", st, n));
            }
        }
    }
    let detail = |step: usize, what: &str, m: &str, r: &str| {
        json!({"kind": "history", "history": hist, "script": script, "step": step, "statement": hist.get(step),
               "what": what, "model": m, "impl": r, "impl_outcome": format!("{:?}", outcome)})
    };
    // (K) step by step
    let mut prev = initial_dump();
    let mut k_reported = false;
    for (i, m) in model.iter().enumerate() {
        let m_norm = norm_status(m);
        let model_panics = m.starts_with("panic");
        match real.get(i) {
            Some(r) => {
                if model_panics {
                    cx.k_violation("Model.Heap.step", detail(i, "the model predicts a panic, the implementation completed the step", m, r));
                    k_reported = true;
                    break;
                }
                let next = parse_dump(r);
                // (D) on the implementation's dumps
                let mut attributed_step = false;
                if let Some(next) = &next {
                    for f in d_check(&prev, &stmts[i], next) {
                        if f.finding.is_some_and(|id| cx.is_open(id)) {
                            attributed_step = true;
                        }
                        if let Some(id) = f.finding {
                            if cx.is_open(id) && !reproduced.contains(&id.to_string()) {
                                reproduced.push(id.to_string());
                            }
                        }
                        cx.d_or_known(&f.law, f.finding, detail(i, &format!("{}: {}", f.law, f.detail), m, r));
                    }
                }
                if &m_norm != r && attributed_step {
                    // the divergence is the listed finding itself; the rest of the history is not comparable
                    break;
                }
                if &m_norm != r && !k_reported {
                    cx.k_violation("Model.Heap.step", detail(i, "heap dumps differ", &m_norm, r));
                    k_reported = true;
                }
                if let Some(next) = next {
                    prev = next;
                }
            }
            None => {
                // the implementation stopped before this step
                match &outcome {
                    Outcome::Panic(p) if real.len() == i => {
                        let f2 = is_iset_existing_key(&prev, &stmts[i]);
                        if f2 && cx.is_open("F-C14-2") {
                            *cx.known_counts.entry("F-C14-2".into()).or_insert(0) += 1;
                            reproduced.push("F-C14-2".into());
                        } else {
                            cx.d_violation("no-panic", detail(i, &format!("the implementation panicked: {}", p), m, ""));
                        }
                        if !model_panics && !k_reported {
                            cx.k_violation("Model.Heap.step", detail(i, "the implementation panicked, the model does not", m, ""));
                            k_reported = true;
                        }
                    }
                    other => {
                        if !k_reported {
                            cx.k_violation("Model.Heap.step", detail(i, &format!("the script stopped early: {:?}", other), m, ""));
                            k_reported = true;
                        }
                    }
                }
                break;
            }
        }
    }
    if !k_reported && real.len() > model.len() && !model.last().is_some_and(|m| m.starts_with("panic")) {
        cx.k_violation("Model.Heap.step", detail(model.len(), "the implementation ran more steps than the model", "", &real[model.len()]));
    }
    if cx.rep.samples.len() < 7 && stmts.len() >= 8 && cx.rep.evaluations % 211 == 7 {
        let i = stmts.len() - 1;
        cx.rep.sample(json!({"history": hist, "last_step_model": model.get(i), "last_step_impl": real.get(i)}));
    }
    reproduced
}

fn load_history(text: &str) -> Vec<Stmt> {
    text.lines().map(|l| l.trim()).filter(|l| !l.is_empty() && !l.starts_with('#')).filter_map(parse_stmt).collect()
}

fn main() {
    kvh::quiet_panics();
    let args = Args::parse();
    let mut rep = Report::new("C14", &args);
    rep.rule = "cases: (1) operation histories of 5-30 statements (create / alias through a second name, a function argument or a closure capture / mutate / observe / slice / copy / deep_copy), each compared step by step as a full canonical heap dump — distinct = distinct statement sequences, non-trivial = at least 3 statements; (2) all ordered pairs of a 76-value boundary pool for == != < > <= >= and ValueKey eq/hash/cmp, number triples for the float-law hypotheses, key lookups through real 1- and 21-entry maps — non-trivial = the two values differ; (3) copy / deep_copy on heap graphs: every tree with <= 4 nodes (thorough <= 5) over {tuple, list, map, leaf} and random trees of depth >= 3, each as a history that copies the tree and then mutates every list/map node of the original and of the copy; (4) random sort inputs (lists, (key, tag) pairs, tuples, maps) — non-trivial = at least 2 elements".into();
    let open: Vec<String> = rep.known_open().iter().filter_map(|e| e.get("id").and_then(|x| x.as_str()).map(|s| s.to_string())).collect();
    let drv = Driver::spawn(&args.driver);
    let mut cx = Ctx { rep, drv, open, known_counts: Default::default(), last_real: vec![], k_fail: 0, d_fail: 0 };

    if let Some(p) = &args.replay {
        let v: J = serde_json::from_str(&std::fs::read_to_string(p).expect("replay file")).unwrap();
        let d = &v["detail"];
        if let Some(h) = d["history"].as_array() {
            let stmts: Vec<Stmt> = h.iter().filter_map(|x| x.as_str()).filter_map(parse_stmt).collect();
            let model = model_history(&mut cx, &stmts);
            let script = render_script(&stmts);
            let (real, outcome) = run_koto(&script, &[]);
            println!("{}", script);
            for (i, s) in stmts.iter().enumerate() {
                println!("step {} {}\n  model: {}\n  impl : {}", i, s.sexp(), model.get(i).map(|m| norm_status(m)).unwrap_or_default(), real.get(i).cloned().unwrap_or_default());
            }
            println!("impl outcome: {:?}", outcome);
            check_history(&mut cx, &stmts, &model, "replay");
        } else if let Some(r) = d["request"].as_str() {
            println!("request: {}\nmodel  : {}", r, cx.drv.ask(r));
            if d["kind"] == "pair" {
                let (a, b) = (parse_plain(d["a"].as_str().unwrap()), parse_plain(d["b"].as_str().unwrap()));
                println!("impl   : {:?}", observe_pair(&mut KotoVm::default(), &a, &b));
            }
            run_pairs(&mut cx);
        } else {
            run_pairs(&mut cx);
        }
        std::process::exit(cx.rep.finish());
    }

    let mut rng = Rng::new(args.seed);

    // 0. corpus and witnesses of listed findings
    let mut witness_seen: BTreeMap<String, bool> = BTreeMap::new();
    if let Some(dir) = &args.corpus {
        if let Ok(rd) = std::fs::read_dir(dir) {
            let mut ps: Vec<_> = rd.filter_map(|e| e.ok()).map(|e| e.path()).filter(|p| p.extension().is_some_and(|e| e == "hist")).collect();
            ps.sort();
            for p in ps {
                if let Ok(s) = std::fs::read_to_string(&p) {
                    let stmts = load_history(&s);
                    let model = model_history(&mut cx, &stmts);
                    for id in check_history(&mut cx, &stmts, &model, "corpus") {
                        witness_seen.insert(id, true);
                    }
                }
            }
        }
    }
    for e in cx.rep.known_entries() {
        let id = e["id"].as_str().unwrap_or("?").to_string();
        let status_known = e["status"] == "known";
        if let Some(h) = e["witness_history"].as_array() {
            let stmts: Vec<Stmt> = h.iter().filter_map(|x| x.as_str()).filter_map(parse_stmt).collect();
            let model = model_history(&mut cx, &stmts);
            let before = (cx.d_fail, cx.k_fail);
            let ids = check_history(&mut cx, &stmts, &model, "witness");
            let reproduced = ids.contains(&id);
            if status_known && reproduced {
                witness_seen.insert(id.clone(), true);
            } else if status_known {
                cx.rep.note(format!("{}: the recorded witness no longer fails — the entry can be retired", id));
            } else if (cx.d_fail, cx.k_fail) != before {
                cx.rep.note(format!("{}: recorded as fixed but its witness fails again", id));
            }
        }
    }

    // 1. value pools
    run_pairs(&mut cx);

    // 1b. copy / deep_copy on heap graphs: all trees with few nodes, random deeper ones
    let (max_nodes, n_random_trees) = if args.thorough() { (5, 2500) } else { (4, 150) };
    run_trees(&mut cx, &mut rng, max_nodes, n_random_trees);
    deep_limits(&mut cx);
    host_object_deep_copy(&mut cx);

    // 2. sorting
    let n_sorts = if args.thorough() { 6000 } else { 500 };
    run_sorts(&mut cx, &mut rng, n_sorts);

    // 3. generated histories
    let n_hist = if args.thorough() { 12000 } else { 700 };
    for _ in 0..n_hist {
        let len = 5 + rng.below(26);
        let (stmts, model) = gen_history(&mut cx, &mut rng, len);
        if stmts.is_empty() {
            continue;
        }
        check_history(&mut cx, &stmts, &model, "generated");
        if cx.k_fail + cx.d_fail > 40 {
            break;
        }
    }

    // listed findings
    for e in cx.rep.known_open() {
        let id = e["id"].as_str().unwrap_or("?").to_string();
        let n = cx.known_counts.get(&id).copied().unwrap_or(0);
        if witness_seen.get(&id).copied().unwrap_or(false) || n > 0 {
            let what = e["what"].as_str().unwrap_or("").to_string();
            cx.rep.known(&id, &format!("{} ({} checks of this run attributed to it)", what, n));
        }
    }
    let kc = cx.known_counts.clone();
    for (id, n) in kc {
        cx.rep.bump_by(&format!("attributed_to_{}", id), n);
    }
    let (k, d) = (cx.k_fail, cx.d_fail);
    cx.rep.extra.insert("k_disagreements".into(), json!(k));
    cx.rep.extra.insert("d_failures".into(), json!(d));
    cx.rep.extra.insert("driver_requests".into(), json!(cx.drv.requests));
    std::process::exit(cx.rep.finish());
}
