// ---- value pools: equality / ordering / key laws; sorting ---------------------------------------------------

struct Ctx {
    rep: Report,
    drv: Driver,
    open: Vec<String>,
    known_counts: BTreeMap<String, u64>,
    /// the implementation's dump lines of the history checked last
    last_real: Vec<String>,
    k_fail: u64,
    d_fail: u64,
}

impl Ctx {
    fn is_open(&self, id: &str) -> bool {
        self.open.iter().any(|x| x == id)
    }
    fn k_violation(&mut self, entry: &str, detail: J) {
        self.k_fail += 1;
        if self.k_fail <= 6 {
            self.rep.violation("K", &format!("K:C14:{}", entry), detail);
        }
    }
    fn d_violation(&mut self, law: &str, detail: J) {
        self.d_fail += 1;
        if self.d_fail <= 6 {
            self.rep.violation("D", &format!("C14:{}", law), detail);
        }
    }
    /// a (D) failure with an optional attribution to a listed finding
    fn d_or_known(&mut self, law: &str, finding: Option<&str>, detail: J) {
        match finding {
            Some(id) if self.is_open(id) => *self.known_counts.entry(id.to_string()).or_insert(0) += 1,
            _ => self.d_violation(law, detail),
        }
    }
}

fn pool() -> Vec<V> {
    let t = |xs: Vec<V>| V::T(xs);
    let l = |xs: Vec<V>| V::LV(xs);
    let m = |es: Vec<(V, V)>| V::MV(es);
    let p53 = 9007199254740992i64;
    vec![
        V::Null,
        V::Bool(true),
        V::Bool(false),
        V::I(0),
        V::I(1),
        V::I(-1),
        V::I(2),
        V::I(3),
        V::I(255),
        V::I(i64::MAX),
        V::I(i64::MIN),
        V::I(p53),
        V::I(p53 + 1),
        fbits(0.0),
        fbits(-0.0),
        fbits(1.0),
        fbits(1.5),
        fbits(-1.0),
        fbits(2.0),
        fbits(0.5),
        fbits(p53 as f64),
        fbits(1e300),
        fbits(9.223372036854775807e18),
        fbits(f64::INFINITY),
        fbits(f64::NEG_INFINITY),
        fbits(f64::NAN),
        vs(""),
        vs("a"),
        vs("b"),
        vs("ab"),
        vs("aa"),
        vs("A"),
        vs("z"),
        vs("é"),
        vs("1"),
        V::R(Some(0), Some((3, false))),
        V::R(Some(0), Some((2, true))),
        V::R(Some(0), Some((3, true))),
        V::R(Some(1), None),
        V::R(None, Some((3, false))),
        V::R(None, None),
        V::R(Some(0), Some((5_000_000_000, false))),
        t(vec![]),
        t(vec![V::I(1)]),
        t(vec![fbits(1.0)]),
        t(vec![V::I(1), V::I(2)]),
        t(vec![V::I(1), fbits(2.0)]),
        t(vec![vs("a")]),
        t(vec![V::I(1), vs("a")]),
        t(vec![t(vec![V::I(1)])]),
        t(vec![V::Null]),
        t(vec![fbits(f64::NAN)]),
        t(vec![l(vec![V::I(1)])]),
        l(vec![]),
        l(vec![V::I(1)]),
        l(vec![fbits(1.0)]),
        l(vec![fbits(1.5)]),
        l(vec![V::I(1), V::I(2)]),
        l(vec![vs("a")]),
        l(vec![l(vec![V::I(1)])]),
        l(vec![t(vec![V::I(1)])]),
        l(vec![V::I(1), l(vec![V::I(2), V::I(3)])]),
        l(vec![V::Null]),
        m(vec![]),
        m(vec![(vs("a"), V::I(1))]),
        m(vec![(vs("a"), fbits(1.0))]),
        m(vec![(vs("a"), V::I(1)), (vs("b"), V::I(2))]),
        m(vec![(vs("b"), V::I(2)), (vs("a"), V::I(1))]),
        m(vec![(vs("a"), V::I(1)), (vs("b"), V::I(3))]),
        m(vec![(V::I(1), vs("x"))]),
        m(vec![(fbits(1.0), vs("x"))]),
        m(vec![(V::I(1), vs("x")), (V::I(2), vs("y"))]),
        m(vec![(fbits(1.0), vs("x")), (fbits(2.0), vs("y"))]),
        m(vec![(vs("a"), l(vec![V::I(1)]))]),
        m(vec![(vs("a"), m(vec![(vs("b"), V::Null)]))]),
        m(vec![(t(vec![V::I(1), vs("a")]), V::Bool(true))]),
    ]
}

fn bool_res(r: koto_runtime::Result<KValue>) -> String {
    match r {
        Ok(KValue::Bool(true)) => "1".into(),
        Ok(KValue::Bool(false)) => "0".into(),
        Ok(_) => "?".into(),
        Err(_) => "E".into(),
    }
}

fn ord_s(o: Option<std::cmp::Ordering>) -> &'static str {
    match o {
        Some(std::cmp::Ordering::Less) => "lt",
        Some(std::cmp::Ordering::Equal) => "eq",
        Some(std::cmp::Ordering::Greater) => "gt",
        None => "none",
    }
}

fn real_hash(k: &ValueKey) -> u64 {
    use std::hash::{Hash, Hasher};
    let mut h = KotoHasher::default();
    k.hash(&mut h);
    h.finish()
}

#[derive(Clone, Debug, Default)]
struct PairObs {
    eq: String,
    ne: String,
    lt: String,
    gt: String,
    le: String,
    ge: String,
    keq: Option<bool>,
    heq: Option<bool>,
    kcmp: Option<String>,
}

fn observe_pair(vm: &mut KotoVm, a: &V, b: &V) -> Result<PairObs, String> {
    // a failing run_binary_op leaves registers behind (see F-C07-1); use a fresh VM after errors
    let mut dirty = false;
    let r = observe_pair_inner(vm, a, b, &mut dirty);
    if dirty || r.is_err() {
        *vm = KotoVm::default();
    }
    r
}

fn observe_pair_inner(vm: &mut KotoVm, a: &V, b: &V, dirty: &mut bool) -> Result<PairObs, String> {
    kvh::catch(|| {
        let (x, y) = (a.to_kvalue(), b.to_kvalue());
        let mut o = PairObs {
            eq: bool_res(vm.run_binary_op(BinaryOp::Equal, x.clone(), y.clone())),
            ne: bool_res(vm.run_binary_op(BinaryOp::NotEqual, x.clone(), y.clone())),
            lt: bool_res(vm.run_binary_op(BinaryOp::Less, x.clone(), y.clone())),
            gt: bool_res(vm.run_binary_op(BinaryOp::Greater, x.clone(), y.clone())),
            le: bool_res(vm.run_binary_op(BinaryOp::LessOrEqual, x.clone(), y.clone())),
            ge: bool_res(vm.run_binary_op(BinaryOp::GreaterOrEqual, x.clone(), y.clone())),
            ..Default::default()
        };
        if let (Ok(kx), Ok(ky)) = (ValueKey::try_from(x), ValueKey::try_from(y)) {
            o.keq = Some(kx == ky);
            o.heq = Some(real_hash(&kx) == real_hash(&ky));
            o.kcmp = Some(ord_s(kx.partial_cmp(&ky)).to_string());
        }
        *dirty = [&o.eq, &o.ne, &o.lt, &o.gt, &o.le, &o.ge].iter().any(|x| x.as_str() == "E");
        o
    })
}

fn field<'a>(resp: &'a str, name: &str) -> &'a str {
    resp.split(' ').find_map(|f| f.strip_prefix(name).and_then(|r| r.strip_prefix('='))).unwrap_or("?")
}

fn run_pairs(cx: &mut Ctx) {
    let pool = pool();
    let mut vm = KotoVm::default();
    let mut reqs = vec![];
    for a in &pool {
        for b in &pool {
            reqs.push(format!("pair {} {}", a.canon(), b.canon()));
        }
    }
    let resps = cx.drv.batch(&reqs);
    let n = pool.len();
    let mut obs: Vec<PairObs> = Vec::with_capacity(n * n);
    for (i, a) in pool.iter().enumerate() {
        for (j, b) in pool.iter().enumerate() {
            let req = &reqs[i * n + j];
            let resp = &resps[i * n + j];
            cx.rep.case(req, i != j);
            cx.rep.bump("pool=pair");
            let o = match observe_pair(&mut vm, a, b) {
                Ok(o) => o,
                Err(p) => {
                    cx.d_violation("no-panic", json!({"kind": "pair", "a": a.canon(), "b": b.canon(), "panic": p}));
                    obs.push(PairObs::default());
                    continue;
                }
            };
            // (K) model vs implementation
            let mut diffs = vec![];
            for (name, got) in [("eq", &o.eq), ("ne", &o.ne), ("lt", &o.lt), ("gt", &o.gt), ("le", &o.le), ("ge", &o.ge)] {
                if field(resp, name) != got {
                    diffs.push(format!("{}: impl {} model {}", name, got, field(resp, name)));
                }
            }
            if let Some(k) = o.keq {
                if field(resp, "hashable") != "1" {
                    diffs.push("hashable: impl 1 model 0".into());
                }
                if field(resp, "keq") != if k { "1" } else { "0" } {
                    diffs.push(format!("keq: impl {} model {}", k, field(resp, "keq")));
                }
                // equal keys must hash equally; the model's hash stream is only meaningful there
                if k && field(resp, "heq") != if o.heq.unwrap() { "1" } else { "0" } {
                    diffs.push(format!("heq: impl {} model {}", o.heq.unwrap(), field(resp, "heq")));
                }
                if field(resp, "kcmp") != o.kcmp.as_deref().unwrap() {
                    diffs.push(format!("kcmp: impl {} model {}", o.kcmp.as_deref().unwrap(), field(resp, "kcmp")));
                }
            } else if field(resp, "hashable") == "1" && ValueKey::try_from(a.to_kvalue()).is_err() {
                diffs.push("hashable: impl 0 model 1".into());
            }
            if !diffs.is_empty() {
                cx.k_violation(
                    "Model.Equal.veq/vne/vlt/keyEq/hashStream/keyCmp",
                    json!({"kind": "pair", "a": a.canon(), "b": b.canon(), "request": req, "model": resp, "impl": format!("{:?}", o), "differences": diffs}),
                );
            }
            if field(resp, "speq") != field(resp, "eq") {
                cx.rep.bump("pairs_where_hashing_changes_equality(F-C14-1)");
            }
            if cx.rep.samples.len() < 3 && i != j && (i * 7 + j) % 577 == 5 {
                cx.rep.sample(json!({"request": req, "model": resp, "impl": format!("{:?}", o)}));
            }
            obs.push(o);
        }
    }
    // (D) laws on the implementation's results
    for (i, a) in pool.iter().enumerate() {
        let o = &obs[i * n + i];
        if !a.has_nan() && o.eq != "1" {
            cx.d_violation("eq_refl", json!({"kind": "pair", "a": a.canon(), "b": a.canon(), "eq": o.eq}));
        }
        for (j, b) in pool.iter().enumerate() {
            let (o, r) = (&obs[i * n + j], &obs[j * n + i]);
            if o.eq.is_empty() || r.eq.is_empty() {
                continue;
            }
            let det = || json!({"kind": "pair", "a": a.canon(), "b": b.canon(), "a_op_b": format!("{:?}", o), "b_op_a": format!("{:?}", r)});
            if !a.has_nan() && !b.has_nan() && o.eq != r.eq {
                cx.d_violation("eq_symm", det());
            }
            let neg = match o.eq.as_str() { "1" => "0", "0" => "1", x => x };
            if o.ne != neg {
                cx.d_violation("ne_is_not_eq", det());
            }
            // trichotomy where `<` is defined (numbers without NaN, strings)
            if o.lt != "E" && !a.has_nan() && !b.has_nan() {
                let cnt = [o.lt == "1", o.eq == "1", r.lt == "1"].iter().filter(|x| **x).count();
                if cnt != 1 {
                    cx.d_violation("lt_total", det());
                }
                if o.gt != r.lt || (o.le == "1") != (o.lt == "1" || o.eq == "1") || (o.ge == "1") != (o.gt == "1" || o.eq == "1") {
                    cx.d_violation("lt_total(derived operators)", det());
                }
            }
            // equal keys hash equally
            if o.keq == Some(true) && o.heq == Some(false) {
                let num_mix = hash_mismatch(a, b);
                cx.d_or_known(
                    "key_identity(hash)",
                    if num_mix { Some("F-C14-1") } else { None },
                    json!({"kind": "pair", "a": a.canon(), "b": b.canon(), "note": "keys are equal but hash differently"}),
                );
            }
        }
    }
    // `==` is transitive (needed for "two keys address the same entry exactly when they are equal"):
    // the only listed exception is the int/float precision boundary (F-C14-3)
    let mut eq_triples = 0u64;
    for i in 0..n {
        for j in 0..n {
            if obs[i * n + j].eq != "1" || i == j {
                continue;
            }
            for k in 0..n {
                if k == j || obs[j * n + k].eq != "1" {
                    continue;
                }
                eq_triples += 1;
                if obs[i * n + k].eq != "1" && !pool[i].has_nan() && !pool[j].has_nan() && !pool[k].has_nan() {
                    let nums = [&pool[i], &pool[j], &pool[k]];
                    let boundary = nums.iter().all(|v| matches!(v, V::I(_) | V::F(_)))
                        && nums.iter().any(|v| matches!(v, V::I(x) if x.unsigned_abs() > 9007199254740992));
                    cx.d_or_known(
                        "key_identity(== transitive)",
                        if boundary { Some("F-C14-3") } else { None },
                        json!({"kind": "triple", "a": pool[i].canon(), "b": pool[j].canon(), "c": pool[k].canon(),
                               "note": "a == b and b == c but a != c"}),
                    );
                }
            }
        }
    }
    cx.rep.bump_by("pool=eq_triples", eq_triples);

    // transitivity of `<` on comparable triples (impl only)
    let comparable: Vec<usize> = (0..n).filter(|i| obs[i * n + i].lt != "E" && !pool[*i].has_nan()).collect();
    let mut triples = 0u64;
    let mut flaw_reqs = vec![];
    for &i in &comparable {
        for &j in &comparable {
            for &k in &comparable {
                if obs[i * n + j].lt == "1" && obs[j * n + k].lt == "1" {
                    triples += 1;
                    if obs[i * n + k].lt != "1" {
                        cx.d_violation("lt_total(transitive)", json!({"kind": "triple", "a": pool[i].canon(), "b": pool[j].canon(), "c": pool[k].canon()}));
                    }
                }
                if matches!(pool[i], V::I(_) | V::F(_)) && matches!(pool[j], V::I(_) | V::F(_)) && matches!(pool[k], V::I(_) | V::F(_)) {
                    flaw_reqs.push(format!("flaws {} {} {}", pool[i].canon(), pool[j].canon(), pool[k].canon()));
                }
            }
        }
    }
    cx.rep.bump_by("pool=lt_triples", triples);
    // the float-law hypotheses of the theorems hold for the driver's IEEE operations on the pool
    let fr = cx.drv.batch(&flaw_reqs);
    for (q, r) in flaw_reqs.iter().zip(fr.iter()) {
        cx.rep.case(q, true);
        if r != "1" {
            cx.k_violation("Lemmas.C14Equal.FloatLaws", json!({"kind": "flaws", "request": q, "model": r, "note": "a hypothesis of the equality/ordering theorems fails for IEEE doubles on these numbers"}));
        }
    }
    cx.rep.bump_by("pool=float_law_triples", flaw_reqs.len() as u64);

    // key identity through real maps: a 1-entry map and a 21-entry map holding k1, looked up with k2
    let keys: Vec<(usize, &V)> = pool.iter().enumerate().filter(|(i, _)| obs[i * n + i].keq.is_some()).collect();
    for (i, k1) in &keys {
        for (j, k2) in &keys {
            let (kk1, kk2) = (ValueKey::try_from(k1.to_kvalue()).unwrap(), ValueKey::try_from(k2.to_kvalue()).unwrap());
            let small = KMap::new();
            small.data_mut().insert(kk1.clone(), KValue::Bool(true));
            let big = KMap::new();
            for f in 0..20 {
                big.insert(format!("filler{}", f).as_str(), KValue::Null);
            }
            big.data_mut().insert(kk1.clone(), KValue::Bool(true));
            let f1 = small.get(&kk2).is_some();
            let f2 = big.get(&kk2).is_some();
            let o = &obs[i * n + j];
            let key = format!("keyget {} {}", k1.canon(), k2.canon());
            cx.rep.case(&key, i != j);
            cx.rep.bump("pool=key_lookup");
            let (keq, heq) = (o.keq.unwrap(), o.heq.unwrap());
            // (K) the mechanism model: ≤ 1 entry compares directly, larger maps hash first
            let resp = &resps[i * n + j];
            let (m1, m2) = (field(resp, "keq") == "1", field(resp, "keq") == "1" && field(resp, "heq") == "1");
            // equal keys with different hash streams (the F-C14-1 zone): whether the big map finds the
            // entry depends on hashbrown's probing (e.g. 0 / -0.0 land in the same bucket with the same
            // tag), the model does not determine it
            let undetermined = field(resp, "keq") == "1" && field(resp, "heq") != "1";
            if f1 != m1 || (!undetermined && f2 != m2) {
                cx.k_violation(
                    "Model.Equal.getMatch",
                    json!({"kind": "keyget", "stored": k1.canon(), "lookup": k2.canon(), "impl": [f1, f2], "model": [m1, m2]}),
                );
            }
            // (D) key_identity: found ⇔ equal as values (the implementation's own `==`)
            let equal = o.eq == "1";
            if f1 != equal || f2 != equal {
                let _ = heq;
                cx.d_or_known(
                    "key_identity",
                    if keq && hash_mismatch(k1, k2) { Some("F-C14-1") } else { None },
                    json!({"kind": "keyget", "stored": k1.canon(), "lookup": k2.canon(), "found_in_1_entry_map": f1, "found_in_21_entry_map": f2, "equal_as_values": equal}),
                );
            }
        }
    }
}

// ---- sorting ----------------------------------------------------------------------------------------------------

fn sort_elem(rng: &mut Rng, kind: usize) -> V {
    match kind {
        4 => match rng.below(6) {
            0 | 1 => V::I(rng.range(0, 6)),
            2 | 3 => vs(*rng.pick(&["a", "b", "c", "x"])),
            4 => if rng.chance(1, 2) { V::Bool(rng.chance(1, 2)) } else { V::R(Some(rng.range(0, 2)), Some((rng.range(1, 3), rng.chance(1, 2)))) },
            _ => V::T(vec![V::I(rng.range(0, 2))]),
        },
        0 => V::I(rng.range(-3, 6)),
        1 => {
            // mixed int / float with equal values written differently (stability is observable)
            if rng.chance(1, 2) { V::I(rng.range(-2, 4)) } else { fbits(*rng.pick(&[-2.0, -1.0, 0.0, 0.5, 1.0, 2.0, 2.5, 3.0, -0.0])) }
        }
        2 => vs(*rng.pick(&["", "a", "b", "ab", "aa", "B", "é", "z", "a"])),
        // NaN included: `<` on KNumber goes through `Ord`, which orders NaN last, so the comparator
        // stays a total preorder
        _ => fbits(*rng.pick(&[1e300, -1e300, 0.0, -0.0, 1.5, f64::INFINITY, f64::NEG_INFINITY, 1.0, f64::NAN])),
    }
}

fn impl_lt(vm: &mut KotoVm, a: &V, b: &V) -> bool {
    match vm.run_binary_op(BinaryOp::Less, a.to_kvalue(), b.to_kvalue()) {
        Ok(KValue::Bool(b)) => b,
        _ => {
            *vm = KotoVm::default();
            false
        }
    }
}

/// ordered, permutation, stable — judged with the implementation's own `<`
fn sorted_stable_perm(vm: &mut KotoVm, input: &[V], output: &[V], key: &dyn Fn(&V) -> V) -> Option<String> {
    if input.len() != output.len() {
        return Some("length changed".into());
    }
    let mut a: Vec<String> = input.iter().map(|x| x.canon()).collect();
    let mut b: Vec<String> = output.iter().map(|x| x.canon()).collect();
    a.sort();
    b.sort();
    if a != b {
        return Some("not a permutation".into());
    }
    for w in output.windows(2) {
        if impl_lt(vm, &key(&w[1]), &key(&w[0])) {
            return Some(format!("not ordered: {} before {}", w[0].canon(), w[1].canon()));
        }
    }
    // stability: elements of one equivalence class keep their input order
    for x in input {
        let class = |vm: &mut KotoVm, xs: &[V]| -> Vec<String> {
            xs.iter().filter(|y| !impl_lt(vm, &key(x), &key(y)) && !impl_lt(vm, &key(y), &key(x))).map(|y| y.canon()).collect()
        };
        if class(vm, input) != class(vm, output) {
            return Some(format!("not stable around {}", x.canon()));
        }
    }
    None
}

fn run_sorts(cx: &mut Ctx, rng: &mut Rng, count: usize) {
    let mut vm = KotoVm::default();
    for it in 0..count {
        let mut kind = rng.below(4);
        let len = if rng.chance(1, 8) { rng.below(40) } else { rng.below(9) };
        let mode = rng.below(4); // 0 list.sort, 1 sort by key on (key, tag), 2 tuple.sort_copy, 3 map.sort
        // map.sort() with keys of mixed kinds (regression for F-C14-5, fixed): numbers, strings, bools, tuples, ranges
        let mixed = mode == 3 && rng.chance(1, 3);
        if mixed {
            kind = 4;
        }
        let elems: Vec<V> = (0..len).map(|_| sort_elem(rng, kind)).collect();
        let (input, req, script): (V, String, &str) = match mode {
            0 => (V::LV(elems.clone()), format!("sortvals {}", V::LV(elems.clone()).canon()), "input.sort()\nkv_out input\n"),
            2 => (V::T(elems.clone()), format!("sortvals {}", V::LV(elems.clone()).canon()), "kv_out input.sort_copy().to_list()\n"),
            1 => {
                let pairs: Vec<V> = elems.iter().enumerate().map(|(i, k)| V::T(vec![k.clone(), V::I(i as i64)])).collect();
                (V::LV(pairs.clone()), format!("sortpairs {}", V::LV(pairs).canon()), "input.sort(|x| x[0])\nkv_out input\n")
            }
            _ => {
                let mut es: Vec<(V, V)> = vec![];
                for (i, k) in elems.iter().enumerate() {
                    // keys of one map are pairwise different values
                    if !es.iter().any(|(kk, _)| key_eq(kk, k)) {
                        es.push((k.clone(), V::I(i as i64)));
                    }
                }
                if rng.chance(1, 3) {
                    es.insert(rng.below(es.len() + 1), (V::Null, V::I(-1)));
                }
                (V::MV(es.clone()), format!("mapsort {}", V::MV(es).canon()), "input.sort()\nkv_out input\n")
            }
        };
        cx.rep.case(&req, len >= 2);
        cx.rep.bump(&format!("sort_mode={}", ["list.sort", "list.sort(key)", "tuple.sort_copy", "map.sort"][mode]));
        cx.rep.bump(&format!("sort_len={}", if len >= 10 { "10+".to_string() } else { len.to_string() }));
        let model = cx.drv.ask(&req);
        let (lines, outcome) = run_koto(script, &[("input", input.to_kvalue())]);
        let got = lines.first().cloned().unwrap_or_default();
        if outcome != Outcome::Finished || lines.len() != 1 {
            cx.d_violation("sort_sorted_perm_stable", json!({"kind": "sort", "request": req, "outcome": format!("{:?}", outcome)}));
            continue;
        }
        if got != model {
            cx.k_violation("Model.Sort.sortBy", json!({"kind": "sort", "request": req, "script": script, "impl": got, "model": model}));
        }
        if it % 97 == 3 {
            cx.rep.sample(json!({"request": req, "model": model, "impl": got}));
        }
        // (D)
        let out = parse_plain(&got);
        let bad = match (&input, &out, mode) {
            (V::LV(i), V::LV(o), 0) | (V::T(i), V::LV(o), 2) => sorted_stable_perm(&mut vm, i, o, &|x| x.clone()),
            (V::LV(i), V::LV(o), 1) => sorted_stable_perm(&mut vm, i, o, &|x| match x { V::T(e) => e[0].clone(), v => v.clone() }),
            (V::MV(i), V::MV(o), _) => {
                let iv: Vec<V> = i.iter().map(|(k, v)| V::T(vec![k.clone(), v.clone()])).collect();
                let ov: Vec<V> = o.iter().map(|(k, v)| V::T(vec![k.clone(), v.clone()])).collect();
                // null keys sort first; the rest by `<`
                let nn = |xs: &[V]| xs.iter().filter(|x| !matches!(x, V::T(e) if e[0] == V::Null)).cloned().collect::<Vec<_>>();
                let nulls_first = ov.iter().position(|x| matches!(x, V::T(e) if e[0] == V::Null)).map(|p| p == 0).unwrap_or(true);
                if mixed {
                    // permutation + ordered under the documented total order of keys
                    let keys = |xs: &[V]| xs.iter().map(|x| match x { V::T(e) => e[0].clone(), v => v.clone() }).collect::<Vec<_>>();
                    let (ik, ok) = (keys(&iv), keys(&ov));
                    let (mut a, mut b): (Vec<String>, Vec<String>) = (ik.iter().map(|x| x.canon()).collect(), ok.iter().map(|x| x.canon()).collect());
                    a.sort();
                    b.sort();
                    let mut why = if a != b { Some("not a permutation".to_string()) } else { None };
                    for w in ok.windows(2) {
                        if why.is_none() && spec_key_cmp(&w[1], &w[0]) == std::cmp::Ordering::Less {
                            why = Some(format!("not ordered: {} before {}", w[0].canon(), w[1].canon()));
                        }
                    }
                    why
                } else if !nulls_first {
                    Some("null key not first".into())
                } else {
                    sorted_stable_perm(&mut vm, &nn(&iv), &nn(&ov), &|x| match x { V::T(e) => e[0].clone(), v => v.clone() })
                }
            }
            _ => Some("unexpected output shape".into()),
        };
        if let Some(why) = bad {
            cx.d_violation("sort_sorted_perm_stable", json!({"kind": "sort", "request": req, "impl": got, "why": why}));
        }
    }
}
