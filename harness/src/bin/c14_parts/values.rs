// ---- values: one type for pool values (trees) and parsed dumps (with object references) -------

#[derive(Clone, Debug, PartialEq)]
enum V {
    Null,
    Bool(bool),
    I(i64),
    F(u64),
    S(Vec<u8>),
    R(Option<i64>, Option<(i64, bool)>),
    T(Vec<V>),
    /// reference to object `id` of a dump
    Ref(usize),
    /// plain list / map trees (pools)
    LV(Vec<V>),
    MV(Vec<(V, V)>),
}

#[derive(Clone, Debug, PartialEq)]
enum Obj {
    List(Vec<V>),
    Map(Vec<(V, V)>),
}

fn fbits(f: f64) -> V {
    V::F(f.to_bits())
}
fn vs(s: &str) -> V {
    V::S(s.as_bytes().to_vec())
}

impl V {
    /// canonical text (the grammar of `kvh::canon::value` / `ValueIO.valStr`)
    fn canon(&self) -> String {
        match self {
            V::Null => "null".into(),
            V::Bool(b) => if *b { "b1".into() } else { "b0".into() },
            V::I(i) => format!("i{}", i),
            V::F(b) => kvh::canon::float(f64::from_bits(*b)),
            V::S(s) => format!("s{}", kvh::hex(s)),
            V::R(a, b) => {
                let sa = a.map(|x| x.to_string()).unwrap_or("_".into());
                let sb = match b {
                    Some((x, incl)) => format!("{} {}", x, if *incl { 1 } else { 0 }),
                    None => "_ 0".into(),
                };
                format!("(r {} {})", sa, sb)
            }
            V::T(xs) => format!("(t{})", xs.iter().map(|x| format!(" {}", x.canon())).collect::<String>()),
            V::LV(xs) => format!("(l{})", xs.iter().map(|x| format!(" {}", x.canon())).collect::<String>()),
            V::MV(es) => format!(
                "(m{})",
                es.iter().map(|(k, v)| format!(" ({} {})", k.canon(), v.canon())).collect::<String>()
            ),
            V::Ref(k) => format!("#{}", k),
        }
    }

    fn is_container_free(&self) -> bool {
        match self {
            V::Ref(_) | V::LV(_) | V::MV(_) => false,
            V::T(xs) => xs.iter().all(|x| x.is_container_free()),
            _ => true,
        }
    }

    fn has_nan(&self) -> bool {
        match self {
            V::F(b) => f64::from_bits(*b).is_nan(),
            V::T(xs) | V::LV(xs) => xs.iter().any(|x| x.has_nan()),
            V::MV(es) => es.iter().any(|(k, v)| k.has_nan() || v.has_nan()),
            _ => false,
        }
    }

    fn to_kvalue(&self) -> KValue {
        match self {
            V::Null => KValue::Null,
            V::Bool(b) => KValue::Bool(*b),
            V::I(i) => KValue::Number(KNumber::I64(*i)),
            V::F(b) => KValue::Number(KNumber::F64(f64::from_bits(*b))),
            V::S(s) => KValue::Str(String::from_utf8(s.clone()).unwrap().as_str().into()),
            V::R(a, b) => KValue::Range(KRange::new(*a, *b)),
            V::T(xs) => KValue::Tuple(xs.iter().map(|x| x.to_kvalue()).collect::<Vec<_>>().into()),
            V::LV(xs) => KValue::List(KList::from_slice(&xs.iter().map(|x| x.to_kvalue()).collect::<Vec<_>>())),
            V::MV(es) => {
                let m = KMap::new();
                for (k, v) in es {
                    m.data_mut().insert(ValueKey::try_from(k.to_kvalue()).expect("hashable key"), v.to_kvalue());
                }
                KValue::Map(m)
            }
            V::Ref(_) => panic!("reference outside a dump"),
        }
    }

    /// Koto source text for a container-free value (used inside scripts)
    fn source(&self) -> String {
        match self {
            V::Null => "null".into(),
            V::Bool(b) => b.to_string(),
            V::I(i) => if *i < 0 { format!("({})", i) } else { i.to_string() },
            V::F(b) => {
                let f = f64::from_bits(*b);
                let s = format!("{:?}", f);
                if f.is_sign_negative() { format!("({})", s) } else { s }
            }
            V::S(s) => {
                let mut o = String::from("'");
                for c in String::from_utf8_lossy(s).chars() {
                    match c {
                        '\'' => o.push_str("\\'"),
                        '\\' => o.push_str("\\\\"),
                        '\n' => o.push_str("\\n"),
                        '{' => o.push_str("\\{"),
                        c => o.push(c),
                    }
                }
                o.push('\'');
                o
            }
            V::R(a, b) => {
                let n = |x: i64| if x < 0 { format!("({})", x) } else { x.to_string() };
                let sa = a.map(n).unwrap_or_default();
                let sb = match b {
                    Some((x, true)) => format!("={}", n(*x)),
                    Some((x, false)) => n(*x),
                    None => String::new(),
                };
                format!("({}..{})", sa, sb)
            }
            V::T(xs) => match xs.len() {
                0 => "[].to_tuple()".into(),
                1 => format!("({},)", xs[0].source()),
                _ => format!("({})", xs.iter().map(|x| x.source()).collect::<Vec<_>>().join(", ")),
            },
            V::LV(xs) => format!("[{}]", xs.iter().map(|x| x.source()).collect::<Vec<_>>().join(", ")),
            V::MV(_) | V::Ref(_) => panic!("no source form"),
        }
    }
}

// ---- dumps ------------------------------------------------------------------------------------

#[derive(Clone, Debug, Default)]
struct Dump {
    status: String,
    vars: Vec<V>,
    caps: Vec<V>,
    result: Option<V>,
    objs: BTreeMap<usize, Obj>,
}

struct Toks<'a> {
    t: Vec<&'a str>,
    i: usize,
}

fn tokenize(s: &str) -> Vec<&str> {
    let mut out = vec![];
    let b = s.as_bytes();
    let mut i = 0;
    while i < b.len() {
        match b[i] {
            b' ' => i += 1,
            b'(' | b')' => {
                out.push(&s[i..i + 1]);
                i += 1;
            }
            _ => {
                let st = i;
                while i < b.len() && !matches!(b[i], b' ' | b'(' | b')') {
                    i += 1;
                }
                out.push(&s[st..i]);
            }
        }
    }
    out
}

fn parse_opt_i64(s: &str) -> Option<i64> {
    if s == "_" { None } else { Some(s.parse().expect("range bound")) }
}

/// parse one value of a dump; objects are entered into `objs` at their first (defining) visit
fn parse_v(tk: &mut Toks, objs: &mut BTreeMap<usize, Obj>) -> V {
    let t = tk.t[tk.i];
    tk.i += 1;
    if t == "(" {
        let head = tk.t[tk.i];
        tk.i += 1;
        let v = if head == "t" || head == "l" {
            let mut xs = vec![];
            while tk.t[tk.i] != ")" {
                xs.push(parse_v(tk, objs));
            }
            if head == "t" { V::T(xs) } else { V::LV(xs) }
        } else if head == "m" {
            let mut es = vec![];
            while tk.t[tk.i] != ")" {
                assert_eq!(tk.t[tk.i], "(");
                tk.i += 1;
                let k = parse_v(tk, objs);
                let v = parse_v(tk, objs);
                assert_eq!(tk.t[tk.i], ")");
                tk.i += 1;
                es.push((k, v));
            }
            V::MV(es)
        } else if head == "r" {
            let a = parse_opt_i64(tk.t[tk.i]);
            let b = parse_opt_i64(tk.t[tk.i + 1]);
            let incl = tk.t[tk.i + 2] == "1";
            tk.i += 3;
            V::R(a, b.map(|x| (x, incl)))
        } else if let Some(id) = head.strip_prefix("l#") {
            let id: usize = id.parse().unwrap();
            objs.insert(id, Obj::List(vec![]));
            let mut xs = vec![];
            while tk.t[tk.i] != ")" {
                xs.push(parse_v(tk, objs));
            }
            objs.insert(id, Obj::List(xs));
            V::Ref(id)
        } else if let Some(id) = head.strip_prefix("m#") {
            let id: usize = id.parse().unwrap();
            objs.insert(id, Obj::Map(vec![]));
            let mut es = vec![];
            while tk.t[tk.i] != ")" {
                assert_eq!(tk.t[tk.i], "(");
                tk.i += 1;
                let k = parse_v(tk, objs);
                let v = parse_v(tk, objs);
                assert_eq!(tk.t[tk.i], ")");
                tk.i += 1;
                es.push((k, v));
            }
            objs.insert(id, Obj::Map(es));
            V::Ref(id)
        } else {
            panic!("bad dump head {}", head)
        };
        assert_eq!(tk.t[tk.i], ")");
        tk.i += 1;
        v
    } else if let Some(id) = t.strip_prefix('#') {
        V::Ref(id.parse().unwrap())
    } else if t == "null" {
        V::Null
    } else if t == "b0" {
        V::Bool(false)
    } else if t == "b1" {
        V::Bool(true)
    } else if let Some(x) = t.strip_prefix('i') {
        V::I(x.parse().unwrap())
    } else if let Some(x) = t.strip_prefix('f') {
        V::F(u64::from_str_radix(x, 16).unwrap())
    } else if let Some(x) = t.strip_prefix('s') {
        V::S(kvh::unhex(x).unwrap())
    } else {
        panic!("bad dump token {}", t)
    }
}

fn parse_plain(s: &str) -> V {
    let t = tokenize(s);
    let mut tk = Toks { t, i: 0 };
    let mut objs = BTreeMap::new();
    parse_v(&mut tk, &mut objs)
}

/// `<status> ; <vars> ; <caps> ; <result|->`
fn parse_dump(line: &str) -> Option<Dump> {
    let parts: Vec<&str> = line.split(" ; ").collect();
    if parts.len() != 4 {
        return None;
    }
    let mut d = Dump { status: parts[0].to_string(), ..Default::default() };
    for (i, p) in parts[1..].iter().enumerate() {
        let t = tokenize(p);
        let mut tk = Toks { t, i: 0 };
        if i == 2 {
            if *p != "-" {
                d.result = Some(parse_v(&mut tk, &mut d.objs));
            }
        } else {
            while tk.i < tk.t.len() {
                let v = parse_v(&mut tk, &mut d.objs);
                if i == 0 { d.vars.push(v) } else { d.caps.push(v) }
            }
        }
    }
    Some(d)
}

impl Dump {
    fn reach_into(&self, v: &V, out: &mut BTreeSet<usize>) {
        match v {
            V::Ref(id) => {
                if out.insert(*id) {
                    match self.objs.get(id) {
                        Some(Obj::List(xs)) => xs.iter().for_each(|x| self.reach_into(x, out)),
                        Some(Obj::Map(es)) => es.iter().for_each(|(_, x)| self.reach_into(x, out)),
                        None => {}
                    }
                }
            }
            V::T(xs) => xs.iter().for_each(|x| self.reach_into(x, out)),
            _ => {}
        }
    }
    fn reach(&self, v: &V) -> BTreeSet<usize> {
        let mut s = BTreeSet::new();
        self.reach_into(v, &mut s);
        s
    }
    /// expand references into a plain tree (None on a cycle)
    fn tree(&self, v: &V, depth: usize) -> Option<V> {
        if depth > 60 {
            return None;
        }
        Some(match v {
            V::Ref(id) => match self.objs.get(id)? {
                Obj::List(xs) => V::LV(xs.iter().map(|x| self.tree(x, depth + 1)).collect::<Option<Vec<_>>>()?),
                Obj::Map(es) => V::MV(
                    es.iter()
                        .map(|(k, x)| self.tree(x, depth + 1).map(|t| (k.clone(), t)))
                        .collect::<Option<Vec<_>>>()?,
                ),
            },
            V::T(xs) => V::T(xs.iter().map(|x| self.tree(x, depth + 1)).collect::<Option<Vec<_>>>()?),
            v => v.clone(),
        })
    }
}

// ---- canonical dump of real runtime values --------------------------------------------------------

#[derive(Default)]
struct Seen {
    lists: Vec<(KList, usize)>,
    maps: Vec<(KMap, usize)>,
    n: usize,
}

fn key_text(k: &KValue) -> String {
    kvh::canon::value(k)
}

fn dump_real(v: &KValue, seen: &mut Seen, out: &mut String, depth: usize) {
    if depth > 600 {
        out.push_str("<deep>");
        return;
    }
    match v {
        KValue::List(l) => {
            if let Some((_, k)) = seen.lists.iter().find(|(x, _)| x.is_same_instance(l)) {
                out.push_str(&format!("#{}", k));
                return;
            }
            let k = seen.n;
            seen.n += 1;
            seen.lists.push((l.clone(), k));
            out.push_str(&format!("(l#{}", k));
            let items: Vec<KValue> = l.data().iter().cloned().collect();
            for x in &items {
                out.push(' ');
                dump_real(x, seen, out, depth + 1);
            }
            out.push(')');
        }
        KValue::Map(m) => {
            if let Some((_, k)) = seen.maps.iter().find(|(x, _)| x.is_same_instance(m)) {
                out.push_str(&format!("#{}", k));
                return;
            }
            let k = seen.n;
            seen.n += 1;
            seen.maps.push((m.clone(), k));
            out.push_str(&format!("(m#{}", k));
            let items: Vec<(KValue, KValue)> = m.data().iter().map(|(k, v)| (k.value().clone(), v.clone())).collect();
            for (key, x) in &items {
                out.push_str(" (");
                out.push_str(&key_text(key));
                out.push(' ');
                dump_real(x, seen, out, depth + 1);
                out.push(')');
            }
            out.push(')');
        }
        KValue::Tuple(t) => {
            out.push_str("(t");
            for x in t.iter() {
                out.push(' ');
                dump_real(x, seen, out, depth + 1);
            }
            out.push(')');
        }
        other => out.push_str(&kvh::canon::value(other)),
    }
}

fn dump_real_vals(vals: &[KValue], seen: &mut Seen) -> String {
    let mut parts = vec![];
    for v in vals {
        let mut s = String::new();
        dump_real(v, seen, &mut s, 0);
        parts.push(s);
    }
    parts.join(" ")
}

/// a real value as a plain tree text (no sharing information)
fn real_tree(v: &KValue) -> String {
    kvh::canon::value(v)
}
