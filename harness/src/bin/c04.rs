//! C04 — errors unwind to the right handler; finally always runs.
//!
//! (K)/(D): generated programs of the mini language of `Model/TrySyntax.lean` with planted fault
//! points are rendered to Koto, run on the real runtime in-process, and the marker trace + final
//! result (+ uncaught message) are compared with the guide-level Lean evaluator fed the same AST.
//! The evaluator *is* the formalised guide, so a disagreement on a program inside the envelope is a
//! property violation (shrunk at AST level before the replay is written).
use koto::prelude::*;
use koto::runtime::{KotoFile, KotoRead, KotoWrite, Result as RtResult};
use koto_runtime::PtrMut;
use kvh::{Args, Driver, Report, Rng};
use serde_json::json;


// ------------------------------------------------------------------------------------ real runtime

#[derive(Clone, Debug, Default)]
struct Capture {
    out: PtrMut<String>,
}
impl Capture {
    fn new() -> Self {
        Capture { out: koto_runtime::make_ptr_mut!(String::new()) }
    }
    fn text(&self) -> String {
        self.out.borrow().clone()
    }
}
impl KotoFile for Capture {
    fn id(&self) -> KString {
        "_capture_".into()
    }
}
impl KotoRead for Capture {}
impl KotoWrite for Capture {
    fn write(&self, bytes: &[u8]) -> RtResult<()> {
        let mut o = self.out.borrow_mut();
        if o.len() < OUT_CAP {
            o.push_str(&String::from_utf8_lossy(bytes));
        }
        Ok(())
    }
    fn write_line(&self, s: &str) -> RtResult<()> {
        let mut o = self.out.borrow_mut();
        if o.len() < OUT_CAP {
            o.push_str(s);
            o.push('\n');
        }
        Ok(())
    }
    fn flush(&self) -> RtResult<()> {
        Ok(())
    }
}

/// captured output is cut at this size (runaway programs under a mutation); a run that reaches it
/// is not compared
const OUT_CAP: usize = 4 << 20;

/// stdout, and Ok(Ok(value text)) | Ok(Err(error text)) | Err(panic message)
fn run_real(src: &str) -> (String, Result<Result<String, String>, String>) {
    run_real_at(src, None)
}

/// `script_path`: where the script pretends to live (its imports are resolved next to it)
fn run_real_at(src: &str, script_path: Option<&std::path::Path>) -> (String, Result<Result<String, String>, String>) {
    let so = Capture::new();
    let se = Capture::new();
    let mut koto = Koto::with_settings(
        KotoSettings::default()
            .with_stdout(so.clone())
            .with_stderr(se.clone())
            .with_execution_limit(std::time::Duration::from_secs(3)),
    );
    let r = kvh::catch(|| {
        let args = koto::CompileArgs {
            script: src,
            script_path: script_path.map(|p| p.to_string_lossy().to_string().into()),
            compiler_settings: Default::default(),
        };
        match koto.compile_and_run(args) {
            Ok(v) => Ok(value_text(&v)),
            Err(e) => Err(e.to_string()),
        }
    });
    (so.text(), r)
}

fn value_text(v: &KValue) -> String {
    match v {
        KValue::Null => "Null null".into(),
        KValue::Bool(b) => format!("Bool {}", b),
        KValue::Number(n) => format!("Number {}", n),
        KValue::Str(s) => format!("String {}", s.as_str()),
        KValue::List(l) => {
            let items: Vec<String> = l
                .data()
                .iter()
                .map(|x| match x {
                    KValue::Str(s) => format!("'{}'", s.as_str()),
                    KValue::Null => "null".into(),
                    KValue::Bool(b) => format!("{}", b),
                    KValue::Number(n) => format!("{}", n),
                    _ => "?".into(),
                })
                .collect();
            format!("List [{}]", items.join(", "))
        }
        other => format!("{} ?", other.type_as_string()),
    }
}

fn is_trace_line(l: &str) -> bool {
    if l.starts_with("--- ") {
        return true;
    }
    // "   |", " 12 | src", "   |   ^^^"
    let t = l.trim_start_matches(' ');
    let t = t.trim_start_matches(|c: char| c.is_ascii_digit());
    let t = t.trim_start_matches(' ');
    t.starts_with('|')
}

/// Remove rendered stack traces (`\n--- line:col` + source excerpt) from text. What follows the
/// last caret of an excerpt on the same line is kept (a trace can end inside a displayed container).
fn strip_traces(text: &str) -> String {
    let mut out = String::new();
    let lines: Vec<&str> = text.split('\n').collect();
    let mut i = 0;
    let mut first = true;
    while i < lines.len() {
        let l = lines[i];
        if i > 0 && l.starts_with("--- ") {
            // swallow the trace block
            let mut j = i;
            let mut rest = "";
            while j < lines.len() && is_trace_line(lines[j]) {
                if let Some(p) = lines[j].rfind('^') {
                    let after = &lines[j][p + 1..];
                    if lines[j].trim_start().starts_with('|') {
                        rest = after;
                        if !after.is_empty() {
                            j += 1;
                            break;
                        }
                    }
                }
                j += 1;
            }
            out.push_str(rest);
            i = j;
            continue;
        }
        if !first {
            out.push('\n');
        }
        first = false;
        out.push_str(l);
        i += 1;
    }
    out
}

/// canonical text of a real run: marker lines ` | `-joined, ` || `, result
fn canon_real(stdout: &str, r: &Result<Result<String, String>, String>) -> String {
    // every line a program prints is a marker line; anything else (e.g. a rendered stack trace
    // inside a caught value, finding F-C04-10) is kept as `!line` so that it shows up as a difference
    let junk: Vec<String> = stdout.split('\n').filter(|l| !l.is_empty() && !l.starts_with('#')).map(|l| format!("!{}", l)).collect();
    let lines: Vec<String> = stdout.split('\n').filter(|l| l.starts_with('#')).map(|l| l.to_string()).chain(junk.into_iter().take(3)).collect();
    let markers: Vec<&str> = lines.iter().map(|l| l.as_str()).collect();
    let res = match r {
        Ok(Ok(v)) => format!("ok {}", v),
        Ok(Err(e)) => format!("err {}", strip_traces(e).split('\n').next().unwrap_or("")),
        Err(p) => format!("panic {}", p),
    };
    format!("{} || {}", markers.join(" | "), res)
}

const FUEL: u32 = 20000;

/// Rendering used for generated programs: call results are assigned directly (`v = f()`), the
/// shape of the repaired F-C04-2.
fn default_opts() -> RenderOpts {
    RenderOpts { direct_call_assign: true }
}

fn model_req(mode: &str, p: &Prog) -> String {
    format!("run {} {} {}", mode, FUEL, p.sexp())
}

// ------------------------------------------------------------------------------------ checking

struct Ctx {
    rep: Report,
    drv: Driver,
    fails: u64,
}

#[derive(Clone, Debug, PartialEq)]
enum Verdict {
    Agree,
    Differ,
}

impl Ctx {
    /// Compare one program on both sides. `opts` = rendering options (witness replays only).
    fn compare(&mut self, p: &Prog, opts: &RenderOpts) -> (Verdict, String, String, String) {
        let src = p.render(opts);
        let (so, r) = run_real(&src);
        let real = canon_real(&so, &r);
        let model = self.drv.ask(&model_req("g", p));
        if so.len() >= OUT_CAP && model.len() >= OUT_CAP / 2 {
            // both sides print megabytes (nested loops over growing lists): output was cut, not compared
            self.rep.bump("not_compared:output_larger_than_cap");
            return (Verdict::Agree, src, real, model);
        }
        if real == model {
            return (Verdict::Agree, src, real, model);
        }
        (Verdict::Differ, src, real, model)
    }

    fn differs(&mut self, p: &Prog) -> bool {
        if p.shape_violation().is_some() {
            return false;
        }
        let m = self.drv.ask(&model_req("g", p));
        if m.contains("<outside-envelope") || m.ends_with("oof") || m.contains("bad-request") {
            return false;
        }
        let (v, _, real, _) = self.compare(p, &default_opts());
        v == Verdict::Differ && !real.contains("not found")
    }

    fn shrink(&mut self, p: &Prog) -> Prog {
        let mut cur = p.clone();
        let mut budget = 400;
        let t0 = std::time::Instant::now();
        loop {
            if t0.elapsed().as_secs() > 20 {
                return cur;
            }
            let mut improved = false;
            for cand in cur.shrink_candidates() {
                if budget == 0 {
                    return cur;
                }
                budget -= 1;
                if cand.size() < cur.size() && self.differs(&cand) {
                    cur = cand;
                    improved = true;
                    break;
                }
            }
            if !improved {
                return cur;
            }
        }
    }

    fn check(&mut self, p: &Prog, origin: &str) {
        let key = p.sexp();
        let feats = p.features();
        let nontrivial = feats.faults >= 1 && feats.tries >= 1;
        self.rep.case(&key, nontrivial);
        let (v, src, real, model) = self.compare(p, &default_opts());
        // distribution
        self.rep.bump(&format!("origin={}", origin));
        self.rep.bump(&format!("try_nesting={}", feats.try_depth.min(4)));
        self.rep.bump(&format!("call_depth={}", feats.call_depth.min(5)));
        self.rep.bump(&format!("planted_faults={}", feats.faults.min(6)));
        for k in &feats.kinds {
            self.rep.bump(&format!("has={}", k));
        }
        let catches = model.split(" | ").filter(|m| tag_in(m, 1000, 1999)).count();
        let finals = model.split(" | ").filter(|m| tag_in(m, 2000, 2999)).count();
        self.rep.bump(&format!("catch_blocks_entered={}", catches.min(5)));
        self.rep.bump(&format!("finally_blocks_entered={}", finals.min(5)));
        if model.contains("|| err") {
            self.rep.bump("result=uncaught_error");
        } else {
            self.rep.bump("result=ok");
        }
        if model.contains("<outside-envelope") || model.ends_with("oof") || model == "bad-request" {
            // generator bug: never silently accepted
            self.fails += 1;
            self.rep.violation(
                "K",
                "K:C04:generator-envelope",
                json!({"program": key, "source": src, "model": model, "impl": real,
                       "note": "the generator produced a program outside the modelled envelope (harness defect)"}),
            );
            return;
        }
        if self.rep.samples.len() < 6 && catches >= 1 && self.rep.evaluations % 97 == 3 {
            self.rep.sample(json!({"source": src, "request": key, "impl": real, "model": model}));
        }
        if v == Verdict::Agree
            && self.rep.evaluations % 4 == 0
            && (feats.kinds.contains("typed-catch") || feats.kinds.contains("catch:map-pattern"))
        {
            // catch selection is control flow: the same program compiled with enable_type_checks(false)
            // must behave identically (the mini language has no other type hints)
            let (so2, r2) = run_real_opts(&src, false);
            let real2 = canon_real(&so2, &r2);
            self.rep.bump("rerun_with_type_checks_disabled");
            if real2 != real {
                self.fails += 1;
                self.rep.violation(
                    "D",
                    "C04:catch-selection-depends-on-enable_type_checks",
                    json!({"program": key, "source": src, "impl": real2, "model": model, "impl_with_type_checks": real,
                           "note": "with enable_type_checks(false) the error reaches a different handler / the run differs"}),
                );
            }
        }
        match v {
            Verdict::Agree => {}
            Verdict::Differ => {
                self.fails += 1;
                if self.fails <= 5 {
                    let small = self.shrink(p);
                    let (_, s_src, s_real, s_model) = self.compare(&small, &default_opts());
                    self.rep.violation(
                        "D",
                        "C04:guide-semantics",
                        json!({"program": small.sexp(), "source": s_src, "impl": s_real, "model": s_model,
                               "original_program": key, "original_source": src, "original_impl": real,
                               "original_model": model,
                               "note": "the real runtime and the guide-level evaluator (formalised language guide) disagree on marker trace / result"}),
                    );
                }
            }
        }
    }
}

fn tag_in(marker: &str, lo: u32, hi: u32) -> bool {
    let m = marker.split(" || ").next().unwrap_or("");
    let t = m.trim_start_matches('#');
    let t: String = t.chars().take_while(|c| c.is_ascii_digit()).collect();
    t.parse::<u32>().map(|x| x >= lo && x <= hi).unwrap_or(false)
}

fn main() {
    kvh::quiet_panics();
    let args = Args::parse();
    if let Some(i) = args.extra.iter().position(|x| x == "--probe-at") {
        let dir = std::path::PathBuf::from(&args.extra[i + 1]);
        let src = std::fs::read_to_string(&args.extra[i + 2]).unwrap();
        for part in src.split("\n---\n") {
            println!("=== script:\n{}", part);
            let (out, r) = run_real_at(part, Some(&dir.join("_host.koto")));
            println!("--- stdout:\n{}--- result: {:?}", out, r);
        }
        return;
    }
    if let Some(i) = args.extra.iter().position(|x| x == "--probe") {
        let src = std::fs::read_to_string(&args.extra[i + 1]).unwrap();
        for part in src.split("\n---\n") {
            println!("=== script:\n{}", part);
            let (out, r) = run_real(part);
            println!("--- stdout:\n{}--- result: {:?}", out, r);
        }
        return;
    }
    let mut rep = Report::new("C04", &args);
    rep.rule = "cases: (K/D) programs of the C04 mini language (markers, locals, in-place lists, throw, runtime-error primitives, functions to call depth 5, each/keep/fold/sort callbacks, generators consumed by for, overloaded + < >=, try/typed catch/finally to nesting 3, return/break/continue) generated from the seed with planted fault points and compared with the guide-level evaluator; (K2) programs of the mechanism model's fragment compared with Model/TryMech.lean; (E) iterator error sweep: every base x wrapper x consumer row of the checked table with a planted fault (13 fault kinds, after k = 0..2 steps, try in the same frame / in a caller / none) plus random pipelines 2-3 adaptors deep, oracle: #HIT is followed by the catch marker with the thrown value or the run fails with it; plus corpus and finding witnesses. distinct = distinct program S-expressions; non-trivial = at least one planted fault point and at least one try (every K2 program counts)".into();
    rep.extra.insert(
        "envelope".into(),
        json!({
            "not_generated_shapes": ["F-C04-1: try WITH finally left by return/break/continue/an error escaping a catch block",
                "F-C04-4: error raised inside an open string interpolation",
],
            "attributed_by_cause_rule": [],
            "generated_again_after_fix": ["F-C04-5 (0e9e81b): break/continue out of try bodies (also with a break value), nested loops/tries", "F-C04-2 (08c98b7..c937342): call results assigned directly to existing locals", "F-C04-3 (05bcc99): wrong-arg-count calls inside try bodies", "F-C04-6 (08c98b7): no attribution rule; generator errors must arrive with their thrown value"],
            "k2_family": "shapes of F-C04-1 ARE generated in the K2 family: the mechanism model must predict the real runtime there",
            "other_limits": ["expression statements are rendered `z_ = <expr>` (an unused arithmetic/unary expression is never evaluated by the compiler: F-C01-3, cross-reference)", "no map literals with computed entries on the right-hand side of assignments (partial container left in the target: F-C01-1 family, cross-reference)", "loops never in value position", "strings are atoms (no string operations)", "objects with operators are created in main only", "keep/sort callbacks return Bool/Number by construction", "stack traces appended to messages are stripped before comparison"]
        }),
    );
    let open: Vec<String> =
        rep.known_open().iter().filter_map(|e| e.get("id").and_then(|x| x.as_str()).map(|s| s.to_string())).collect();
    let drv = Driver::spawn(&args.driver);
    let _ = open;
    let mut cx = Ctx { rep, drv, fails: 0 };

    // ---- one-shot modes
    if let Some(i) = args.extra.iter().position(|x| x == "--show") {
        // --show <sexp-file> [direct]: render, run both sides
        let txt = std::fs::read_to_string(&args.extra[i + 1]).unwrap();
        let direct = args.extra.iter().any(|x| x == "direct");
        for line in txt.lines().filter(|l| !l.trim().is_empty() && !l.starts_with(';')) {
            let p = Prog::parse(line).expect("program sexp");
            let opts = RenderOpts { direct_call_assign: direct };
            let (v, src, real, model) = cx.compare(&p, &opts);
            println!("{}\n-- shape: {:?}\n-- verdict {:?}\n-- impl : {}\n-- model: {}\n", src, p.shape_violation(), v, real, model);
        }
        return;
    }
    if let Some(pth) = &args.replay {
        let v: serde_json::Value = serde_json::from_str(&std::fs::read_to_string(pth).expect("replay file")).unwrap();
        if let Some(desc) = v["detail"]["sweep"].as_str() {
            // a case of the iterator error sweep: rebuild it from its description
            let field = |k: &str| -> String {
                desc.split(' ').find_map(|w| w.strip_prefix(&format!("{}=", k))).unwrap_or("").to_string()
            };
            let row = |w: &str| -> Option<usize> { w.rsplit_once('#').and_then(|x| x.1.parse().ok()) };
            let wr = field("wraps");
            let c = SweepCase {
                base: row(&field("base")),
                wraps: wr.trim_matches(|c| c == '[' || c == ']').split(',').filter_map(row).collect(),
                cons: row(&field("cons")).expect("cons row"),
                fault: *FAULTS.iter().find(|f| format!("{:?}", f) == field("fault")).expect("fault kind"),
                k: field("k").parse().unwrap_or(0),
                mode: match field("mode").as_str() {
                    "Same" => TryMode::Same,
                    "Function" => TryMode::Function,
                    _ => TryMode::None,
                },
                benign: field("o").parse().unwrap_or(0),
            };
            let src = c.source();
            let (so, r) = run_real(&src);
            let verdict = sweep_oracle(&c, &so, &r);
            println!("{}\n-- impl : {}\n-- oracle: {:?}", src, canon_real(&so, &r), verdict);
            cx.rep.case(desc, true);
            if let Err(why) = verdict {
                cx.rep.violation("D", "C04:error-propagation-through-iterators", json!({"sweep": desc, "source": src, "impl": canon_real(&so, &r), "why": why}));
            }
            std::process::exit(cx.rep.finish());
        }
        let sx = v["detail"]["program"].as_str().expect("detail.program");
        let p = Prog::parse(sx).expect("program sexp");
        if v["detail"]["mech"].as_bool() == Some(true) {
            cx.check_mech(&p, "replay");
            std::process::exit(cx.rep.finish());
        }
        let (verdict, src, real, model) = cx.compare(&p, &default_opts());
        println!("{}\n-- verdict {:?}\n-- impl : {}\n-- model: {}", src, verdict, real, model);
        cx.check(&p, "replay");
        std::process::exit(cx.rep.finish());
    }

    // ---- 0. corpus (must agree) and witnesses of listed findings
    if let Some(dir) = &args.corpus {
        if let Ok(rd) = std::fs::read_dir(dir) {
            let mut ps: Vec<_> = rd.filter_map(|e| e.ok()).map(|e| e.path()).collect();
            ps.sort();
            for pth in ps {
                if pth.extension().is_some_and(|e| e == "sexp") {
                    let txt = std::fs::read_to_string(&pth).unwrap_or_default();
                    for line in txt.lines().filter(|l| !l.trim().is_empty() && !l.starts_with(';')) {
                        let is_mech = pth.file_name().is_some_and(|n| n.to_string_lossy().starts_with("mech"));
                        match Prog::parse(line) {
                            Some(p) if is_mech => cx.check_mech(&p, "corpus-mech"),
                            Some(p) => cx.check(&p, "corpus"),
                            None => cx.rep.note(format!("corpus line not parsed: {}", pth.display())),
                        }
                    }
                }
            }
        }
    }
    replay_findings(&mut cx);

    // ---- 1. generated programs
    let mut rng = Rng::new(args.seed);
    let n = if args.thorough() { 150000 } else { 8000 };
    let mut rejected: std::collections::BTreeMap<String, u64> = Default::default();
    let mut made = 0;
    while made < n {
        let mut r = rng.fork();
        let p = gen_prog(&mut r);
        if let Some(why) = p.shape_violation() {
            *rejected.entry(why.to_string()).or_insert(0) += 1;
            continue;
        }
        made += 1;
        cx.check(&p, "generated");
        if cx.fails > 20 {
            break;
        }
    }
    // ---- 1b. (E) error propagation through every iterator adaptor / consumer position
    run_sweep(&mut cx, args.seed, args.thorough());

    // ---- 1d. (R) receiver state after a failed mutating library call
    run_recv_family(&mut cx, args.seed, args.thorough());

    // ---- 1e. (L) one adaptor instance through many caught callback errors; (G) catch selection grid
    run_long_lived(&mut cx);
    run_catch_grid(&mut cx);

    // ---- 1c. (I) state after a failed import
    run_import_family(&mut cx);

    // ---- 2. (K2) mechanism model vs the real runtime
    let n_mech = if args.thorough() { 40000 } else { 2500 };
    let mut rng2 = Rng::new(args.seed ^ 0x5eed_c04);
    for _ in 0..n_mech {
        let mut r = rng2.fork();
        let p = gen_mech_prog(&mut r);
        if matches!(p.shape_violation(), Some(w) if !w.starts_with("F-C04-1")) {
            *rejected.entry("mech-family:other-shape".to_string()).or_insert(0) += 1;
            continue;
        }
        cx.check_mech(&p, "generated-mech");
        if cx.fails > 20 {
            break;
        }
    }
    for (k, v) in rejected {
        cx.rep.bump_by(&format!("generation_filter_rejected:{}", k), v);
    }
    cx.rep.extra.insert("disagreements".into(), json!(cx.fails));
    cx.rep.extra.insert("driver_requests".into(), json!(cx.drv.requests));
    std::process::exit(cx.rep.finish());
}

/// Replay the witnesses of the listed findings: a `known` entry that still fails is reported as
/// KNOWN-FINDING; a `fixed` entry that fails is a VIOLATION.
fn replay_findings(cx: &mut Ctx) {
    for e in cx.rep.known_entries() {
        let id = e.get("id").and_then(|x| x.as_str()).unwrap_or("?").to_string();
        let status_known = e.get("status").and_then(|x| x.as_str()) == Some("known");
        let what = e.get("what").and_then(|x| x.as_str()).unwrap_or("").to_string();
        let mut failing = 0;
        let mut total = 0;
        let mut detail = vec![];
        // witnesses expressed in the mini language: expected output computed by the model
        if let Some(ws) = e.get("witness_programs").and_then(|x| x.as_array()) {
            for w in ws {
                let sx = w.get("program").and_then(|x| x.as_str()).unwrap_or("");
                let direct = w.get("direct_call_assign").and_then(|x| x.as_bool()).unwrap_or(false);
                if let Some(p) = Prog::parse(sx) {
                    total += 1;
                    let src = p.render(&RenderOpts { direct_call_assign: direct });
                    let (so, r) = run_real(&src);
                    let real = canon_real(&so, &r);
                    let model = cx.drv.ask(&model_req("g", &p));
                    cx.rep.case(&format!("witness:{}", sx), true);
                    if real != model {
                        failing += 1;
                        detail.push(json!({"program": sx, "source": src, "impl": real, "model": model}));
                    }
                }
            }
        }
        // witnesses given as Koto source with the expected canonical output
        if let Some(ws) = e.get("witness_sources").and_then(|x| x.as_array()) {
            for w in ws {
                let src = w.get("source").and_then(|x| x.as_str()).unwrap_or("");
                let expected = w.get("expected").and_then(|x| x.as_str()).unwrap_or("");
                total += 1;
                let (so, r) = run_real(src);
                let real = canon_real(&so, &r);
                cx.rep.case(&format!("witness-src:{}", src), true);
                if real != expected {
                    failing += 1;
                    detail.push(json!({"source": src, "impl": real, "expected": expected}));
                }
            }
        }
        if status_known {
            if failing > 0 {
                let short: String = what.chars().take(150).collect();
                cx.rep.known(&id, &format!("{}… ({} of {} witnesses still deviate from the guide)", short, failing, total));
            } else {
                cx.rep.note(format!("{}: no witness deviates any more (entry can become status=fixed)", id));
            }
        } else if failing > 0 {
            cx.fails += 1;
            cx.rep.violation(
                "D",
                &format!("C04:regression:{}", id),
                json!({"program": detail[0].get("program").cloned().unwrap_or(json!(null)), "witnesses": detail,
                       "note": "a finding recorded as fixed deviates from the guide again"}),
            );
        }
    }
}


// ------------------------------------------------------------------------------------ K2: mechanism model

/// Random program in the fragment the mechanism model compiles (markers, throw of literals,
/// try/typed catch/finally, literal loops, break/continue, return, calls, `each` callbacks).
/// Shapes of F-C04-1 ARE generated here (return anywhere, break/continue in catch blocks, errors
/// escaping catch blocks of a try with finally): the mechanism model must predict what the real
/// runtime does on them. (break/continue out of a try *body* are generated since 0e9e81b; before, the real
/// runtime may then never terminate and the model is faithful only up to the stale catch block).
struct MG<'a> {
    rng: &'a mut Rng,
    tag: u32,
}

impl<'a> MG<'a> {
    fn t(&mut self) -> u32 {
        self.tag += 1;
        self.tag
    }
    fn lit(&mut self) -> E {
        match self.rng.below(6) {
            0 => E::Lit(Lit::Int(self.rng.range(0, 9))),
            1 => E::Lit(Lit::Null),
            2 => E::Lit(Lit::Rec(if self.rng.chance(1, 2) { vec![(0, 1)] } else { vec![(1, 2), (0, 3)] })),
            _ => E::Lit(Lit::Str(self.rng.range(0, 3) as u32)),
        }
    }
    /// `in_fn`: return allowed; `brk_ok`: break/continue allowed here
    fn block(&mut self, depth: u32, avail: u32, in_fn: bool, brk_ok: bool) -> E {
        let n = 1 + self.rng.below(3);
        let mut v = vec![];
        for _ in 0..n {
            v.push(self.stmt(depth, avail, in_fn, brk_ok));
        }
        E::Seq(v)
    }
    /// outer try { loop { inner try { throw } catch { break/continue } } ; throw } catch …:
    /// the later throw must reach the outer handler (no TryEnd may be emitted for the inner try,
    /// whose catch point was already cleared when its catch block was entered)
    fn handler_exit_snippet(&mut self) -> E {
        let exit = match self.rng.below(3) {
            0 => E::Brk,
            1 => E::Cont,
            _ => E::BrkV(Box::new(E::Lit(Lit::Int(2)))),
        };
        let in_fin = self.rng.chance(1, 3);
        let (cb, fin) = if in_fin {
            (E::Seq(vec![E::Emit(1000 + self.t(), None)]), Some(Box::new(E::Seq(vec![E::Emit(2000 + self.t(), None), exit]))))
        } else {
            (E::Seq(vec![E::Emit(1000 + self.t(), None), exit]), None)
        };
        let inner = E::Try(Box::new(E::Seq(vec![E::Emit(self.t(), None), E::Throw(Box::new(self.lit()))])), vec![(None, 1, cb)], fin);
        let lp = E::ForL(0, Box::new(E::MkList(vec![E::Lit(Lit::Int(0)), E::Lit(Lit::Int(1))])), Box::new(E::Seq(vec![inner, E::Emit(self.t(), None)])));
        E::Try(
            Box::new(E::Seq(vec![E::Emit(self.t(), None), lp, E::Emit(self.t(), None), E::Throw(Box::new(self.lit())), E::Emit(self.t(), None)])),
            vec![(None, 1, E::Seq(vec![E::Emit(1000 + self.t(), None)]))],
            None,
        )
    }

    fn stmt(&mut self, depth: u32, avail: u32, in_fn: bool, brk_ok: bool) -> E {
        if depth > 0 && self.rng.chance(1, 12) {
            return self.handler_exit_snippet();
        }
        let w_nest = if depth > 0 { 4 } else { 0 };
        let w_call = if avail > 0 { 3 } else { 0 };
        let w_ret = if in_fn { 1 } else { 0 };
        let w_brk = if brk_ok { 2 } else { 0 };
        match self.rng.weighted(&[5, 2, w_nest, w_nest / 2, w_call, w_call / 2, w_ret, w_brk]) {
            0 => E::Emit(self.t(), None),
            1 => E::Throw(Box::new(self.lit())),
            2 => {
                let has_fin = self.rng.chance(1, 2);
                let mut body = vec![E::Emit(self.t(), None)];
                if let E::Seq(es) = self.block(depth - 1, avail, in_fn, brk_ok) {
                    body.extend(es);
                }
                let n_typed = self.rng.weighted(&[3, 2, 1]);
                let mut cs = vec![];
                for i in 0..=n_typed {
                    let ty = if i == n_typed {
                        if self.rng.chance(1, 4) { Some(Ty::Keys(vec![self.rng.below(2) as u32])) } else { None }
                    } else {
                        Some(self.rng.pick(&[Ty::String, Ty::Number, Ty::Null, Ty::Map, Ty::Keys(vec![0]), Ty::Keys(vec![1, 0])]).clone())
                    };
                    let mut cb = vec![E::Emit(1000 + self.t(), None)];
                    if self.rng.chance(2, 3) {
                        if let E::Seq(es) = self.block(depth - 1, avail, in_fn, brk_ok) {
                            cb.extend(es);
                        }
                    }
                    cs.push((ty, 1, E::Seq(cb)));
                }
                let fin = if has_fin {
                    let mut fb = vec![E::Emit(2000 + self.t(), None)];
                    if self.rng.chance(1, 3) {
                        fb.push(self.stmt(0, avail, false, false));
                    }
                    Some(Box::new(E::Seq(fb)))
                } else {
                    None
                };
                E::Try(Box::new(E::Seq(body)), cs, fin)
            }
            3 => {
                let n = 1 + self.rng.below(3);
                let items = (0..n).map(|i| E::Lit(Lit::Int(i as i64))).collect();
                let mut body = vec![E::Emit(self.t(), None)];
                if let E::Seq(es) = self.block(depth - 1, avail, in_fn, true) {
                    body.extend(es);
                }
                E::ForL(0, Box::new(E::MkList(items)), Box::new(E::Seq(body)))
            }
            4 => E::Call(self.rng.below(avail as usize) as u32, vec![E::Lit(Lit::Int(0))]),
            5 => {
                let n = 1 + self.rng.below(2);
                let items = (0..n).map(|i| E::Lit(Lit::Int(i as i64))).collect();
                E::Native(NatKind::Each, self.rng.below(avail as usize) as u32, Box::new(E::MkList(items)))
            }
            6 => E::Ret(Box::new(E::Lit(Lit::Int(1)))),
            _ => match self.rng.below(4) {
                0 => E::Brk,
                1 => E::Cont,
                2 => E::BrkV(Box::new(E::Lit(Lit::Int(3)))),
                _ => {
                    // the break value is a call that may raise: it must still be caught by the try
                    // blocks the break is about to leave (TryEnds come after the value's code)
                    if avail > 0 {
                        E::BrkV(Box::new(E::Call(self.rng.below(avail as usize) as u32, vec![E::Lit(Lit::Int(0))])))
                    } else {
                        E::Brk
                    }
                }
            },
        }
    }
}

fn gen_mech_prog(rng: &mut Rng) -> Prog {
    let mut g = MG { rng, tag: 0 };
    let ndefs = g.rng.below(4) as u32;
    let mut defs = vec![];
    for i in 0..ndefs {
        let mut body = vec![E::Emit(g.t(), None)];
        if let E::Seq(es) = g.block(2, i, true, false) {
            body.extend(es);
        }
        body.push(E::Lit(Lit::Int(0)));
        defs.push(Def { is_gen: false, nparams: 1, nlocals: 2, body: E::Seq(body), segs: vec![], tail: E::Seq(vec![]) });
    }
    let mut body = vec![E::Assign(0, Box::new(E::Lit(Lit::Int(0)))), E::Assign(1, Box::new(E::Lit(Lit::Null)))];
    if let E::Seq(es) = g.block(3, ndefs, false, false) {
        body.extend(es);
    }
    body.push(E::Emit(g.t(), None));
    Prog { nglobals: 0, classes: vec![], defs, main_locals: 2, main: E::Seq(body) }
}

/// tags of the marker lines and the result class of a canonical run text
fn tags_only(canon: &str) -> String {
    let (ms, res) = canon.split_once(" || ").unwrap_or((canon, ""));
    let tags: Vec<String> = ms
        .split(" | ")
        .filter(|m| !m.is_empty())
        .map(|m| m.split(' ').next().unwrap_or("").to_string())
        .collect();
    let res = if res.starts_with("ok") { "ok".to_string() } else { res.to_string() };
    format!("{} || {}", tags.join(" | "), res)
}

impl Ctx {
    /// (K2) the mechanism model (`TryMech`) against the real runtime, on a program of its fragment
    fn check_mech(&mut self, p: &Prog, origin: &str) {
        let key = format!("mech {}", p.sexp());
        let src = p.render(&RenderOpts::default());
        let (so, r) = run_real(&src);
        let real = tags_only(&canon_real(&so, &r));
        let mech = self.drv.ask(&format!("mech 20000 {}", p.sexp()));
        self.rep.case(&key, true);
        self.rep.bump(&format!("origin={}", origin));
        let in_f1 = matches!(p.shape_violation(), Some(w) if w.starts_with("F-C04-1"));
        if in_f1 {
            self.rep.bump("mech:program_in_F-C04-1_shape");
        }
        if mech == "unsupported" || mech.ends_with("oof") || mech == "bad-request" {
            self.fails += 1;
            self.rep.violation(
                "K",
                "K:C04:mech-generator",
                json!({"program": p.sexp(), "source": src, "model": mech, "note": "harness defect: program outside the mechanism model's fragment"}),
            );
            return;
        }
        if in_f1 && self.rep.samples.len() < 8 && self.rep.evaluations % 53 == 1 {
            self.rep.sample(json!({"kind": "mechanism-model", "source": src, "request": key, "impl": real, "model": mech}));
        }
        if real != mech {
            self.fails += 1;
            if self.fails <= 5 {
                self.rep.violation(
                    "K",
                    "K:C04:Mech.exec",
                    json!({"program": p.sexp(), "source": src, "impl": real, "model": mech, "mech": true,
                           "note": "the mechanism model (Model/TryMech.lean: catch stacks, TryStart/TryEnd layout, unwinding) and the real runtime disagree; finally_once_mech_partial_* and the F-C04-1/F-C04-5 negation witnesses of Props/C04.lean no longer speak about this code"}),
                );
            }
        }
    }
}

// ------------------------------------------------------------------------------------ (E) iterator error sweep
//
// Clause: "a thrown value or runtime error unwinds to the innermost enclosing try … from any depth
// of function calls, iterator callbacks, generators … an uncaught error ends the run with an error
// result". Every position a lazily evaluated script callback or generator can occupy in the
// adaptors/consumers of core_lib/iterator is enumerated from the table below (checked against the
// source on every run); a fault point (throw of each value kind / each runtime error kind) is
// planted there, after k successful steps, under 0–2 further adaptors, consumed in every way.
// Oracle (no model needed): the fault point prints `#HIT` immediately before it raises. If `#HIT`
// was printed, the very next marker must be the catch marker carrying the thrown value intact
// (type and display), `#DONE` (normal completion of the try body) must not appear — or, with no
// try, the run must end with an error whose message is the thrown value. Never a normal completion.

#[derive(Clone, Copy, PartialEq, Debug)]
enum FRole {
    Id,    // |x| … x
    True,  // |x| … true
    False, // |x| … false
    Key,   // |x| … x
    Fold,  // |a, x| … a
    Gen,   // || … 1
    Sep,   // || … 0
}

#[derive(Clone, Copy, PartialEq, Debug)]
enum TK {
    /// adaptor applied to an erroring input `{X}` (`{O}` = a benign second input)
    Wrap,
    /// consumer of an erroring input `{X}` (may be several statements)
    Cons,
    /// consumer whose own callback is the fault function `{F}` (over the benign `{O}`)
    CbCons(FRole),
    /// adaptor/source whose own callback is the fault function: the innermost erroring iterator
    Base(FRole),
    /// a benign source used for `{O}`
    Src,
}

struct Tpl {
    f: &'static str,
    kind: TK,
    text: &'static str,
}

const fn t(f: &'static str, kind: TK, text: &'static str) -> Tpl {
    Tpl { f, kind, text }
}

/// One row per lazily-evaluated position of every function of `core_lib/iterator.rs`.
/// Names in parentheses are consumers outside the module (language constructs, list/map).
const TPLS: &[Tpl] = &[
    t("advance", TK::Cons, "it_ = {X}\nz_ = it_.advance(3)\nit_.consume()"),
    t("all", TK::Cons, "z_ = {X}.all(|x| true)"),
    t("all", TK::CbCons(FRole::True), "z_ = {O}.all({F})"),
    t("any", TK::Cons, "z_ = {X}.any(|x| false)"),
    t("any", TK::CbCons(FRole::False), "z_ = {O}.any({F})"),
    t("chain", TK::Wrap, "{X}.chain({O})"),
    t("chain", TK::Wrap, "{O}.chain({X})"),
    t("chunks", TK::Wrap, "{X}.chunks(2)"),
    t("consume", TK::Cons, "{X}.consume()"),
    t("consume", TK::Cons, "{X}.consume(|x| x)"),
    t("consume", TK::CbCons(FRole::Id), "{O}.consume({F})"),
    t("count", TK::Cons, "z_ = {X}.count()"),
    t("cycle", TK::Wrap, "{X}.cycle().take(15)"),
    t("each", TK::Wrap, "{X}.each(|x| x)"),
    t("each", TK::Base(FRole::Id), "{O}.each({F})"),
    t("enumerate", TK::Wrap, "{X}.enumerate()"),
    t("find", TK::Cons, "z_ = {X}.find(|x| false)"),
    t("find", TK::CbCons(FRole::False), "z_ = {O}.find({F})"),
    t("flatten", TK::Wrap, "{X}.flatten()"),
    t("flatten", TK::Wrap, "iterator.once({X}).flatten()"),
    t("flatten", TK::Wrap, "((7, 8), {X}, (9,)).flatten()"),
    t("fold", TK::Cons, "z_ = {X}.fold(0, |a, x| a)"),
    t("fold", TK::CbCons(FRole::Fold), "z_ = {O}.fold(0, {F})"),
    t("generate", TK::Base(FRole::Gen), "iterator.generate({F}).take(6)"),
    t("generate", TK::Base(FRole::Gen), "iterator.generate({F}, 6)"),
    t("intersperse", TK::Wrap, "{X}.intersperse(0)"),
    t("intersperse", TK::Wrap, "{X}.intersperse(|| 0)"),
    t("intersperse", TK::Base(FRole::Sep), "{O}.intersperse({F})"),
    t("iter", TK::Wrap, "{X}.iter()"),
    t("keep", TK::Wrap, "{X}.keep(|x| true)"),
    t("keep", TK::Base(FRole::True), "{O}.keep({F})"),
    t("last", TK::Cons, "z_ = {X}.last()"),
    t("max", TK::Cons, "z_ = {X}.max()"),
    t("max", TK::Cons, "z_ = {X}.max(|x| 1)"),
    t("max", TK::CbCons(FRole::Key), "z_ = {O}.max({F})"),
    t("min", TK::Cons, "z_ = {X}.min()"),
    t("min", TK::Cons, "z_ = {X}.min(|x| 1)"),
    t("min", TK::CbCons(FRole::Key), "z_ = {O}.min({F})"),
    t("min_max", TK::Cons, "z_ = {X}.min_max()"),
    t("min_max", TK::Cons, "z_ = {X}.min_max(|x| 1)"),
    t("min_max", TK::CbCons(FRole::Key), "z_ = {O}.min_max({F})"),
    t("next", TK::Cons, "it_ = {X}\nz_ = it_.next()\nz_ = it_.next()\nz_ = it_.next()\nz_ = it_.next()\nit_.consume()"),
    t("next_back", TK::Cons, "it_ = {X}\nz_ = it_.next_back()\nz_ = it_.next_back()\nz_ = it_.next_back()\nz_ = it_.next_back()\nz_ = it_.next_back()\nz_ = it_.next_back()\nit_.consume()"),
    t("once", TK::Src, "iterator.once(5)"),
    t("peekable", TK::Wrap, "{X}.peekable()"),
    t("peekable", TK::Cons, "p_ = {X}.peekable()\nz_ = p_.peek()\nz_ = p_.next()\nz_ = p_.peek()\nz_ = p_.next()\nz_ = p_.peek()\nz_ = p_.next()\nz_ = p_.peek()\nfor q_ in p_\n  z_ = q_"),
    t("peekable", TK::Cons, "p_ = {X}.peekable()\nz_ = p_.peek_back()\nz_ = p_.next_back()\nz_ = p_.peek_back()\nz_ = p_.next_back()\nz_ = p_.peek_back()\nz_ = p_.next_back()\nz_ = p_.peek_back()\nz_ = p_.next_back()\nz_ = p_.peek_back()\nz_ = p_.next_back()\nz_ = p_.peek_back()\nz_ = p_.next_back()\nfor q_ in p_\n  z_ = q_"),
    t("position", TK::Cons, "z_ = {X}.position(|x| false)"),
    t("position", TK::CbCons(FRole::False), "z_ = {O}.position({F})"),
    t("product", TK::Cons, "z_ = {X}.product()"),
    t("repeat", TK::Src, "iterator.repeat(5, 6)"),
    t("reversed", TK::Wrap, "{X}.reversed()"),
    t("skip", TK::Wrap, "{X}.skip(0)"),
    t("skip", TK::Wrap, "{X}.skip(1)"),
    t("step", TK::Wrap, "{X}.step(1)"),
    t("step", TK::Wrap, "{X}.step(2)"),
    t("sum", TK::Cons, "z_ = {X}.sum()"),
    t("take", TK::Wrap, "{X}.take(100)"),
    t("take", TK::Wrap, "{X}.take(|x| true)"),
    t("take", TK::Base(FRole::True), "{O}.take({F})"),
    t("to_list", TK::Cons, "z_ = {X}.to_list()"),
    t("to_map", TK::Cons, "z_ = {X}.to_map()"),
    t("to_string", TK::Cons, "z_ = {X}.to_string()"),
    t("to_tuple", TK::Cons, "z_ = {X}.to_tuple()"),
    t("windows", TK::Wrap, "{X}.windows(2)"),
    t("zip", TK::Wrap, "{X}.zip({O})"),
    t("zip", TK::Wrap, "{O}.zip({X})"),
    // consumers that are language constructs / other modules
    t("(for)", TK::Cons, "for a_ in {X}\n  z_ = a_"),
    t("(for-unpack)", TK::Cons, "for a_, b_ in {X}\n  z_ = a_"),
    t("(unpack)", TK::Cons, "it_ = {X}\na_, b_, c_, d_ = it_\nit_.consume()"),
    t("(list.extend)", TK::Cons, "z_ = [0].extend({X})"),
    t("(for-in-function)", TK::Cons, "w_ = ||\n  for a_ in {X}\n    z_ = a_\n  0\nz_ = w_()"),
    t("(generator-relay)", TK::Wrap, "(|src| for y_ in src\n  yield y_\n)({X})"),
];

/// functions of the iterator module with no lazily evaluated input or callback position
const ITER_FN_NOT_APPLICABLE: &[(&str, &str)] = &[];

/// `pub struct` of iterator/{adaptors,generators,peekable}.rs → the module function whose
/// templates exercise it (or "n/a: reason")
const STRUCT_COVER: &[(&str, &str)] = &[
    ("Chain", "chain"),
    ("Chunks", "chunks"),
    ("Cycle", "cycle"),
    ("Each", "each"),
    ("Enumerate", "enumerate"),
    ("Flatten", "flatten"),
    ("Intersperse", "intersperse"),
    ("IntersperseWith", "intersperse"),
    ("Keep", "keep"),
    ("PairFirst", "n/a: only wraps a map's own entry iterator (map.keys), which cannot raise"),
    ("PairSecond", "n/a: only wraps a map's own entry iterator (map.values), which cannot raise"),
    ("Reversed", "reversed"),
    ("Skip", "skip"),
    ("Step", "step"),
    ("Take", "take"),
    ("TakeWhile", "take"),
    ("Windows", "windows"),
    ("Zip", "zip"),
    ("Once", "once"),
    ("Repeat", "n/a: infinite source of a constant, no callback, no input"),
    ("RepeatN", "repeat"),
    ("Generate", "generate"),
    ("GenerateN", "generate"),
    ("Peekable", "peekable"),
];

fn repo_root() -> String {
    std::env::var("KOTO_REPO").unwrap_or_else(|_| "/repo".to_string())
}

fn scan_names(path: &str, prefix: &str, stop: char) -> Option<Vec<String>> {
    let txt = std::fs::read_to_string(path).ok()?;
    let mut out = vec![];
    for line in txt.lines() {
        let l = line.trim_start();
        if let Some(rest) = l.strip_prefix(prefix) {
            let name: String = rest.chars().take_while(|c| *c != stop && (c.is_alphanumeric() || *c == '_')).collect();
            if !name.is_empty() {
                out.push(name);
            }
        }
    }
    Some(out)
}

/// The table must list exactly the functions / adaptor structs the source defines.
fn check_iterator_table(cx: &mut Ctx) {
    let root = repo_root();
    let base = format!("{}/crates/runtime/src/core_lib", root);
    let fns = scan_names(&format!("{}/iterator.rs", base), "result.add_fn(\"", '"');
    let mut structs: Vec<String> = vec![];
    let mut ok = fns.is_some();
    for f in ["adaptors.rs", "generators.rs", "peekable.rs"] {
        match scan_names(&format!("{}/iterator/{}", base, f), "pub struct ", ' ') {
            Some(v) => structs.extend(v),
            None => ok = false,
        }
    }
    let fns = fns.unwrap_or_default();
    let mut problems = vec![];
    if !ok || fns.len() < 20 || structs.len() < 10 {
        problems.push(format!("iterator sources not found or not in the expected shape under {}", base));
    }
    let table: std::collections::BTreeSet<&str> = TPLS
        .iter()
        .map(|t| t.f)
        .filter(|f| !f.starts_with('('))
        .chain(ITER_FN_NOT_APPLICABLE.iter().map(|x| x.0))
        .collect();
    for f in &fns {
        if !table.contains(f.as_str()) {
            problems.push(format!("iterator.{} is defined in iterator.rs but has no row in the sweep table", f));
        }
    }
    for f in &table {
        if !fns.iter().any(|x| x == f) {
            problems.push(format!("the sweep table lists iterator.{} which iterator.rs no longer defines", f));
        }
    }
    for s in &structs {
        match STRUCT_COVER.iter().find(|x| x.0 == s) {
            None => problems.push(format!("adaptor struct {} has no entry in the sweep's struct table", s)),
            Some((_, f)) if !f.starts_with("n/a") && !table.contains(f) => {
                problems.push(format!("adaptor struct {} is mapped to unknown function {}", s, f))
            }
            _ => {}
        }
    }
    for (s, _) in STRUCT_COVER {
        if !structs.iter().any(|x| x == s) {
            problems.push(format!("the struct table lists {} which the source no longer defines", s));
        }
    }
    cx.rep.extra.insert("iterator_table".into(), json!({"functions_in_source": fns.len(), "structs_in_source": structs.len(), "table_rows": TPLS.len()}));
    if !problems.is_empty() {
        cx.fails += 1;
        cx.rep.violation(
            "K",
            "K:C04:iterator-sweep-table",
            json!({"problems": problems,
                   "note": "the table of iterator adaptors/consumers that the error-propagation sweep enumerates no longer matches crates/runtime/src/core_lib/iterator*: a new or renamed adaptor has no fault-injection coverage"}),
        );
    }
}

#[derive(Clone, Copy, Debug, PartialEq)]
enum FaultV {
    Str,
    Num,
    Null,
    Bool,
    Obj,
    List,
    Tuple,
    Map,
    RtIndex,
    RtType,
    RtAssert,
    RtArgs,
    RtAccess,
}

const FAULTS: &[FaultV] = &[
    FaultV::Str,
    FaultV::Obj,
    FaultV::Num,
    FaultV::RtIndex,
    FaultV::Null,
    FaultV::RtType,
    FaultV::List,
    FaultV::RtAssert,
    FaultV::Bool,
    FaultV::RtArgs,
    FaultV::Tuple,
    FaultV::RtAccess,
    FaultV::Map,
];

impl FaultV {
    fn stmt(&self) -> &'static str {
        match self {
            FaultV::Str => "throw 'boom'",
            FaultV::Num => "throw 42",
            FaultV::Null => "throw null",
            FaultV::Bool => "throw true",
            FaultV::Obj => "throw mkE_()",
            FaultV::List => "throw [1, 2]",
            FaultV::Tuple => "throw (1, 2)",
            FaultV::Map => "throw {a: 1}",
            FaultV::RtIndex => "zz_ = (1, 2)[5]",
            FaultV::RtType => "zz_ = 1 + 'a'",
            FaultV::RtAssert => "assert false",
            FaultV::RtArgs => "k1_()",
            FaultV::RtAccess => "zz_ = nul_.foo",
        }
    }
    /// `{type e} {e}` as the catch block must see it
    fn expected(&self) -> &'static str {
        match self {
            FaultV::Str => "String boom",
            FaultV::Num => "Number 42",
            FaultV::Null => "Null null",
            FaultV::Bool => "Bool true",
            FaultV::Obj => "K0 k0",
            FaultV::List => "List [1, 2]",
            FaultV::Tuple => "Tuple (1, 2)",
            FaultV::Map => "Map {a: 1}",
            FaultV::RtIndex => "String index out of bounds - index: 5, size: 2",
            FaultV::RtType => "String unable to perform operation '+' with 'Number' and 'String'",
            FaultV::RtAssert => "String assertion failed",
            FaultV::RtArgs => "String insufficient arguments (0, expected 1)",
            FaultV::RtAccess => "String expected a value that supports '.' access, found Null",
        }
    }
}

#[derive(Clone, Copy, Debug, PartialEq)]
enum TryMode {
    Same,     // try in the frame that consumes
    Function, // the consumption happens in a function called from the try block
    None,     // no try: the run must end with the error
}

const BENIGN: &[&str] = &["(1, 2, 3, 4, 5, 6)", "[1, 2, 3, 4, 5, 6]", "(1..=6)", "iterator.repeat(5, 6)"];

struct SweepCase {
    /// innermost erroring iterator: index into TPLS (a Base row), or None = the fault generator
    base: Option<usize>,
    wraps: Vec<usize>,
    /// consumer row (Cons, or CbCons: then base/wraps are unused)
    cons: usize,
    fault: FaultV,
    k: usize,
    mode: TryMode,
    benign: usize,
}

impl SweepCase {
    fn describe(&self) -> String {
        let b = match (TPLS[self.cons].kind, self.base) {
            (TK::CbCons(_), _) => "-".to_string(),
            (_, Some(i)) => format!("{}#{}", TPLS[i].f, i),
            (_, None) => "generator".to_string(),
        };
        let w: Vec<String> = self.wraps.iter().map(|i| format!("{}#{}", TPLS[*i].f, i)).collect();
        format!(
            "base={} wraps=[{}] cons={}#{} fault={:?} k={} mode={:?} o={}",
            b,
            w.join(","),
            TPLS[self.cons].f,
            self.cons,
            self.fault,
            self.k,
            self.mode,
            self.benign
        )
    }

    fn fault_fn(&self, role: FRole) -> String {
        let (params, ret) = match role {
            FRole::Id | FRole::Key => ("|x|", "x"),
            FRole::True => ("|x|", "true"),
            FRole::False => ("|x|", "false"),
            FRole::Fold => ("|a, x|", "a"),
            FRole::Gen => ("||", "1"),
            FRole::Sep => ("||", "0"),
        };
        format!(
            "ft_ = {}\n  hits_.push 0\n  if (size hits_) == {}\n    print '#HIT'\n    {}\n  {}\n",
            params,
            self.k + 1,
            self.fault.stmt(),
            ret
        )
    }

    fn fault_gen(&self) -> String {
        let mut s = String::from("fg_ = ||\n");
        for i in 0..self.k {
            s.push_str(&format!("  yield {}\n", i + 1));
        }
        s.push_str(&format!("  print '#HIT'\n  {}\n  yield 99\n", self.fault.stmt()));
        s
    }

    fn source(&self) -> String {
        let o = BENIGN[self.benign % BENIGN.len()];
        let mut defs = String::new();
        let cons = &TPLS[self.cons];
        let body: String = match cons.kind {
            TK::CbCons(role) => {
                defs.push_str(&self.fault_fn(role));
                cons.text.replace("{O}", o).replace("{F}", "ft_")
            }
            _ => {
                let mut x = match self.base {
                    Some(i) => {
                        if let TK::Base(role) = TPLS[i].kind {
                            defs.push_str(&self.fault_fn(role));
                        }
                        TPLS[i].text.replace("{O}", o).replace("{F}", "ft_")
                    }
                    None => {
                        defs.push_str(&self.fault_gen());
                        "fg_()".to_string()
                    }
                };
                for (n, w) in self.wraps.iter().enumerate() {
                    let o2 = BENIGN[(self.benign + n + 1) % BENIGN.len()];
                    x = TPLS[*w].text.replace("{X}", &x).replace("{O}", o2);
                }
                cons.text.replace("{X}", &x)
            }
        };
        let mut s = String::from("nul_ = null\nk1_ = |a| a\nmkE_ = ||\n  @type: 'K0'\n  @display: || 'k0'\nhits_ = []\n");
        s.push_str(&defs);
        s.push_str("print '#S'\n");
        let indent = |txt: &str, n: usize| -> String {
            txt.lines().map(|l| format!("{}{}\n", "  ".repeat(n), l)).collect()
        };
        match self.mode {
            TryMode::Same => {
                s.push_str("try\n");
                s.push_str(&indent(&body, 1));
                s.push_str("  print '#DONE'\ncatch e_\n  print '#C {type e_} {e_}'\nprint '#END'\n");
            }
            TryMode::Function => {
                s.push_str("run_ = ||\n");
                s.push_str(&indent(&body, 1));
                s.push_str("  print '#DONE'\n  0\ntry\n  z2_ = run_()\ncatch e_\n  print '#C {type e_} {e_}'\nprint '#END'\n");
            }
            TryMode::None => {
                s.push_str(&body);
                s.push_str("\nprint '#DONE'\n");
            }
        }
        s
    }
}

/// `intersperse` looks one element ahead before it hands out a separator: an error raised by that
/// element is delivered one pull later, so an error of the consumer's own (e.g. `max` comparing a
/// number with a tuple) can legitimately arrive first.
fn has_lookahead(c: &SweepCase) -> bool {
    c.wraps.iter().any(|w| TPLS[*w].f == "intersperse")
}

/// … and when an adaptor *above* the intersperse stops pulling early (zip with a shorter partner,
/// `cycle().take(n)`), the element that was only looked at is never demanded at all.
fn lookahead_may_be_dropped(c: &SweepCase) -> bool {
    match c.wraps.iter().position(|w| TPLS[*w].f == "intersperse") {
        Some(i) => c.wraps[i + 1..].iter().any(|w| matches!(TPLS[*w].f, "zip" | "cycle")),
        None => false,
    }
}

const SKIP1: &str = "{X}.skip(1)";
const STEP2: &str = "{X}.step(2)";

/// Shape of the findings F-C04-7 / F-C04-8 (generation filter): the element whose production
/// raises is one that `skip(n >= 1)` / `step(n >= 2)` discards. Directly above the innermost
/// iterator this is decidable (k-th element / separator positions); deeper in a pipeline it is not,
/// so these two rows are then not used at all.
fn discard_shape(c: &SweepCase) -> bool {
    let pos = |txt: &str| c.wraps.iter().position(|w| TPLS[*w].text == txt);
    for (txt, is_skip) in [(SKIP1, true), (STEP2, false)] {
        if let Some(p) = pos(txt) {
            if p > 0 || c.wraps.iter().filter(|w| TPLS[**w].text == txt).count() > 1 {
                return true;
            }
            // directly above the base: index of the raising element in the base's output
            let sep_base = matches!(c.base, Some(b) if matches!(TPLS[b].kind, TK::Base(FRole::Sep)));
            let idx = if sep_base { 2 * c.k + 1 } else { c.k };
            let discarded = if is_skip { idx == 0 } else { idx % 2 == 1 };
            if discarded {
                return true;
            }
            // a second discarding adaptor elsewhere in the pipeline
            if c.wraps.iter().enumerate().any(|(i, w)| i != p && (TPLS[*w].text == SKIP1 || TPLS[*w].text == STEP2)) {
                return true;
            }
        }
    }
    false
}

/// Ok(true) = the fault point fired and the error arrived correctly; Ok(false) = it never fired
fn sweep_oracle(c: &SweepCase, stdout: &str, r: &Result<Result<String, String>, String>) -> Result<bool, String> {
    if let Err(p) = r {
        return Err(format!("panic: {}", p));
    }
    let markers: Vec<&str> = stdout.split('\n').filter(|l| l.starts_with('#')).collect();
    let hits = markers.iter().filter(|m| **m == "#HIT").count();
    if hits == 0 {
        return Ok(false);
    }
    if let Some(j) = stdout.split('\n').find(|l| !l.is_empty() && !l.starts_with('#')) {
        // the catch marker prints the caught value: a runtime error must be caught as its plain
        // message, whatever native/callback levels it crossed (F-C04-10)
        return Err(format!("output that is not a marker line (caught value is not the plain message?): {:?}", j));
    }
    if hits > 1 {
        return Err(format!("the fault point was executed {} times (execution went on after it raised)", hits));
    }
    let pos = markers.iter().position(|m| *m == "#HIT").unwrap();
    let after: Vec<&str> = markers[pos + 1..].to_vec();
    let exp_c = format!("#C {}", c.fault.expected());
    let la = has_lookahead(c);
    if lookahead_may_be_dropped(c) && matches!(r, Ok(Ok(_))) && !after.iter().any(|m| m.starts_with("#C")) {
        return Ok(false); // looked at, never demanded: counts as "fault point not reached"
    }
    match c.mode {
        TryMode::Same | TryMode::Function => {
            if la && after.len() == 2 && after[0].starts_with("#C String ") && after[1] == "#END" && matches!(r, Ok(Ok(_))) {
                return Ok(true); // another error arrived first (see has_lookahead)
            }
            if after.is_empty() || after[0] != exp_c {
                return Err(format!(
                    "after the fault point raised, expected the catch marker {:?} next, got {:?}",
                    exp_c, after
                ));
            }
            if after.len() != 2 || after[1] != "#END" {
                return Err(format!("unexpected markers after the catch block: {:?}", after));
            }
            match r {
                Ok(Ok(_)) => Ok(true),
                other => Err(format!("the error was caught but the run did not complete normally: {:?}", other)),
            }
        }
        TryMode::None => {
            if !after.is_empty() {
                return Err(format!("execution continued after an uncaught error: {:?}", after));
            }
            let want = c.fault.expected().split_once(' ').map(|x| x.1).unwrap_or("");
            match r {
                Ok(Err(e)) => {
                    let first = strip_traces(e);
                    let first = first.split('\n').next().unwrap_or("");
                    if first == want || la {
                        Ok(true)
                    } else {
                        Err(format!("uncaught error message {:?}, expected the thrown value {:?}", first, want))
                    }
                }
                other => Err(format!("the fault point raised with no enclosing try but the run ended with {:?}", other)),
            }
        }
    }
}

fn run_sweep(cx: &mut Ctx, seed: u64, thorough: bool) {
    check_iterator_table(cx);
    let idx_of = |pred: &dyn Fn(&Tpl) -> bool| -> Vec<usize> { (0..TPLS.len()).filter(|i| pred(&TPLS[*i])).collect() };
    let bases: Vec<Option<usize>> =
        idx_of(&|t| matches!(t.kind, TK::Base(_))).into_iter().map(Some).chain(std::iter::once(None)).collect();
    let wraps = idx_of(&|t| t.kind == TK::Wrap);
    let conss = idx_of(&|t| t.kind == TK::Cons);
    let cbs = idx_of(&|t| matches!(t.kind, TK::CbCons(_)));
    let modes = [TryMode::Same, TryMode::None, TryMode::Function];
    let mut rng = Rng::new(seed ^ 0x17e8_a705);
    let mut n = 0usize;
    let mut fired_by_fn: std::collections::BTreeMap<&'static str, u64> = Default::default();
    let mut sweep_fail = 0u64;
    let open78 = std::env::var("C04_NO_DISCARD_FILTER").is_err() && cx.rep.known_open().iter().any(|e| matches!(e.get("id").and_then(|x| x.as_str()), Some("F-C04-7") | Some("F-C04-8")));
    let mut run_case = |cx: &mut Ctx, c: SweepCase, n: &mut usize| {
        if open78 && discard_shape(&c) {
            cx.rep.bump("generation_filter_rejected:F-C04-7/8:element discarded by skip/step raises");
            return;
        }
        *n += 1;
        let src = c.source();
        let (so, r) = run_real(&src);
        let verdict = sweep_oracle(&c, &so, &r);
        let key = format!("sweep {}", c.describe());
        cx.rep.case(&key, matches!(verdict, Ok(true)));
        match &verdict {
            Ok(true) => {
                cx.rep.bump("sweep=fired");
                cx.rep.bump(&format!("sweep_fault={:?}", c.fault));
                cx.rep.bump(&format!("sweep_mode={:?}", c.mode));
                cx.rep.bump(&format!("sweep_depth={}", c.wraps.len()));
                let mut names: Vec<&'static str> = c.wraps.iter().map(|i| TPLS[*i].f).collect();
                names.push(TPLS[c.cons].f);
                if let Some(b) = c.base {
                    names.push(TPLS[b].f);
                } else if !matches!(TPLS[c.cons].kind, TK::CbCons(_)) {
                    names.push("(generator)");
                }
                names.sort();
                names.dedup();
                for f in names {
                    *fired_by_fn.entry(f).or_insert(0) += 1;
                }
                if cx.rep.samples.len() < 10 && *n % 997 == 5 {
                    cx.rep.sample(json!({"kind": "iterator-error-sweep", "request": key, "source": src,
                        "impl": canon_real(&so, &r), "model": format!("oracle: #HIT then #C {}", c.fault.expected())}));
                }
            }
            Ok(false) => cx.rep.bump("sweep=fault_point_not_reached"),
            Err(why) => {
                sweep_fail += 1;
                cx.fails += 1;
                if std::env::var("C04_SWEEP_DUMP").is_ok() {
                    eprintln!("SWEEPFAIL {} :: {}", c.describe(), why);
                }
                if sweep_fail <= 6 {
                    cx.rep.violation(
                        "D",
                        "C04:error-propagation-through-iterators",
                        json!({"sweep": c.describe(), "source": src, "impl": canon_real(&so, &r), "why": why,
                               "expected": format!("#HIT is followed by the catch marker `#C {}` (or, with no try, the run ends with that error); never a normal completion", c.fault.expected()),
                               "note": "an error raised by a lazily evaluated callback/generator inside an iterator pipeline did not reach the innermost enclosing try with the thrown value intact"}),
                    );
                }
            }
        }
    };
    let mut rot = (seed as usize) % 7;
    let pick = |rot: &mut usize| -> (FaultV, usize, TryMode) {
        *rot += 1;
        (FAULTS[*rot % FAULTS.len()], (*rot / 3) % 3, modes[(*rot / 2) % 3])
    };
    // 1. consumer callbacks
    for &c in &cbs {
        let reps = if thorough { FAULTS.len() * 3 } else { 6 };
        for _ in 0..reps {
            let (fault, k, mode) = pick(&mut rot);
            run_case(cx, SweepCase { base: None, wraps: vec![], cons: c, fault, k, mode, benign: rot }, &mut n);
        }
    }
    // 2. every base × (no wrapper | every wrapper) × every consumer
    let reps = if thorough { 4 } else { 1 };
    for &b in &bases {
        for w in std::iter::once(None).chain(wraps.iter().map(|w| Some(*w))) {
            for &c in &conss {
                for _ in 0..reps {
                    let (fault, k, mode) = pick(&mut rot);
                    run_case(
                        cx,
                        SweepCase { base: b, wraps: w.into_iter().collect(), cons: c, fault, k, mode, benign: rot },
                        &mut n,
                    );
                }
            }
        }
    }
    // 3. random pipelines, 2–3 adaptors deep
    let n_rand = if thorough { 60000 } else { 3000 };
    for _ in 0..n_rand {
        let depth = 2 + rng.below(2);
        let c = SweepCase {
            base: *rng.pick(&bases),
            wraps: (0..depth).map(|_| *rng.pick(&wraps)).collect(),
            cons: *rng.pick(&conss),
            fault: *rng.pick(FAULTS),
            k: rng.below(3),
            mode: *rng.pick(&modes),
            benign: rng.below(4),
        };
        run_case(cx, c, &mut n);
    }
    // every table row must have been exercised with the fault actually firing
    let mut silent = vec![];
    for t in TPLS.iter().filter(|t| t.kind != TK::Src) {
        if fired_by_fn.get(t.f).copied().unwrap_or(0) == 0 && !silent.contains(&t.f) {
            silent.push(t.f);
        }
    }
    cx.rep.extra.insert(
        "iterator_sweep".into(),
        json!({"cases": n, "fired_per_function": fired_by_fn, "functions_never_fired": silent, "failures": sweep_fail}),
    );
    if !silent.is_empty() {
        cx.fails += 1;
        cx.rep.violation(
            "K",
            "K:C04:iterator-sweep-coverage",
            json!({"functions_never_fired": silent,
                   "note": "no case of the sweep reached its fault point through these functions: the sweep no longer covers them (templates need adjusting)"}),
        );
    }
}

// ------------------------------------------------------------------------------------ (I) failing imports
//
// Clause: "after a caught error execution continues with every variable and container as it was at
// the throw point" — for a failed `import` this includes the module's ACTIVE EXPORTS MAP (the VM
// swaps it while a module loads): after the catch, earlier exports are still readable through
// non-local lookups, later `export`s land in the importing module, nothing of the failed module
// leaks, a later good import works, and importing the bad module again fails again.
// Model-free (like the iterator sweep): the expected marker trace follows from the script template.

struct BadMod {
    name: &'static str,
    body: &'static str,
    /// `{type e} {e}` as the importing script must catch it
    caught: &'static str,
}

const BAD_MODS: &[BadMod] = &[
    BadMod { name: "bad_str", body: "export partial_bad_str = 'p'\nthrow 'modfail'\n", caught: "String modfail" },
    BadMod { name: "bad_num", body: "export partial_bad_num = 'p'\nx = 1\nthrow 42\n", caught: "Number 42" },
    BadMod {
        name: "bad_obj",
        body: "export partial_bad_obj = 'p'\nthrow {@type: 'K0', @display: || 'k0'}\n",
        caught: "K0 k0",
    },
    BadMod {
        name: "bad_rt",
        body: "export partial_bad_rt = 'p'\nexport broken = [1, 2, 3][10]\nexport never = 1\n",
        caught: "String index out of bounds - index: 10, size: 3",
    },
    BadMod {
        name: "bad_fn",
        body: "export partial_bad_fn = 'p'\nf = |n|\n  if n == 0\n    return 1 + 'a'\n  f(n - 1)\nexport v = f 3\n",
        caught: "String unable to perform operation '+' with 'Number' and 'String'",
    },
    BadMod { name: "bad_main", body: "export partial_bad_main = 'p'\n@main = || throw 'mainfail'\n", caught: "String mainfail" },
    BadMod {
        name: "bad_test",
        body: "export partial_bad_test = 'p'\n@test t = || assert false\n",
        caught: "String assertion failed (while running test 't')",
    },
    BadMod {
        name: "bad_outer",
        body: "export partial_bad_outer = 'p'\nexport o = 1\nimport bad_str\nexport after = 2\n",
        caught: "String modfail",
    },
];

#[derive(Clone, Copy, Debug)]
enum ImpPlace {
    Top,      // try at the top level of the importing script
    Function, // the import statement is in a function called from the try block
    Nested,   // two nested try blocks, the inner one's catch blocks (typed, map pattern) do not accept
    Loop,     // twice in a loop (the second attempt must fail in the same way)
}

fn import_case_source(mods: &[usize], place: ImpPlace, from_form: bool) -> (String, Vec<String>) {
    let mut s = String::from("export first = 1\nget_first = || first\nget_second = || second\nget_third = || third\n");
    let mut exp = vec![];
    for m in mods {
        s.push_str(&format!("get_leak_{0} = || partial_{0}\n", BAD_MODS[*m].name));
    }
    s.push_str("print '#S'\n");
    exp.push("#S".to_string());
    for (i, m) in mods.iter().enumerate() {
        let b = &BAD_MODS[*m];
        let stmt = if from_form { format!("from {} import partial_{} as q{}_", b.name, b.name, i) } else { format!("import {} as m{}_", b.name, i) };
        let caught = format!("#C{} {}", i, b.caught);
        match place {
            ImpPlace::Top => {
                s.push_str(&format!("try\n  {}\n  print '#DONE'\ncatch e{}_\n  print '#C{} {{type e{}_}} {{e{}_}}'\n", stmt, i, i, i, i));
                exp.push(caught);
            }
            ImpPlace::Function => {
                s.push_str(&format!("imp{}_ = ||\n  {}\n  print '#DONE'\n  0\ntry\n  z{}_ = imp{}_()\ncatch e{}_\n  print '#C{} {{type e{}_}} {{e{}_}}'\n", i, stmt, i, i, i, i, i, i));
                exp.push(caught);
            }
            ImpPlace::Nested => {
                s.push_str(&format!("try\n  try\n    {}\n    print '#DONE'\n  catch w{}_: List\n    print '#WRONG'\n  catch {{nokey_ as w{}b_}}\n    print '#WRONG2'\ncatch e{}_\n  print '#C{} {{type e{}_}} {{e{}_}}'\n", stmt, i, i, i, i, i, i));
                exp.push(caught);
            }
            ImpPlace::Loop => {
                s.push_str(&format!("for n{}_ in (1, 2)\n  try\n    {}\n    print '#DONE'\n  catch e{}_\n    print '#C{} {{type e{}_}} {{e{}_}}'\n", i, stmt, i, i, i, i));
                exp.push(caught.clone());
                exp.push(caught);
            }
        }
        // an export between two failing imports
        s.push_str(&format!("export mid{} = {}\nprint '#M{} {{(|| mid{})()}}'\n", i, 10 + i, i, i));
        exp.push(format!("#M{} {}", i, 10 + i));
    }
    s.push_str("export second = 2\nprint '#1 {get_first()}'\nprint '#2 {get_second()}'\n");
    exp.push("#1 1".into());
    exp.push("#2 2".into());
    for m in mods {
        let n = BAD_MODS[*m].name;
        s.push_str(&format!("try\n  print '#L {{get_leak_{0}()}}'\ncatch l_\n  print '#LE {{l_}}'\n", n));
        exp.push(format!("#LE 'partial_{}' not found", n));
    }
    s.push_str("import ok_mod\nprint '#3 {ok_mod.a}'\nexport third = 3\nprint '#4 {get_third()}'\n");
    exp.push("#3 1".into());
    exp.push("#4 3".into());
    (s, exp)
}

fn run_import_family(cx: &mut Ctx) {
    let base = std::env::var("VERIF_SCRATCH").map(std::path::PathBuf::from).unwrap_or_else(|_| std::env::temp_dir());
    let dir = base.join(format!("c04_mods_{}", std::process::id()));
    let _ = std::fs::create_dir_all(&dir);
    let mut ok = std::fs::write(dir.join("_host.koto"), "").is_ok();
    ok &= std::fs::write(dir.join("ok_mod.koto"), "export a = 1\n").is_ok();
    for b in BAD_MODS {
        ok &= std::fs::write(dir.join(format!("{}.koto", b.name)), b.body).is_ok();
    }
    if !ok {
        cx.rep.note(format!("import family skipped: cannot write module files under {}", dir.display()));
        return;
    }
    let host = dir.join("_host.koto");
    let mut n = 0u64;
    let mut fails = 0u64;
    let places = [ImpPlace::Top, ImpPlace::Function, ImpPlace::Nested, ImpPlace::Loop];
    let mut cases: Vec<(Vec<usize>, ImpPlace, bool)> = vec![];
    for m in 0..BAD_MODS.len() {
        for p in places {
            for f in [false, true] {
                cases.push((vec![m], p, f));
            }
        }
    }
    // two and three failing imports in a row, different kinds
    for m in 0..BAD_MODS.len() {
        let m2 = (m + 3) % BAD_MODS.len();
        let m3 = (m + 5) % BAD_MODS.len();
        cases.push((vec![m, m2], places[m % 4], m % 2 == 0));
        cases.push((vec![m, m2, m3], places[(m + 1) % 4], m % 2 == 1));
    }
    for (mods, place, from_form) in cases {
        n += 1;
        let (src, exp) = import_case_source(&mods, place, from_form);
        let (so, r) = run_real_at(&src, Some(&host));
        let key = format!("import mods={:?} place={:?} from={}", mods.iter().map(|m| BAD_MODS[*m].name).collect::<Vec<_>>(), place, from_form);
        cx.rep.case(&key, true);
        cx.rep.bump("import_family=case");
        let got: Vec<&str> = so.split('\n').filter(|l| !l.is_empty()).collect();
        let okr = matches!(r, Ok(Ok(_)));
        if got != exp.iter().map(|x| x.as_str()).collect::<Vec<_>>() || !okr {
            fails += 1;
            cx.fails += 1;
            if fails <= 4 {
                cx.rep.violation(
                    "D",
                    "C04:state-after-failed-import",
                    json!({"case": key, "source": src, "modules_dir": dir.display().to_string(),
                           "impl": format!("{} || {:?}", got.join(" | "), r), "expected": exp.join(" | "),
                           "note": "after a failed import was caught, the importing module does not continue with its own exports map / variables as they were (or the caught value is not the module's error)"}),
                );
            }
        }
    }
    cx.rep.extra.insert("import_family".into(), json!({"cases": n, "failures": fails, "bad_module_kinds": BAD_MODS.iter().map(|b| b.name).collect::<Vec<_>>()}));
    let _ = std::fs::remove_dir_all(&dir);
}

// ------------------------------------------------------------------------------------ (R) receiver state after a failed mutating call
//
// Clause: "after a caught error execution continues with every variable and container as it was at
// the throw point" — for a core-library function that mutates its receiver and fails part-way
// through (a callback or an overloaded comparison raises at its k-th invocation), the receiver — and
// every alias of it — must afterwards hold what the completed effects explain: nothing lost, nothing
// invented; for element-wise in-place operations exactly the documented partial state. The finally
// block runs. Model-free: the expected state follows from the row's template; the table is checked
// against the `add_fn` names of core_lib/list.rs and core_lib/map.rs.

#[derive(Clone, Copy, Debug, PartialEq)]
enum RecvExpect {
    /// the same elements / entries in some order (reordering operations)
    Permutation,
    /// exactly the state computed by `recv_expected` (element-wise operations)
    Exact,
    /// unchanged, or the documented intermediate state computed by `recv_expected`
    UnchangedOrExact,
}

struct RecvRow {
    f: &'static str, // "list.sort", "map.update", …
    name: &'static str,
    /// receiver construction; `{MK}` = constructor of comparison objects
    recv: &'static str,
    /// the elements/entries of the receiver as they are displayed, in order
    items: &'static [&'static str],
    op: &'static str,
    role: FRole,
    expect: RecvExpect,
    /// the objects' `@<` / `@>` / `@==` go through the fault function
    objects: bool,
}

const LIST5: &str = "[3, 1, 4, 2, 5]";
const LIST5_ITEMS: &[&str] = &["3", "1", "4", "2", "5"];
const MAP4: &str = "{c: 3, a: 1, d: 4, b: 2}";
const MAP4_ITEMS: &[&str] = &["c: 3", "a: 1", "d: 4", "b: 2"];
const OBJ4: &str = "[mkc_(3), mkc_(1), mkc_(4), mkc_(2)]";
const OBJ4_ITEMS: &[&str] = &["k3", "k1", "k4", "k2"];

const RECV_ROWS: &[RecvRow] = &[
    RecvRow { f: "list.sort", name: "list.sort(key fn)", recv: LIST5, items: LIST5_ITEMS, op: "r_.sort(ft_)", role: FRole::Key, expect: RecvExpect::Permutation, objects: false },
    RecvRow { f: "list.sort", name: "list.sort() with a raising @<", recv: OBJ4, items: OBJ4_ITEMS, op: "r_.sort()", role: FRole::Id, expect: RecvExpect::Permutation, objects: true },
    RecvRow { f: "list.sort", name: "list.sort(key fn returning objects with a raising @<)", recv: LIST5, items: LIST5_ITEMS, op: "r_.sort(|x| mkc_(x))", role: FRole::Id, expect: RecvExpect::Permutation, objects: true },
    RecvRow { f: "map.sort", name: "map.sort(key fn)", recv: MAP4, items: MAP4_ITEMS, op: "r_.sort(|k, v| ft_(v))", role: FRole::Key, expect: RecvExpect::Permutation, objects: false },
    RecvRow { f: "map.sort", name: "map.sort(key fn returning objects with a raising @<)", recv: MAP4, items: MAP4_ITEMS, op: "r_.sort(|k, v| mkc_(v))", role: FRole::Id, expect: RecvExpect::Permutation, objects: true },
    RecvRow { f: "list.transform", name: "list.transform(fn)", recv: LIST5, items: LIST5_ITEMS, op: "r_.transform(|x| ft_(x) * 10)", role: FRole::Id, expect: RecvExpect::Exact, objects: false },
    RecvRow { f: "list.retain", name: "list.retain(predicate)", recv: LIST5, items: LIST5_ITEMS, op: "r_.retain(|x| ft_(x) > 2)", role: FRole::Id, expect: RecvExpect::Exact, objects: false },
    RecvRow { f: "list.retain", name: "list.retain(value) with a raising @==", recv: OBJ4, items: OBJ4_ITEMS, op: "r_.retain(mkc_(4))", role: FRole::Id, expect: RecvExpect::Exact, objects: true },
    RecvRow { f: "list.resize_with", name: "list.resize_with(n, fn)", recv: LIST5, items: LIST5_ITEMS, op: "r_.resize_with(9, ft_)", role: FRole::Gen, expect: RecvExpect::Exact, objects: false },
    RecvRow { f: "list.extend", name: "list.extend(raising iterator)", recv: LIST5, items: LIST5_ITEMS, op: "r_.extend((10, 20, 30, 40).each(ft_))", role: FRole::Id, expect: RecvExpect::UnchangedOrExact, objects: false },
    RecvRow { f: "map.extend", name: "map.extend(raising iterator)", recv: MAP4, items: MAP4_ITEMS, op: "r_.extend((('w', 10), ('x', 20), ('y', 30), ('z', 40)).each(ft_))", role: FRole::Id, expect: RecvExpect::UnchangedOrExact, objects: false },
    RecvRow { f: "map.update", name: "map.update(key, fn)", recv: MAP4, items: MAP4_ITEMS, op: "r_.update('a', |v| ft_(v) + 100)", role: FRole::Id, expect: RecvExpect::UnchangedOrExact, objects: false },
    RecvRow { f: "map.update", name: "map.update(new key, default, fn)", recv: MAP4, items: MAP4_ITEMS, op: "r_.update('q', 7, |v| ft_(v) + 100)", role: FRole::Id, expect: RecvExpect::UnchangedOrExact, objects: false },
];

/// every `add_fn` of list.rs / map.rs: rows above, or why none is needed
const RECV_NOT_APPLICABLE: &[(&str, &str)] = &[
    ("list.clear", "no callback, cannot fail part-way"),
    ("list.contains", "does not mutate"),
    ("list.fill", "no callback"),
    ("list.first", "does not mutate"),
    ("list.get", "does not mutate"),
    ("list.insert", "single step"),
    ("list.is_empty", "does not mutate"),
    ("list.last", "does not mutate"),
    ("list.pop", "single step"),
    ("list.push", "single step"),
    ("list.remove", "single step"),
    ("list.resize", "no callback"),
    ("list.reverse", "no callback"),
    ("list.swap", "no callback"),
    ("list.to_tuple", "does not mutate"),
    ("map.clear", "no callback"),
    ("map.contains_key", "does not mutate"),
    ("map.get", "does not mutate"),
    ("map.get_index", "does not mutate"),
    ("map.get_meta", "does not mutate"),
    ("map.insert", "single step"),
    ("map.is_empty", "does not mutate"),
    ("map.keys", "does not mutate"),
    ("map.remove", "single step"),
    ("map.values", "does not mutate"),
    ("map.with_meta", "builds a new map"),
];

fn check_recv_table(cx: &mut Ctx) {
    let base = format!("{}/crates/runtime/src/core_lib", repo_root());
    let mut problems = vec![];
    let mut seen = std::collections::BTreeSet::new();
    for (file, module) in [("list.rs", "list"), ("map.rs", "map")] {
        match scan_names(&format!("{}/{}", base, file), "result.add_fn(\"", '"') {
            Some(v) if v.len() >= 10 => {
                for n in v {
                    seen.insert(format!("{}.{}", module, n));
                }
            }
            _ => problems.push(format!("{} not found or not in the expected shape", file)),
        }
    }
    let table: std::collections::BTreeSet<String> =
        RECV_ROWS.iter().map(|r| r.f.to_string()).chain(RECV_NOT_APPLICABLE.iter().map(|x| x.0.to_string())).collect();
    for f in &seen {
        if !table.contains(f) {
            problems.push(format!("{} is defined in the source but has no row (or n/a entry) in the receiver-state table", f));
        }
    }
    for f in &table {
        if !seen.contains(f) {
            problems.push(format!("the receiver-state table lists {} which the source no longer defines", f));
        }
    }
    if !problems.is_empty() {
        cx.fails += 1;
        cx.rep.violation(
            "K",
            "K:C04:receiver-state-table",
            json!({"problems": problems,
                   "note": "the table of receiver-mutating list/map functions no longer matches crates/runtime/src/core_lib/{list,map}.rs: a new function has no coverage of its state after a failed callback"}),
        );
    }
}

/// the documented state of the receiver when the fault function raises at its `k`-th call (0-based)
fn recv_expected(row: &RecvRow, k: usize) -> Vec<String> {
    let items: Vec<String> = row.items.iter().map(|s| s.to_string()).collect();
    match row.name {
        "list.transform(fn)" => {
            items.iter().enumerate().map(|(i, x)| if i < k { format!("{}", x.parse::<i64>().unwrap() * 10) } else { x.clone() }).collect()
        }
        "list.retain(predicate)" => {
            let mut v: Vec<String> = items[..k.min(items.len())].iter().filter(|x| x.parse::<i64>().unwrap() > 2).cloned().collect();
            v.extend(items[k.min(items.len())..].iter().cloned());
            v
        }
        "list.retain(value) with a raising @==" => {
            // one @== call per element: the elements decided so far (kept iff equal to k4), then the rest
            let mut v: Vec<String> = items[..k.min(items.len())].iter().filter(|x| *x == "k4").cloned().collect();
            v.extend(items[k.min(items.len())..].iter().cloned());
            v
        }
        "list.resize_with(n, fn)" => {
            let mut v = items.clone();
            for _ in 0..k {
                v.push("1".into());
            }
            v
        }
        "list.extend(raising iterator)" => {
            let mut v = items.clone();
            v.extend(["10", "20", "30", "40"][..k.min(4)].iter().map(|s| s.to_string()));
            v
        }
        "map.extend(raising iterator)" => {
            let mut v = items.clone();
            v.extend(["w: 10", "x: 20", "y: 30", "z: 40"][..k.min(4)].iter().map(|s| s.to_string()));
            v
        }
        "map.update(new key, default, fn)" => {
            let mut v = items.clone();
            v.push("q: 7".into());
            v
        }
        _ => items,
    }
}

fn split_display(s: &str) -> Option<Vec<String>> {
    let t = s.trim();
    let inner = t.strip_prefix('[').and_then(|x| x.strip_suffix(']')).or_else(|| t.strip_prefix('{').and_then(|x| x.strip_suffix('}')))?;
    if inner.is_empty() {
        return Some(vec![]);
    }
    Some(inner.split(", ").map(|x| x.to_string()).collect())
}

fn run_recv_family(cx: &mut Ctx, seed: u64, thorough: bool) {
    check_recv_table(cx);
    let mut n = 0u64;
    let mut fails = 0u64;
    let mut fired_rows: std::collections::BTreeMap<&'static str, u64> = Default::default();
    let mut rot = (seed as usize) % 5;
    let reps = if thorough { 6 } else { 1 };
    for row in RECV_ROWS {
        for k in 0..4usize {
            for in_function in [false, true] {
                for _ in 0..reps {
                    rot += 1;
                    let fault = FAULTS[rot % FAULTS.len()];
                    // the fault function (roles as in the iterator sweep)
                    let (params, ret) = match row.role {
                        FRole::Gen => ("||", "1"),
                        _ => ("|x|", "x"),
                    };
                    let mut s = String::from("nul_ = null\nk1_ = |a| a\nmkE_ = ||\n  @type: 'K0'\n  @display: || 'k0'\nhits_ = []\n");
                    s.push_str(&format!(
                        "ft_ = {}\n  hits_.push 0\n  if (size hits_) == {}\n    print '#HIT'\n    {}\n  {}\n",
                        params,
                        k + 1,
                        fault.stmt(),
                        ret
                    ));
                    if row.objects {
                        s.push_str("mkc_ = |n|\n  n: n\n  @display: || 'k{self.n}'\n  @<: |o| ft_(self.n < o.n)\n  @>: |o| ft_(self.n > o.n)\n  @==: |o| ft_(self.n == o.n)\n");
                    }
                    s.push_str(&format!("r_ = {}\nal_ = r_\nprint '#S'\n", row.recv));
                    let body = format!("z_ = {}\nprint '#DONE'\n", row.op);
                    if in_function {
                        // the receiver reaches the mutating call through a parameter: a third alias
                        s.push_str(&format!("run_ = |r_|\n  z_ = {}\n  print '#DONE'\n  0\ntry\n  z2_ = run_(r_)\ncatch e_\n  print '#C {{type e_}} {{e_}}'\nfinally\n  print '#F'\n", row.op));
                    } else {
                        s.push_str("try\n");
                        for l in body.lines() {
                            s.push_str(&format!("  {}\n", l));
                        }
                        s.push_str("catch e_\n  print '#C {type e_} {e_}'\nfinally\n  print '#F'\n");
                    }
                    s.push_str("print '#R {r_}'\nprint '#A {al_}'\nprint '#N {size r_}'\n");
                    n += 1;
                    let (so, r) = run_real(&s);
                    let key = format!("recv row={} k={} fault={:?} in_function={}", row.name, k, fault, in_function);
                    let lines: Vec<&str> = so.split('\n').filter(|l| !l.is_empty()).collect();
                    let fired = lines.iter().any(|l| *l == "#HIT");
                    cx.rep.case(&key, fired);
                    if !fired {
                        cx.rep.bump("recv_family=fault_point_not_reached");
                        // the operation completed: nothing to check here (the generated families cover normal runs)
                        continue;
                    }
                    cx.rep.bump("recv_family=fired");
                    *fired_rows.entry(row.name).or_insert(0) += 1;
                    let why: Option<String> = (|| {
                        if let Err(p) = &r {
                            return Some(format!("panic: {}", p));
                        }
                        if let Some(j) = lines.iter().find(|l| !l.starts_with('#')) {
                            return Some(format!("output that is not a marker line: {:?}", j));
                        }
                        let pos = lines.iter().position(|l| *l == "#HIT").unwrap();
                        let after = &lines[pos + 1..];
                        let exp_c = format!("#C {}", fault.expected());
                        if after.len() != 5 || after[0] != exp_c || after[1] != "#F" {
                            return Some(format!("expected [{:?}, \"#F\", #R, #A, #N] after the fault point, got {:?}", exp_c, after));
                        }
                        let rr = after[2].strip_prefix("#R ")?.to_string();
                        let aa = after[3].strip_prefix("#A ").unwrap_or("?").to_string();
                        if rr != aa {
                            return Some(format!("the receiver and its alias differ: {:?} vs {:?}", rr, aa));
                        }
                        let got = match split_display(&rr) {
                            Some(v) => v,
                            None => return Some(format!("receiver is displayed as {:?}", rr)),
                        };
                        if after[4] != format!("#N {}", got.len()) {
                            return Some(format!("size {:?} does not match the displayed receiver {:?}", after[4], rr));
                        }
                        let orig: Vec<String> = row.items.iter().map(|x| x.to_string()).collect();
                        let exact = recv_expected(row, k);
                        let same_multiset = |a: &Vec<String>, b: &Vec<String>| {
                            let mut x = a.clone();
                            let mut y = b.clone();
                            x.sort();
                            y.sort();
                            x == y
                        };
                        let ok = match row.expect {
                            RecvExpect::Permutation => same_multiset(&got, &orig),
                            RecvExpect::Exact => got == exact,
                            RecvExpect::UnchangedOrExact => got == orig || got == exact,
                        };
                        if !ok {
                            return Some(format!(
                                "after the caught error the receiver holds {:?}; it held {:?} before the call{}",
                                got,
                                orig,
                                match row.expect {
                                    RecvExpect::Permutation => " (entries were lost or invented by a reordering operation)".to_string(),
                                    _ => format!(", the completed effects explain {:?}", exact),
                                }
                            ));
                        }
                        None
                    })();
                    if let Some(why) = why {
                        fails += 1;
                        cx.fails += 1;
                        if fails <= 5 {
                            cx.rep.violation(
                                "D",
                                "C04:receiver-state-after-caught-error",
                                json!({"case": key, "source": s, "impl": format!("{} || {:?}", lines.join(" | "), r), "why": why,
                                       "note": "a core-library function that mutates its receiver failed part-way through a callback/comparison; after the catch the receiver (or an alias) does not hold what the completed effects explain, or the handler / finally did not run"}),
                            );
                        }
                    }
                }
            }
        }
    }
    let silent: Vec<&str> = RECV_ROWS.iter().map(|r| r.name).filter(|nm| fired_rows.get(nm).copied().unwrap_or(0) == 0).collect();
    cx.rep.extra.insert("receiver_state_family".into(), json!({"cases": n, "failures": fails, "fired_per_row": fired_rows, "rows_never_fired": silent}));
    if !silent.is_empty() {
        cx.fails += 1;
        cx.rep.violation("K", "K:C04:receiver-state-coverage", json!({"rows_never_fired": silent, "note": "no case reached the fault point of these rows (templates need adjusting)"}));
    }
}

// ------------------------------------------------------------------------------------ (L) long-lived adaptor instance
//
// "The handler receives the error that was raised" — at EVERY one of many caught callback errors on
// ONE adaptor instance (each instance owns a spawned VM; whatever a failed callback leaves behind on
// it accumulates). For every callback position of the sweep table (TK::Base rows) one instance is
// advanced 260 times with `try it_.next() catch`, the callback raising every time.

const LONG_LIVED: &[(&str, &str, FRole)] = &[
    ("each", "(1..=400).each(ft_)", FRole::Id),
    ("each", "(1..=400).each(ft_).enumerate()", FRole::Id),
    ("each", "(1..=400).zip((1..=400).each(ft_))", FRole::Id),
    ("keep", "(1..=400).keep(ft_)", FRole::True),
    ("take", "(1..=400).take(ft_)", FRole::True),
    ("intersperse", "(1..=400).intersperse(ft_)", FRole::Sep),
    ("generate", "iterator.generate(ft_)", FRole::Gen),
    ("generate", "iterator.generate(ft_, 400)", FRole::Gen),
];

fn run_long_lived(cx: &mut Ctx) {
    // every callback position of the sweep table has a long-lived row
    let base_fns: std::collections::BTreeSet<&str> = TPLS.iter().filter(|t| matches!(t.kind, TK::Base(_))).map(|t| t.f).collect();
    let have: std::collections::BTreeSet<&str> = LONG_LIVED.iter().map(|x| x.0).collect();
    let missing: Vec<&&str> = base_fns.iter().filter(|f| !have.contains(**f)).collect();
    if !missing.is_empty() {
        cx.fails += 1;
        cx.rep.violation("K", "K:C04:long-lived-table", json!({"missing": missing, "note": "a callback adaptor of the sweep table has no long-lived-instance row"}));
    }
    let faults = [FaultV::Str, FaultV::Num, FaultV::Obj, FaultV::RtIndex, FaultV::List];
    let mut n = 0u64;
    let mut fails = 0u64;
    let mut sustained: std::collections::BTreeMap<&'static str, u64> = Default::default();
    for (ri, (f, expr, role)) in LONG_LIVED.iter().enumerate() {
        for (fi, fault) in faults.iter().enumerate() {
            if (ri + fi) % 2 == 1 && fi > 1 {
                continue;
            }
            // every second call raises (the others succeed), or every call raises
            for every in [1usize, 2] {
                let (params, ret) = match role {
                    FRole::Gen => ("||", "1"),
                    FRole::Sep => ("||", "0"),
                    FRole::True => ("|x|", "true"),
                    _ => ("|x|", "x"),
                };
                let mut s = String::from("nul_ = null\nk1_ = |a| a\nmkE_ = ||\n  @type: 'K0'\n  @display: || 'k0'\nhits_ = [0]\n");
                s.push_str(&format!("ft_ = {}\n  hits_[0] += 1\n  if hits_[0] % {} == 0\n    {}\n  {}\n", params, every, fault.stmt(), ret));
                s.push_str(&format!("it_ = {}\nn_ = 0\nbad_ = 0\nfor i_ in 0..260\n  try\n    z_ = it_.next()\n  catch e_\n    n_ += 1\n    if '{{type e_}} {{e_}}' != '{}'\n      bad_ += 1\n      if bad_ == 1\n        print '#BAD at error {{n_}}: {{type e_}} {{e_}}'\nprint '#N {{n_}} {{bad_}}'\n", expr, fault.expected().replace('\'', "\\'")));
                n += 1;
                let (so, r) = run_real(&s);
                let key = format!("long-lived {} fault={:?} every={}", expr, fault, every);
                let lines: Vec<&str> = so.split('\n').filter(|l| !l.is_empty()).collect();
                let last = lines.last().copied().unwrap_or("");
                let caught: u64 = last.strip_prefix("#N ").and_then(|x| x.split(' ').next()).and_then(|x| x.parse().ok()).unwrap_or(0);
                cx.rep.case(&key, caught >= 100);
                let bad = lines.iter().any(|l| l.starts_with("#BAD")) || !last.starts_with("#N ") || !last.ends_with(" 0") || !matches!(r, Ok(Ok(_)));
                if caught >= 100 {
                    *sustained.entry(f).or_insert(0) += 1;
                }
                if bad {
                    fails += 1;
                    cx.fails += 1;
                    if fails <= 4 {
                        cx.rep.violation(
                            "D",
                            "C04:handler-receives-the-raised-error:long-lived-adaptor",
                            json!({"case": key, "source": s, "impl": format!("{} || {:?}", lines.join(" | "), r),
                                   "expected": format!("every caught value is `{}`: no #BAD line, `#N <count> 0`", fault.expected()),
                                   "note": "one iterator adaptor instance advanced through many caught callback errors: at some iteration the handler received a different error than the one the callback raised"}),
                        );
                    }
                }
            }
        }
    }
    let silent: Vec<&str> = have.iter().filter(|f| sustained.get(**f).copied().unwrap_or(0) == 0).copied().collect();
    cx.rep.extra.insert("long_lived_adaptor_family".into(), json!({"cases": n, "failures": fails, "sustained_100_errors_per_function": sustained, "never_sustained": silent}));
    if !silent.is_empty() {
        cx.fails += 1;
        cx.rep.violation("K", "K:C04:long-lived-coverage", json!({"never_sustained": silent, "note": "no long-lived case of these adaptors got through 100 caught errors on one instance"}));
    }
}

// ------------------------------------------------------------------------------------ (G) catch selection grid, type checks on/off
//
// Catch selection is control flow, not an assertion: which catch block accepts a thrown value must
// be the same with `enable_type_checks(false)`. Thrown values × (catch argument, catch argument,
// final untyped catch), every argument form incl. map patterns with a pattern-level or entry-level
// type hint; the expected handler follows from the forms (first accepting one).

#[derive(Clone, Copy)]
struct GridVal {
    src: &'static str,
    ty: &'static str,
    /// data entries (key, type of value)
    entries: &'static [(&'static str, &'static str)],
    map_like: bool,
}

const GRID_VALS: &[GridVal] = &[
    GridVal { src: "'str'", ty: "String", entries: &[], map_like: false },
    GridVal { src: "42", ty: "Number", entries: &[], map_like: false },
    GridVal { src: "null", ty: "Null", entries: &[], map_like: false },
    GridVal { src: "true", ty: "Bool", entries: &[], map_like: false },
    GridVal { src: "[1]", ty: "List", entries: &[], map_like: false },
    GridVal { src: "(1, 2)", ty: "Tuple", entries: &[], map_like: false },
    GridVal { src: "{k0: 1}", ty: "Map", entries: &[("k0", "Number")], map_like: true },
    GridVal { src: "{k0: 'x'}", ty: "Map", entries: &[("k0", "String")], map_like: true },
    GridVal { src: "{k1: 2, k0: 1}", ty: "Map", entries: &[("k1", "Number"), ("k0", "Number")], map_like: true },
    GridVal { src: "{k0: 1, @type: 'K0'}", ty: "K0", entries: &[("k0", "Number")], map_like: true },
    GridVal { src: "{k0: 'x', k1: 1, @type: 'K1'}", ty: "K1", entries: &[("k0", "String"), ("k1", "Number")], map_like: true },
];

#[derive(Clone, Copy)]
struct GridArg {
    src: &'static str,
    ty: Option<&'static str>,
    /// map pattern: (key, entry type hint)
    keys: Option<&'static [(&'static str, Option<&'static str>)]>,
}

const GRID_ARGS: &[GridArg] = &[
    GridArg { src: "e_: String", ty: Some("String"), keys: None },
    GridArg { src: "e_: Number", ty: Some("Number"), keys: None },
    GridArg { src: "e_: Map", ty: Some("Map"), keys: None },
    GridArg { src: "e_: K0", ty: Some("K0"), keys: None },
    GridArg { src: "_: Bool", ty: Some("Bool"), keys: None },
    GridArg { src: "{k0 as a_}", ty: None, keys: Some(&[("k0", None)]) },
    GridArg { src: "{k1 as a_}", ty: None, keys: Some(&[("k1", None)]) },
    GridArg { src: "{k0 as a_}: Map", ty: Some("Map"), keys: Some(&[("k0", None)]) },
    GridArg { src: "{k0 as a_}: K0", ty: Some("K0"), keys: Some(&[("k0", None)]) },
    GridArg { src: "{k0 as a_}: K1", ty: Some("K1"), keys: Some(&[("k0", None)]) },
    GridArg { src: "{k0 as a_: Number}", ty: None, keys: Some(&[("k0", Some("Number"))]) },
    GridArg { src: "{k0 as a_: String, k1 as b_}", ty: None, keys: Some(&[("k0", Some("String")), ("k1", None)]) },
];

fn grid_accepts(a: &GridArg, v: &GridVal) -> bool {
    if let Some(t) = a.ty {
        if t != v.ty {
            return false;
        }
    }
    match a.keys {
        None => true,
        Some(ks) => {
            v.map_like
                && ks.iter().all(|(k, hint)| match v.entries.iter().find(|e| e.0 == *k) {
                    None => false,
                    Some((_, vt)) => hint.is_none_or(|h| h == *vt),
                })
        }
    }
}

fn run_real_opts(src: &str, type_checks: bool) -> (String, Result<Result<String, String>, String>) {
    let so = Capture::new();
    let se = Capture::new();
    let mut koto = Koto::with_settings(
        KotoSettings::default().with_stdout(so.clone()).with_stderr(se.clone()).with_execution_limit(std::time::Duration::from_secs(3)),
    );
    let r = kvh::catch(|| {
        let args = koto::CompileArgs {
            script: src,
            script_path: None,
            compiler_settings: koto::bytecode::CompilerSettings { enable_type_checks: type_checks, ..Default::default() },
        };
        match koto.compile_and_run(args) {
            Ok(v) => Ok(value_text(&v)),
            Err(e) => Err(e.to_string()),
        }
    });
    (so.text(), r)
}

fn run_catch_grid(cx: &mut Ctx) {
    let mut n = 0u64;
    let mut fails = 0u64;
    for (i1, a1) in GRID_ARGS.iter().enumerate() {
        for (i2, a2) in GRID_ARGS.iter().enumerate() {
            // one script per chain, all thrown values in turn (in a function, so that the pattern
            // variables are fresh each time)
            let mut s = String::from("sel_ = |v_|\n  try\n    throw v_\n");
            s.push_str(&format!("  catch {}\n    '#H0'\n  catch {}\n    '#H1'\n  catch e_\n    '#H2'\n", a1.src, a2.src));
            let mut exp = vec![];
            for v in GRID_VALS {
                s.push_str(&format!("print sel_({})\n", v.src));
                exp.push(if grid_accepts(a1, v) { "#H0" } else if grid_accepts(a2, v) { "#H1" } else { "#H2" });
            }
            for checks in [true, false] {
                n += 1;
                let (so, r) = run_real_opts(&s, checks);
                let got: Vec<&str> = so.split('\n').filter(|l| !l.is_empty()).collect();
                let key = format!("catch-grid a1={} a2={} type_checks={}", i1, i2, checks);
                cx.rep.case(&key, true);
                cx.rep.bump(&format!("catch_grid:type_checks={}", checks));
                if got != exp || !matches!(r, Ok(Ok(_))) {
                    fails += 1;
                    cx.fails += 1;
                    if fails <= 4 {
                        cx.rep.violation(
                            "D",
                            "C04:catch-selection-grid",
                            json!({"case": key, "catch_arguments": [a1.src, a2.src], "enable_type_checks": checks, "source": s,
                                   "impl": format!("{} || {:?}", got.join(" "), r), "expected": exp.join(" "),
                                   "thrown_values": GRID_VALS.iter().map(|v| v.src).collect::<Vec<_>>(),
                                   "note": "the error did not reach the first catch block whose argument accepts it (catch selection is control flow: it must not depend on enable_type_checks)"}),
                        );
                    }
                }
            }
        }
    }
    cx.rep.extra.insert("catch_selection_grid".into(), json!({"runs": n, "failures": fails, "chains": GRID_ARGS.len() * GRID_ARGS.len(), "thrown_values": GRID_VALS.len()}));
}

// ------------------------------------------------------------------------------------ AST

#[derive(Clone, Debug, PartialEq)]
enum Lit {
    Null,
    Bool(bool),
    Int(i64),
    Str(u32),
    /// map literal `{k<a>: i, …}`
    Rec(Vec<(u32, i64)>),
}

#[derive(Clone, Debug, PartialEq)]
enum Ty {
    Null,
    Bool,
    Number,
    String,
    List,
    Map,
    Obj(u32),
    /// not a type: the map pattern `{k<a> as v<x>, k<b> as v<x+1>, …}` of a catch argument
    Keys(Vec<u32>),
}

impl Ty {
    fn name(&self) -> String {
        match self {
            Ty::Null => "Null".into(),
            Ty::Bool => "Bool".into(),
            Ty::Number => "Number".into(),
            Ty::String => "String".into(),
            Ty::List => "List".into(),
            Ty::Map => "Map".into(),
            Ty::Obj(c) => format!("K{}", c),
            Ty::Keys(ks) => format!("keys:{}", ks.iter().map(|k| k.to_string()).collect::<Vec<_>>().join(",")),
        }
    }
    fn parse(s: &str) -> Option<Ty> {
        Some(match s {
            "Null" => Ty::Null,
            "Bool" => Ty::Bool,
            "Number" => Ty::Number,
            "String" => Ty::String,
            "List" => Ty::List,
            "Map" => Ty::Map,
            _ if s.starts_with("keys:") => Ty::Keys(s[5..].split(',').filter_map(|k| k.parse().ok()).collect()),
            _ => Ty::Obj(s.strip_prefix('K')?.parse().ok()?),
        })
    }
}

#[derive(Clone, Copy, Debug, PartialEq)]
enum Op {
    Add,
    Lt,
    Ge,
}

#[derive(Clone, Copy, Debug, PartialEq)]
enum NatKind {
    Each,
    Keep,
    Fold,
    Sort,
}

#[derive(Clone, Copy, Debug, PartialEq)]
enum FaultKind {
    Idx,
    Typ,
    Asrt,
    Args,
    Key,
}

#[derive(Clone, Debug, PartialEq)]
enum E {
    Lit(Lit),
    Var(u32),
    GVar(u32),
    Assign(u32, Box<E>),
    Emit(u32, Option<Box<E>>),
    /// `print "#<tag> [{e1}|{e2}|…]"`: an interpolated string whose holes are expressions
    EmitI(u32, Vec<E>),
    MkList(Vec<E>),
    MkObj(u32),
    Index(Box<E>, Box<E>),
    Push(Box<E>, Box<E>),
    SetIdx(Box<E>, Box<E>, Box<E>),
    Bin(Op, Box<E>, Box<E>),
    Call(u32, Vec<E>),
    Native(NatKind, u32, Box<E>),
    Throw(Box<E>),
    Fault(FaultKind),
    Seq(Vec<E>),
    If(Box<E>, Box<E>, Box<E>),
    ForL(u32, Box<E>, Box<E>),
    ForG(u32, u32, Vec<E>, Box<E>),
    Brk,
    /// `break <e>` (the enclosing loop is rendered in value position)
    BrkV(Box<E>),
    Cont,
    Ret(Box<E>),
    Try(Box<E>, Vec<(Option<Ty>, u32, E)>, Option<Box<E>>),
}

#[derive(Clone, Debug, PartialEq)]
struct Def {
    is_gen: bool,
    nparams: u32,
    nlocals: u32,
    body: E,
    segs: Vec<(E, E)>,
    tail: E,
}

#[derive(Clone, Debug, PartialEq, Default)]
struct Cls {
    add: Option<u32>,
    lt: Option<u32>,
    /// `@display: || f<k>(self)`: a script function that may raise
    disp: Option<u32>,
}

#[derive(Clone, Debug, PartialEq)]
struct Prog {
    nglobals: u32,
    classes: Vec<Cls>,
    defs: Vec<Def>,
    main_locals: u32,
    main: E,
}

#[derive(Clone, Debug, Default)]
struct RenderOpts {
    /// render `x = f()` directly (the F-C04-2 shape); default goes through a fresh temporary
    direct_call_assign: bool,
}

// ---------------------------------------------------------------- S-expression output

fn sx_list(head: &str, items: &[String]) -> String {
    let mut s = format!("({}", head);
    for i in items {
        s.push(' ');
        s.push_str(i);
    }
    s.push(')');
    s
}

impl Lit {
    fn sexp(&self) -> String {
        match self {
            Lit::Null => "null".into(),
            Lit::Bool(b) => format!("b{}", *b as u8),
            Lit::Int(i) => format!("i{}", i),
            Lit::Str(n) => format!("s{}", n),
            Lit::Rec(fs) => sx_list("rec", &fs.iter().map(|(k, v)| format!("({} {})", k, v)).collect::<Vec<_>>()),
        }
    }
}

impl E {
    fn sexp(&self) -> String {
        match self {
            E::Lit(l) => format!("(lit {})", l.sexp()),
            E::Var(x) => format!("(var {})", x),
            E::GVar(x) => format!("(gvar {})", x),
            E::Assign(x, e) => format!("(assign {} {})", x, e.sexp()),
            E::Emit(t, None) => format!("(emit {})", t),
            E::Emit(t, Some(e)) => format!("(emit {} {})", t, e.sexp()),
            E::EmitI(t, es) => {
                let mut v = vec![t.to_string()];
                v.extend(es.iter().map(|e| e.sexp()));
                sx_list("emiti", &v)
            }
            E::MkList(es) => sx_list("mklist", &es.iter().map(|e| e.sexp()).collect::<Vec<_>>()),
            E::MkObj(c) => format!("(mkobj {})", c),
            E::Index(l, i) => format!("(index {} {})", l.sexp(), i.sexp()),
            E::Push(l, e) => format!("(push {} {})", l.sexp(), e.sexp()),
            E::SetIdx(l, i, e) => format!("(setidx {} {} {})", l.sexp(), i.sexp(), e.sexp()),
            E::Bin(op, a, b) => format!(
                "(bin {} {} {})",
                match op {
                    Op::Add => "add",
                    Op::Lt => "lt",
                    Op::Ge => "ge",
                },
                a.sexp(),
                b.sexp()
            ),
            E::Call(f, es) => {
                let mut v = vec![f.to_string()];
                v.extend(es.iter().map(|e| e.sexp()));
                sx_list("call", &v)
            }
            E::Native(k, f, l) => format!(
                "(native {} {} {})",
                match k {
                    NatKind::Each => "each",
                    NatKind::Keep => "keep",
                    NatKind::Fold => "fold",
                    NatKind::Sort => "sort",
                },
                f,
                l.sexp()
            ),
            E::Throw(e) => format!("(throw {})", e.sexp()),
            E::Fault(k) => format!(
                "(fault {})",
                match k {
                    FaultKind::Idx => "idx",
                    FaultKind::Typ => "typ",
                    FaultKind::Asrt => "asrt",
                    FaultKind::Args => "args",
                    FaultKind::Key => "key",
                }
            ),
            E::Seq(es) => sx_list("seq", &es.iter().map(|e| e.sexp()).collect::<Vec<_>>()),
            E::If(c, t, e) => format!("(if {} {} {})", c.sexp(), t.sexp(), e.sexp()),
            E::ForL(x, l, b) => format!("(forl {} {} {})", x, l.sexp(), b.sexp()),
            E::ForG(x, g, es, b) => format!(
                "(forg {} {} {} {})",
                x,
                g,
                sx_list("args", &es.iter().map(|e| e.sexp()).collect::<Vec<_>>()),
                b.sexp()
            ),
            E::Brk => "(brk)".into(),
            E::BrkV(e) => format!("(brkv {})", e.sexp()),
            E::Cont => "(cont)".into(),
            E::Ret(e) => format!("(ret {})", e.sexp()),
            E::Try(b, cs, f) => {
                let cs: Vec<String> = cs
                    .iter()
                    .map(|(t, x, e)| format!("(c {} {} {})", t.as_ref().map(|t| t.name()).unwrap_or("any".into()), x, e.sexp()))
                    .collect();
                let mut s = format!("(try {} {}", b.sexp(), sx_list("catches", &cs));
                if let Some(f) = f {
                    s.push_str(&format!(" (fin {})", f.sexp()));
                }
                s.push(')');
                s
            }
        }
    }
}

fn opt_sx(x: &Option<u32>) -> String {
    x.map(|v| v.to_string()).unwrap_or("-".into())
}

impl Prog {
    fn sexp(&self) -> String {
        let cls: Vec<String> = self.classes.iter().map(|c| format!("(cls {} {} {})", opt_sx(&c.add), opt_sx(&c.lt), opt_sx(&c.disp))).collect();
        let defs: Vec<String> = self
            .defs
            .iter()
            .map(|d| {
                if d.is_gen {
                    let segs: Vec<String> = d.segs.iter().map(|(p, y)| format!("(seg {} {})", p.sexp(), y.sexp())).collect();
                    format!("(gen {} {} {} {})", d.nparams, d.nlocals, sx_list("segs", &segs), d.tail.sexp())
                } else {
                    format!("(fn {} {} {})", d.nparams, d.nlocals, d.body.sexp())
                }
            })
            .collect();
        format!(
            "(prog (globals {}) {} {} (main {} {}))",
            self.nglobals,
            sx_list("classes", &cls),
            sx_list("defs", &defs),
            self.main_locals,
            self.main.sexp()
        )
    }
}

// ---------------------------------------------------------------- S-expression input

#[derive(Clone, Debug)]
enum Sx {
    A(String),
    L(Vec<Sx>),
}

fn sx_parse(s: &str) -> Option<Sx> {
    let mut stack: Vec<Vec<Sx>> = vec![vec![]];
    let mut cur = String::new();
    let flush = |cur: &mut String, stack: &mut Vec<Vec<Sx>>| {
        if !cur.is_empty() {
            stack.last_mut().unwrap().push(Sx::A(std::mem::take(cur)));
        }
    };
    for c in s.chars() {
        match c {
            '(' => {
                flush(&mut cur, &mut stack);
                stack.push(vec![]);
            }
            ')' => {
                flush(&mut cur, &mut stack);
                let l = stack.pop()?;
                stack.last_mut()?.push(Sx::L(l));
            }
            ' ' | '\t' | '\n' | '\r' => flush(&mut cur, &mut stack),
            c => cur.push(c),
        }
    }
    flush(&mut cur, &mut stack);
    if stack.len() != 1 {
        return None;
    }
    let mut top = stack.pop()?;
    if top.len() == 1 { top.pop() } else { None }
}

impl Sx {
    fn atom(&self) -> Option<&str> {
        match self {
            Sx::A(s) => Some(s),
            _ => None,
        }
    }
    fn num(&self) -> Option<u32> {
        self.atom()?.parse().ok()
    }
    fn list(&self) -> Option<&[Sx]> {
        match self {
            Sx::L(v) => Some(v),
            _ => None,
        }
    }
    fn head(&self) -> Option<(&str, &[Sx])> {
        let l = self.list()?;
        Some((l.first()?.atom()?, &l[1..]))
    }
}

fn parse_lit(s: &str) -> Option<Lit> {
    Some(match s {
        "null" => Lit::Null,
        "b0" => Lit::Bool(false),
        "b1" => Lit::Bool(true),
        _ if s.starts_with('i') => Lit::Int(s[1..].parse().ok()?),
        _ if s.starts_with('s') => Lit::Str(s[1..].parse().ok()?),
        _ => return None,
    })
}

fn parse_es(xs: &[Sx]) -> Option<Vec<E>> {
    xs.iter().map(parse_e).collect()
}

fn bx(x: &Sx) -> Option<Box<E>> {
    parse_e(x).map(Box::new)
}

fn parse_e(x: &Sx) -> Option<E> {
    let (h, a) = x.head()?;
    Some(match (h, a.len()) {
        ("lit", 1) => match &a[0] {
            Sx::A(s) => E::Lit(parse_lit(s)?),
            l => {
                let (h, fs) = l.head()?;
                if h != "rec" {
                    return None;
                }
                let mut v = vec![];
                for f in fs {
                    let p = f.list()?;
                    v.push((p.first()?.num()?, p.get(1)?.atom()?.parse().ok()?));
                }
                E::Lit(Lit::Rec(v))
            }
        },
        ("var", 1) => E::Var(a[0].num()?),
        ("gvar", 1) => E::GVar(a[0].num()?),
        ("assign", 2) => E::Assign(a[0].num()?, bx(&a[1])?),
        ("emit", 1) => E::Emit(a[0].num()?, None),
        ("emit", 2) => E::Emit(a[0].num()?, Some(bx(&a[1])?)),
        ("emiti", n) if n >= 1 => E::EmitI(a[0].num()?, parse_es(&a[1..])?),
        ("mklist", _) => E::MkList(parse_es(a)?),
        ("mkobj", 1) => E::MkObj(a[0].num()?),
        ("index", 2) => E::Index(bx(&a[0])?, bx(&a[1])?),
        ("push", 2) => E::Push(bx(&a[0])?, bx(&a[1])?),
        ("setidx", 3) => E::SetIdx(bx(&a[0])?, bx(&a[1])?, bx(&a[2])?),
        ("bin", 3) => E::Bin(
            match a[0].atom()? {
                "add" => Op::Add,
                "lt" => Op::Lt,
                "ge" => Op::Ge,
                _ => return None,
            },
            bx(&a[1])?,
            bx(&a[2])?,
        ),
        ("call", n) if n >= 1 => E::Call(a[0].num()?, parse_es(&a[1..])?),
        ("native", 3) => E::Native(
            match a[0].atom()? {
                "each" => NatKind::Each,
                "keep" => NatKind::Keep,
                "fold" => NatKind::Fold,
                "sort" => NatKind::Sort,
                _ => return None,
            },
            a[1].num()?,
            bx(&a[2])?,
        ),
        ("throw", 1) => E::Throw(bx(&a[0])?),
        ("fault", 1) => E::Fault(match a[0].atom()? {
            "idx" => FaultKind::Idx,
            "typ" => FaultKind::Typ,
            "asrt" => FaultKind::Asrt,
            "args" => FaultKind::Args,
            "key" => FaultKind::Key,
            _ => return None,
        }),
        ("seq", _) => E::Seq(parse_es(a)?),
        ("if", 3) => E::If(bx(&a[0])?, bx(&a[1])?, bx(&a[2])?),
        ("forl", 3) => E::ForL(a[0].num()?, bx(&a[1])?, bx(&a[2])?),
        ("forg", 4) => {
            let (h2, args) = a[2].head()?;
            if h2 != "args" {
                return None;
            }
            E::ForG(a[0].num()?, a[1].num()?, parse_es(args)?, bx(&a[3])?)
        }
        ("brk", 0) => E::Brk,
        ("brkv", 1) => E::BrkV(bx(&a[0])?),
        ("cont", 0) => E::Cont,
        ("ret", 1) => E::Ret(bx(&a[0])?),
        ("try", n) if n == 2 || n == 3 => {
            let (h2, cs) = a[1].head()?;
            if h2 != "catches" {
                return None;
            }
            let mut out = vec![];
            for c in cs {
                let (hc, ca) = c.head()?;
                if hc != "c" || ca.len() != 3 {
                    return None;
                }
                let ty = match ca[0].atom()? {
                    "any" => None,
                    t => Some(Ty::parse(t)?),
                };
                out.push((ty, ca[1].num()?, parse_e(&ca[2])?));
            }
            let fin = if n == 3 {
                let (hf, fa) = a[2].head()?;
                if hf != "fin" || fa.len() != 1 {
                    return None;
                }
                Some(bx(&fa[0])?)
            } else {
                None
            };
            E::Try(bx(&a[0])?, out, fin)
        }
        _ => return None,
    })
}

fn parse_opt(x: &Sx) -> Option<Option<u32>> {
    match x.atom()? {
        "-" => Some(None),
        s => Some(Some(s.parse().ok()?)),
    }
}

impl Prog {
    fn parse(s: &str) -> Option<Prog> {
        let x = sx_parse(s.trim())?;
        let (h, a) = x.head()?;
        if h != "prog" || a.len() != 4 {
            return None;
        }
        let (_, g) = a[0].head()?;
        let (_, cs) = a[1].head()?;
        let (_, ds) = a[2].head()?;
        let (_, m) = a[3].head()?;
        let mut classes = vec![];
        for c in cs {
            let (_, ca) = c.head()?;
            classes.push(Cls { add: parse_opt(&ca[0])?, lt: parse_opt(&ca[1])?, disp: match ca.get(2) { Some(d) => parse_opt(d)?, None => None } });
        }
        let mut defs = vec![];
        for d in ds {
            let (hd, da) = d.head()?;
            match hd {
                "fn" => defs.push(Def {
                    is_gen: false,
                    nparams: da[0].num()?,
                    nlocals: da[1].num()?,
                    body: parse_e(&da[2])?,
                    segs: vec![],
                    tail: E::Seq(vec![]),
                }),
                "gen" => {
                    let (_, sa) = da[2].head()?;
                    let mut segs = vec![];
                    for s in sa {
                        let (_, x) = s.head()?;
                        segs.push((parse_e(&x[0])?, parse_e(&x[1])?));
                    }
                    defs.push(Def {
                        is_gen: true,
                        nparams: da[0].num()?,
                        nlocals: da[1].num()?,
                        body: E::Seq(vec![]),
                        segs,
                        tail: parse_e(&da[3])?,
                    })
                }
                _ => return None,
            }
        }
        Some(Prog { nglobals: g[0].num()?, classes, defs, main_locals: m[0].num()?, main: parse_e(&m[1])? })
    }
}

// ---------------------------------------------------------------- rendering to Koto

/// a `break` that belongs to the loop whose body is `e` (not to a loop nested inside it)
fn direct_brk(e: &E) -> bool {
    match e {
        E::Brk | E::BrkV(_) => true,
        E::Seq(es) => es.iter().any(direct_brk),
        E::If(_, t, el) => direct_brk(t) || direct_brk(el),
        E::Try(b, cs, f) => direct_brk(b) || cs.iter().any(|c| direct_brk(&c.2)) || f.as_ref().is_some_and(|f| direct_brk(f)),
        E::Assign(_, r) => direct_brk(r),
        _ => false,
    }
}

/// locals read somewhere in the expression
fn reads_of(e: &E, out: &mut std::collections::HashSet<u32>) {
    fn go(e: &E, out: &mut std::collections::HashSet<u32>) {
        match e {
            E::Var(x) => {
                out.insert(*x);
            }
            E::Lit(_) | E::GVar(_) | E::MkObj(_) | E::Emit(_, None) | E::Brk | E::Cont | E::Fault(_) => {}
            E::Assign(_, x) | E::Emit(_, Some(x)) | E::Ret(x) | E::Throw(x) | E::Native(_, _, x) | E::BrkV(x) => go(x, out),
            E::MkList(es) | E::Seq(es) | E::Call(_, es) | E::EmitI(_, es) => es.iter().for_each(|x| go(x, out)),
            E::Index(a, b) | E::Push(a, b) | E::Bin(_, a, b) | E::ForL(_, a, b) => {
                go(a, out);
                go(b, out)
            }
            E::SetIdx(a, b, c) | E::If(a, b, c) => {
                go(a, out);
                go(b, out);
                go(c, out)
            }
            E::ForG(_, _, es, b) => {
                es.iter().for_each(|x| go(x, out));
                go(b, out)
            }
            E::Try(b, cs, f) => {
                go(b, out);
                cs.iter().for_each(|c| go(&c.2, out));
                if let Some(f) = f {
                    go(f, out)
                }
            }
        }
    }
    go(e, out)
}

/// a `break <value>` that belongs to the loop whose body is `e`: that loop must be in value position
fn direct_brkv(e: &E) -> bool {
    match e {
        E::BrkV(_) => true,
        E::Seq(es) => es.iter().any(direct_brkv),
        E::If(_, t, el) => direct_brkv(t) || direct_brkv(el),
        E::Try(b, cs, f) => direct_brkv(b) || cs.iter().any(|c| direct_brkv(&c.2)) || f.as_ref().is_some_and(|f| direct_brkv(f)),
        E::Assign(_, r) => direct_brkv(r),
        _ => false,
    }
}

struct Renderer<'a> {
    out: String,
    tmp: u32,
    /// catch variables of the definition being rendered that nothing reads
    unread: std::collections::HashSet<u32>,
    brk_val: Vec<bool>,
    opts: &'a RenderOpts,
}

impl<'a> Renderer<'a> {
    fn line(&mut self, ind: usize, s: &str) {
        for _ in 0..ind {
            self.out.push_str("  ");
        }
        self.out.push_str(s);
        self.out.push('\n');
    }

    fn lit(l: &Lit) -> String {
        match l {
            Lit::Null => "null".into(),
            Lit::Bool(b) => format!("{}", b),
            Lit::Int(i) => {
                if *i < 0 {
                    format!("(0 - {})", -i)
                } else {
                    format!("{}", i)
                }
            }
            Lit::Str(n) => format!("'str{}'", n),
            Lit::Rec(fs) => format!("{{{}}}", fs.iter().map(|(k, v)| format!("k{}: {}", k, v)).collect::<Vec<_>>().join(", ")),
        }
    }

    /// single-line rendering, if the expression has one
    fn inline(&self, e: &E) -> Option<String> {
        Some(match e {
            E::Lit(l) => Self::lit(l),
            E::Var(x) => format!("v{}", x),
            E::GVar(k) => format!("g{}", k),
            E::MkList(es) => {
                let v: Option<Vec<String>> = es.iter().map(|e| self.inline(e)).collect();
                format!("[{}]", v?.join(", "))
            }
            E::MkObj(c) => format!("mk{}_()", c),
            E::Index(l, i) => format!("{}[{}]", self.inline_operand(l)?, self.inline(i)?),
            E::Push(l, v) => format!("{}.push({})", self.inline_operand(l)?, self.inline(v)?),
            E::Bin(op, a, b) => format!(
                "({} {} {})",
                self.inline(a)?,
                match op {
                    Op::Add => "+",
                    Op::Lt => "<",
                    Op::Ge => ">=",
                },
                self.inline(b)?
            ),
            E::Call(f, es) => {
                let v: Option<Vec<String>> = es.iter().map(|e| self.inline(e)).collect();
                format!("f{}({})", f, v?.join(", "))
            }
            // value-position conditional: `(if c then a else b)`; a branch may be a `throw`
            E::If(c, t, el) => format!("(if {} then {} else {})", self.inline(c)?, self.inline(t)?, self.inline(el)?),
            E::Seq(es) if es.len() == 1 => self.inline(&es[0])?,
            E::Throw(v) => format!("throw {}", self.inline(v)?),
            E::Native(k, f, l) => {
                let l = self.inline_operand(l)?;
                match k {
                    NatKind::Each => format!("{}.each(f{}).to_list()", l, f),
                    NatKind::Keep => format!("{}.keep(f{}).to_list()", l, f),
                    NatKind::Fold => format!("{}.fold(0, f{})", l, f),
                    NatKind::Sort => format!("{}.sort(f{})", l, f),
                }
            }
            _ => return None,
        })
    }

    fn inline_operand(&self, e: &E) -> Option<String> {
        self.inline(e)
    }

    /// render an expression that must be inline; anything else is hoisted into a temporary
    fn hoist(&mut self, ind: usize, e: &E) -> String {
        if let Some(s) = self.inline(e) {
            return s;
        }
        self.tmp += 1;
        let t = format!("h{}_", self.tmp);
        self.assign_to(ind, &t, e);
        t
    }

    /// `<name> = <e>` where e may be multi-line
    fn assign_to(&mut self, ind: usize, name: &str, e: &E) {
        let prefer_block = matches!(e, E::If(..)) && {
            self.tmp += 1;
            self.tmp % 2 == 0
        };
        if prefer_block {
        } else if let Some(s) = self.inline(e) {
            self.line(ind, &format!("{} = {}", name, s));
            return;
        }
        match e {
            E::If(c, t, el) => {
                let c = self.hoist(ind, c);
                self.tmp += 1;
                match self.tmp % 3 {
                    0 => {
                        self.line(ind, &format!("{} = if {}", name, c));
                        self.block(ind + 1, t);
                        self.line(ind, "else");
                        self.block(ind + 1, el);
                    }
                    1 => {
                        self.line(ind, &format!("{} = switch", name));
                        self.line(ind + 1, &format!("{} then", c));
                        self.block(ind + 2, t);
                        self.line(ind + 1, "else");
                        self.block(ind + 2, el);
                    }
                    _ => {
                        // the condition is truthy/falsy, `match` compares: normalise to a Bool first
                        self.line(ind, &format!("{} = match (if {} then true else false)", name, c));
                        self.line(ind + 1, "true then");
                        self.block(ind + 2, t);
                        self.line(ind + 1, "else");
                        self.block(ind + 2, el);
                    }
                }
            }
            E::Try(..) => {
                self.try_(ind, &format!("{} = try", name), e);
            }
            other => {
                // general fallback: a conditional that is always taken
                self.line(ind, &format!("{} = if true", name));
                self.block(ind + 1, other);
                self.line(ind, "else");
                self.line(ind + 1, "null");
            }
        }
    }

    fn try_(&mut self, ind: usize, head: &str, e: &E) {
        if let E::Try(b, cs, f) = e {
            self.line(ind, head);
            self.block(ind + 1, b);
            for (ty, x, body) in cs {
                // a catch variable that nothing reads is written `_` (the model binds it, nobody looks)
                let name = if self.unread.contains(x) { "_".to_string() } else { format!("v{}", x) };
                match ty {
                    Some(Ty::Keys(ks)) => {
                        let ents: Vec<String> = ks.iter().enumerate().map(|(i, k)| format!("k{} as v{}", k, x + i as u32)).collect();
                        self.line(ind, &format!("catch {{{}}}", ents.join(", ")))
                    }
                    Some(t) => self.line(ind, &format!("catch {}: {}", name, t.name())),
                    None => self.line(ind, &format!("catch {}", name)),
                }
                self.block(ind + 1, body);
            }
            if let Some(f) = f {
                self.line(ind, "finally");
                self.block(ind + 1, f);
            }
        }
    }

    fn block(&mut self, ind: usize, e: &E) {
        match e {
            E::Seq(es) if es.is_empty() => self.line(ind, "null"),
            E::Seq(es) => {
                for x in es {
                    self.stmt(ind, x);
                }
            }
            other => self.stmt(ind, other),
        }
    }

    /// Every other loop that contains a `break` of its own is rendered in value position
    /// (`lv<k>_ = for …`, the temporary is never read) so that its breaks can carry a value: the
    /// compiler clears the catch points of the try blocks a break leaves *after* evaluating the value.
    fn loop_head(&mut self, body: &E) -> String {
        self.tmp += 1;
        let use_val = direct_brkv(body) || (direct_brk(body) && self.tmp % 2 == 0);
        self.brk_val.push(use_val);
        if use_val { format!("lv{}_ = ", self.tmp) } else { String::new() }
    }

    fn is_call_tail(e: &E) -> bool {
        matches!(e, E::Call(..) | E::Try(..) | E::If(..) | E::Seq(..))
    }

    fn stmt(&mut self, ind: usize, e: &E) {
        match e {
            E::Assign(x, rhs)
                if matches!(&**rhs, E::Bin(Op::Add, a, b) if **a == E::Var(*x) && matches!(**b, E::If(..) | E::Var(_) | E::Lit(Lit::Int(_))) && self.inline(b).is_some()) && {
                    self.tmp += 1;
                    self.tmp % 2 == 0
                } =>
            {
                // `v += e` for `v = v + e`
                if let E::Bin(_, _, b) = &**rhs {
                    let b = self.inline(b).unwrap();
                    self.line(ind, &format!("v{} += {}", x, b));
                }
            }
            E::Assign(x, rhs) => {
                if Self::is_call_tail(rhs) && !self.opts.direct_call_assign {
                    // never let a call's result register be an observable local (shape of F-C04-2)
                    self.tmp += 1;
                    let t = format!("r{}_", self.tmp);
                    self.assign_to(ind, &t, rhs);
                    self.line(ind, &format!("v{} = {}", x, t));
                } else {
                    self.assign_to(ind, &format!("v{}", x), rhs);
                }
            }
            E::Emit(t, None) => self.line(ind, &format!("print '#{}'", t)),
            E::Emit(t, Some(a)) => {
                let name = match &**a {
                    E::Var(x) => format!("v{}", x),
                    E::GVar(k) => format!("g{}", k),
                    other => {
                        self.tmp += 1;
                        let n = format!("h{}_", self.tmp);
                        self.assign_to(ind, &n, other);
                        n
                    }
                };
                self.line(ind, &format!("print '#{} {{type {}}} {{{}}}'", t, name, name));
            }
            E::EmitI(t, es) => {
                let holes: Vec<String> = es.iter().map(|e| format!("{{{}}}", self.hoist(ind, e))).collect();
                self.line(ind, &format!("print \"#{} [{}]\"", t, holes.join("|")));
            }
            E::SetIdx(l, i, v) => {
                let l = self.hoist(ind, l);
                let i = self.hoist(ind, i);
                let v = self.hoist(ind, v);
                self.line(ind, &format!("{}[{}] = {}", l, i, v));
            }
            E::Throw(v) => {
                let v = self.hoist(ind, v);
                self.line(ind, &format!("throw {}", v));
            }
            E::Fault(k) => match k {
                FaultKind::Idx => self.line(ind, "z_ = (1, 2)[5]"),
                FaultKind::Typ => self.line(ind, "z_ = 1 + 'a'"),
                FaultKind::Asrt => self.line(ind, "assert false"),
                FaultKind::Args => self.line(ind, "k1_()"),
                FaultKind::Key => self.line(ind, "z_ = nul_.foo"),
            },
            E::Seq(_) => {
                // a nested block in statement position
                self.line(ind, "if true");
                self.block(ind + 1, e);
            }
            E::If(c, t, el) => {
                let c = self.hoist(ind, c);
                self.line(ind, &format!("if {}", c));
                self.block(ind + 1, t);
                self.line(ind, "else");
                self.block(ind + 1, el);
            }
            E::ForL(x, l, b) => {
                let l = self.hoist(ind, l);
                let head = self.loop_head(b);
                self.line(ind, &format!("{}for v{} in {}", head, x, l));
                self.block(ind + 1, b);
                self.brk_val.pop();
            }
            E::ForG(x, g, es, b) => {
                let v: Vec<String> = es.iter().map(|e| self.hoist(ind, e)).collect();
                let head = self.loop_head(b);
                self.line(ind, &format!("{}for v{} in f{}({})", head, x, g, v.join(", ")));
                self.block(ind + 1, b);
                self.brk_val.pop();
            }
            E::Brk => {
                // `break` with a value when the enclosing loop is rendered in value position
                if self.brk_val.last() == Some(&true) {
                    self.line(ind, "break 7")
                } else {
                    self.line(ind, "break")
                }
            }
            E::BrkV(v) => {
                let v = self.hoist(ind, v);
                self.line(ind, &format!("break {}", v));
            }
            E::Cont => self.line(ind, "continue"),
            E::Ret(v) => {
                let v = self.hoist(ind, v);
                self.line(ind, &format!("return {}", v));
            }
            E::Try(..) => self.try_(ind, "try", e),
            E::Call(..) => {
                let s = self.hoist(ind, e);
                self.line(ind, &s);
            }
            E::Native(..) | E::Push(..) | E::Index(..) | E::Bin(..) | E::MkList(..) | E::MkObj(..) => {
                match self.inline(e) {
                    Some(s) => self.line(ind, &format!("z_ = {}", s)),
                    None => {
                        let s = self.hoist_deep(ind, e);
                        self.line(ind, &format!("z_ = {}", s));
                    }
                }
            }
            E::Lit(_) | E::Var(_) | E::GVar(_) => {
                let s = self.inline(e).unwrap();
                self.line(ind, &s);
            }
        }
    }

    /// operands that are not inline-able are never generated; fall back to hoisting the whole thing
    fn hoist_deep(&mut self, ind: usize, e: &E) -> String {
        match e {
            E::Index(l, i) => {
                let l = self.hoist(ind, l);
                let i = self.hoist(ind, i);
                format!("{}[{}]", l, i)
            }
            E::Push(l, v) => {
                let l = self.hoist(ind, l);
                let v = self.hoist(ind, v);
                format!("{}.push({})", l, v)
            }
            E::Bin(op, a, b) => {
                let a = self.hoist(ind, a);
                let b = self.hoist(ind, b);
                format!(
                    "({} {} {})",
                    a,
                    match op {
                        Op::Add => "+",
                        Op::Lt => "<",
                        Op::Ge => ">=",
                    },
                    b
                )
            }
            _ => "null".into(),
        }
    }
}

/// catch variables (plain or typed, not map patterns) that no expression of the definition reads
fn unread_catch_vars(bodies: &[&E]) -> std::collections::HashSet<u32> {
    let mut reads = Default::default();
    for b in bodies {
        reads_of(b, &mut reads);
    }
    let mut out = std::collections::HashSet::new();
    fn go(e: &E, reads: &std::collections::HashSet<u32>, out: &mut std::collections::HashSet<u32>) {
        if let E::Try(_, cs, _) = e {
            for (ty, x, _) in cs {
                if !matches!(ty, Some(Ty::Keys(_))) && !reads.contains(x) {
                    out.insert(*x);
                }
            }
        }
    }
    for b in bodies {
        collect_tries(b, &mut |t| go(t, &reads, &mut out));
    }
    out
}

fn collect_tries(e: &E, f: &mut dyn FnMut(&E)) {
    match e {
        E::Lit(_) | E::Var(_) | E::GVar(_) | E::MkObj(_) | E::Emit(_, None) | E::Brk | E::Cont | E::Fault(_) => {}
        E::Assign(_, x) | E::Emit(_, Some(x)) | E::Ret(x) | E::Throw(x) | E::Native(_, _, x) | E::BrkV(x) => collect_tries(x, f),
        E::MkList(es) | E::Seq(es) | E::Call(_, es) | E::EmitI(_, es) => es.iter().for_each(|x| collect_tries(x, f)),
        E::Index(a, b) | E::Push(a, b) | E::Bin(_, a, b) | E::ForL(_, a, b) => {
            collect_tries(a, f);
            collect_tries(b, f)
        }
        E::SetIdx(a, b, c) | E::If(a, b, c) => {
            collect_tries(a, f);
            collect_tries(b, f);
            collect_tries(c, f)
        }
        E::ForG(_, _, es, b) => {
            es.iter().for_each(|x| collect_tries(x, f));
            collect_tries(b, f)
        }
        E::Try(b, cs, fin) => {
            f(e);
            collect_tries(b, f);
            cs.iter().for_each(|c| collect_tries(&c.2, f));
            if let Some(x) = fin {
                collect_tries(x, f)
            }
        }
    }
}

impl Prog {
    fn class_has_ops(&self, c: usize) -> bool {
        self.classes[c].add.is_some() || self.classes[c].lt.is_some() || self.classes[c].disp.is_some()
    }

    fn render_class(&self, r: &mut Renderer, c: usize) {
        r.line(0, &format!("mk{}_ = ||", c));
        r.line(1, &format!("@type: 'K{}'", c));
        match self.classes[c].disp {
            Some(f) => r.line(1, &format!("@display: || f{}(self)", f)),
            None => r.line(1, &format!("@display: || 'k{}'", c)),
        }
        if let Some(f) = self.classes[c].add {
            r.line(1, &format!("@+: |o| f{}(self, o)", f));
        }
        if let Some(f) = self.classes[c].lt {
            r.line(1, &format!("@<: |o| f{}(self, o)", f));
        }
    }

    fn render(&self, opts: &RenderOpts) -> String {
        let mut r = Renderer { out: String::new(), tmp: 0, unread: Default::default(), brk_val: vec![], opts };
        r.line(0, "nul_ = null");
        r.line(0, "k1_ = |a| a");
        for g in 0..self.nglobals {
            r.line(0, &format!("g{} = []", g));
        }
        for c in 0..self.classes.len() {
            if !self.class_has_ops(c) {
                self.render_class(&mut r, c);
            }
        }
        for (i, d) in self.defs.iter().enumerate() {
            let params: Vec<String> = (0..d.nparams).map(|p| format!("v{}", p)).collect();
            r.line(0, &format!("f{} = |{}|", i, params.join(", ")));
            r.unread = unread_catch_vars(&d.bodies());
            if d.is_gen {
                for (pre, y) in &d.segs {
                    if !matches!(pre, E::Seq(es) if es.is_empty()) {
                        r.block(1, pre);
                    }
                    let y = r.hoist(1, y);
                    r.line(1, &format!("yield {}", y));
                }
                if !matches!(&d.tail, E::Seq(es) if es.is_empty()) {
                    r.block(1, &d.tail);
                }
            } else {
                r.block(1, &d.body);
            }
        }
        for c in 0..self.classes.len() {
            if self.class_has_ops(c) {
                self.render_class(&mut r, c);
            }
        }
        r.unread = unread_catch_vars(&[&self.main]);
        r.block(0, &self.main);
        r.out
    }
}

// ---------------------------------------------------------------- shape rules (generation filter)

/// Lexical context while walking one function body.
#[derive(Clone, Copy, Default)]
struct Shape {
    in_try_body: bool,        // some enclosing try *body* in this frame
    loops_since_try_body: u32, // loops opened inside the innermost enclosing try body / finally-try region
    in_loop: bool,
    fin_region: bool,         // inside the body or a catch block of a try that has `finally`
    loops_since_fin: u32,
    no_escape: bool,          // inside a catch block of a try that has `finally`: errors must not escape
    in_fn: bool,              // plain function (return allowed)
}

fn can_fail(e: &E) -> bool {
    match e {
        E::Lit(_) | E::Var(_) | E::GVar(_) | E::MkObj(_) | E::Emit(_, None) | E::Brk | E::Cont => false,
        E::Assign(_, e) | E::Emit(_, Some(e)) | E::Ret(e) | E::BrkV(e) => can_fail(e),
        E::MkList(es) | E::Seq(es) | E::EmitI(_, es) => es.iter().any(can_fail),
        E::Push(l, v) => !matches!(**l, E::Var(_) | E::GVar(_)) || can_fail(v),
        E::If(c, t, el) => can_fail(c) || can_fail(t) || can_fail(el),
        E::ForL(_, l, b) => !matches!(**l, E::MkList(_)) || can_fail(l) || can_fail(b),
        E::Try(_, cs, f) => cs.iter().any(|(_, _, b)| can_fail(b)) || f.as_ref().is_some_and(|f| can_fail(f)),
        E::Index(..) | E::SetIdx(..) | E::Bin(..) | E::Call(..) | E::Native(..) | E::Throw(_) | E::Fault(_) | E::ForG(..) => true,
    }
}

fn shape_walk(e: &E, s: Shape) -> Option<&'static str> {
    let sub = |x: &E, s: Shape| shape_walk(x, s);
    match e {
        E::Lit(_) | E::Var(_) | E::GVar(_) | E::MkObj(_) | E::Emit(_, None) => None,
        E::Fault(_) => {
            if s.no_escape {
                Some("F-C04-1:error can escape a catch block of a try with finally")
            } else {
                None
            }
        }
        E::BrkV(v) if sub(v, s).is_some() => sub(v, s),
        E::Brk | E::Cont | E::BrkV(_) => {
            if !s.in_loop {
                Some("envelope:break/continue outside a loop")
            } else if s.fin_region && s.loops_since_fin == 0 {
                Some("F-C04-1:break/continue leaves a try with finally")
            } else {
                None
            }
        }
        E::Ret(v) => {
            if !s.in_fn {
                Some("envelope:return outside a function")
            } else if s.fin_region {
                Some("F-C04-1:return leaves a try with finally")
            } else {
                sub(v, s)
            }
        }
        E::Throw(v) => {
            if s.no_escape {
                Some("F-C04-1:error can escape a catch block of a try with finally")
            } else {
                sub(v, s)
            }
        }
        E::Index(..) | E::SetIdx(..) | E::Bin(..) | E::Call(..) | E::Native(..) | E::ForG(..) if s.no_escape => {
            Some("F-C04-1:error can escape a catch block of a try with finally")
        }
        E::Assign(_, x) | E::Emit(_, Some(x)) => sub(x, s),
        E::MkList(es) | E::Seq(es) | E::Call(_, es) | E::EmitI(_, es) => es.iter().find_map(|x| sub(x, s)),
        E::Index(a, b) | E::Push(a, b) | E::Bin(_, a, b) => sub(a, s).or_else(|| sub(b, s)),
        E::SetIdx(a, b, c) => sub(a, s).or_else(|| sub(b, s)).or_else(|| sub(c, s)),
        E::Native(_, _, l) => sub(l, s),
        E::If(c, t, el) => sub(c, s).or_else(|| sub(t, s)).or_else(|| sub(el, s)),
        E::ForL(_, l, b) => {
            if s.no_escape && can_fail(e) {
                return Some("F-C04-1:error can escape a catch block of a try with finally");
            }
            let mut s2 = s;
            s2.in_loop = true;
            s2.loops_since_try_body += 1;
            s2.loops_since_fin += 1;
            sub(l, s).or_else(|| sub(b, s2))
        }
        E::ForG(_, _, es, b) => {
            let mut s2 = s;
            s2.in_loop = true;
            s2.loops_since_try_body += 1;
            s2.loops_since_fin += 1;
            es.iter().find_map(|x| sub(x, s)).or_else(|| sub(b, s2))
        }
        E::Try(b, cs, f) => {
            let has_fin = f.is_some();
            // body: a new try body; errors raised here are caught here (last catch is untyped)
            let mut sb = s;
            sb.in_try_body = true;
            sb.loops_since_try_body = 0;
            sb.no_escape = false;
            if has_fin {
                sb.fin_region = true;
                sb.loops_since_fin = 0;
            }
            let last_is_pattern = matches!(cs.last().map(|c| &c.0), Some(Some(Ty::Keys(_))));
            if cs.is_empty()
                || (cs.last().unwrap().0.is_some() && !last_is_pattern)
                || cs[..cs.len() - 1].iter().any(|c| c.0.is_none())
            {
                return Some("envelope:catch chain must be (typed | map pattern)* then one untyped or map pattern");
            }
            if last_is_pattern && (has_fin || s.no_escape) {
                // the pattern may not match: the error leaves this try (and skips its finally)
                return Some("F-C04-1:error can escape a catch block of a try with finally");
            }
            if let Some(w) = sub(b, sb) {
                return Some(w);
            }
            // catch blocks: the catch entry has been popped (TryEnd at catch start)
            let mut sc = s;
            if has_fin {
                sc.fin_region = true;
                sc.loops_since_fin = 0;
                sc.no_escape = true;
            }
            for (_, _, cb) in cs {
                if let Some(w) = sub(cb, sc) {
                    return Some(w);
                }
            }
            if let Some(f) = f {
                return sub(f, s);
            }
            None
        }
    }
}

#[derive(Default, Debug)]
struct Features {
    faults: u32,
    tries: u32,
    try_depth: u32,
    call_depth: u32,
    kinds: std::collections::BTreeSet<&'static str>,
}

fn feat_walk(e: &E, depth: u32, f: &mut Features) {
    let mut kids: Vec<&E> = vec![];
    match e {
        E::Lit(_) | E::Var(_) | E::GVar(_) | E::MkObj(_) | E::Emit(_, None) | E::Brk | E::Cont => {}
        E::Fault(k) => {
            f.faults += 1;
            f.kinds.insert(match k {
                FaultKind::Idx => "fault:index",
                FaultKind::Typ => "fault:type",
                FaultKind::Asrt => "fault:assert",
                FaultKind::Args => "fault:argcount",
                FaultKind::Key => "fault:access-on-null",
            });
        }
        E::Throw(v) => {
            f.faults += 1;
            f.kinds.insert(match &**v {
                E::Lit(Lit::Str(_)) => "throw:string",
                E::Lit(Lit::Int(_)) => "throw:number",
                E::Lit(Lit::Null) => "throw:null",
                E::Lit(Lit::Bool(_)) => "throw:bool",
                E::Lit(Lit::Rec(_)) => "throw:map",
                E::MkObj(_) => "throw:object",
                _ => "throw:variable",
            });
            kids.push(v);
        }
        E::Assign(_, x) | E::Emit(_, Some(x)) => kids.push(x),
        E::BrkV(x) => {
            f.kinds.insert("break-with-value");
            kids.push(x)
        }
        E::Ret(x) => {
            f.kinds.insert("return");
            kids.push(x)
        }
        E::MkList(es) | E::Seq(es) => kids.extend(es.iter()),
        E::EmitI(_, es) => {
            f.kinds.insert("interpolation-with-holes");
            kids.extend(es.iter())
        }
        E::Call(_, es) => {
            f.kinds.insert("call");
            kids.extend(es.iter())
        }
        E::Index(a, b) => {
            f.faults += 1;
            f.kinds.insert("dynamic:index");
            kids.push(a);
            kids.push(b);
        }
        E::Push(a, b) => {
            kids.push(a);
            kids.push(b);
        }
        E::Bin(op, a, b) => {
            f.faults += 1;
            f.kinds.insert(match op {
                Op::Add => "op:+",
                Op::Lt => "op:<",
                Op::Ge => "op:>=",
            });
            kids.push(a);
            kids.push(b);
        }
        E::SetIdx(a, b, c) => {
            f.faults += 1;
            f.kinds.insert("dynamic:index-assign");
            kids.push(a);
            kids.push(b);
            kids.push(c);
        }
        E::Native(k, _, l) => {
            f.kinds.insert(match k {
                NatKind::Each => "native:each",
                NatKind::Keep => "native:keep",
                NatKind::Fold => "native:fold",
                NatKind::Sort => "native:sort",
            });
            kids.push(l);
        }
        E::If(c, t, el) => {
            kids.push(c);
            kids.push(t);
            kids.push(el);
        }
        E::ForL(_, l, b) => {
            f.kinds.insert("for:list");
            kids.push(l);
            kids.push(b);
        }
        E::ForG(_, _, es, b) => {
            f.kinds.insert("for:generator");
            kids.extend(es.iter());
            kids.push(b);
        }
        E::Try(b, cs, fin) => {
            f.tries += 1;
            f.try_depth = f.try_depth.max(depth + 1);
            if cs.len() > 1 {
                f.kinds.insert("typed-catch");
            }
            if cs.iter().any(|c| matches!(c.0, Some(Ty::Keys(_)))) {
                f.kinds.insert("catch:map-pattern");
            }
            if matches!(cs.last().map(|c| &c.0), Some(Some(Ty::Keys(_)))) {
                f.kinds.insert("catch:map-pattern-last");
            }
            if fin.is_some() {
                f.kinds.insert("finally");
            }
            feat_walk(b, depth + 1, f);
            for (_, _, cb) in cs {
                feat_walk(cb, depth + 1, f);
            }
            if let Some(x) = fin {
                feat_walk(x, depth + 1, f);
            }
            return;
        }
    }
    for k in kids {
        feat_walk(k, depth, f);
    }
}

fn calls_of(e: &E, out: &mut Vec<u32>) {
    match e {
        E::Call(f, es) => {
            out.push(*f);
            es.iter().for_each(|x| calls_of(x, out));
        }
        E::Native(_, f, l) => {
            out.push(*f);
            calls_of(l, out);
        }
        E::ForG(_, g, es, b) => {
            out.push(*g);
            es.iter().for_each(|x| calls_of(x, out));
            calls_of(b, out);
        }
        E::Lit(_) | E::Var(_) | E::GVar(_) | E::MkObj(_) | E::Emit(_, None) | E::Brk | E::Cont | E::Fault(_) => {}
        E::Assign(_, x) | E::Emit(_, Some(x)) | E::Ret(x) | E::Throw(x) | E::BrkV(x) => calls_of(x, out),
        E::MkList(es) | E::Seq(es) | E::EmitI(_, es) => es.iter().for_each(|x| calls_of(x, out)),
        E::Index(a, b) | E::Push(a, b) | E::Bin(_, a, b) => {
            calls_of(a, out);
            calls_of(b, out);
        }
        E::SetIdx(a, b, c) => {
            calls_of(a, out);
            calls_of(b, out);
            calls_of(c, out);
        }
        E::If(a, b, c) => {
            calls_of(a, out);
            calls_of(b, out);
            calls_of(c, out);
        }
        E::ForL(_, l, b) => {
            calls_of(l, out);
            calls_of(b, out);
        }
        E::Try(b, cs, f) => {
            calls_of(b, out);
            cs.iter().for_each(|c| calls_of(&c.2, out));
            if let Some(f) = f {
                calls_of(f, out);
            }
        }
    }
}

fn has_node(e: &E, pred: &dyn Fn(&E) -> bool) -> bool {
    if pred(e) {
        return true;
    }
    match e {
        E::Lit(_) | E::Var(_) | E::GVar(_) | E::MkObj(_) | E::Emit(_, None) | E::Brk | E::Cont | E::Fault(_) => false,
        E::Assign(_, x) | E::Emit(_, Some(x)) | E::Ret(x) | E::Throw(x) | E::Native(_, _, x) | E::BrkV(x) => has_node(x, pred),
        E::MkList(es) | E::Seq(es) | E::Call(_, es) | E::EmitI(_, es) => es.iter().any(|x| has_node(x, pred)),
        E::Index(a, b) | E::Push(a, b) | E::Bin(_, a, b) | E::ForL(_, a, b) => has_node(a, pred) || has_node(b, pred),
        E::SetIdx(a, b, c) | E::If(a, b, c) => has_node(a, pred) || has_node(b, pred) || has_node(c, pred),
        E::ForG(_, _, es, b) => es.iter().any(|x| has_node(x, pred)) || has_node(b, pred),
        E::Try(b, cs, f) => {
            has_node(b, pred) || cs.iter().any(|c| has_node(&c.2, pred)) || f.as_ref().is_some_and(|f| has_node(f, pred))
        }
    }
}

impl Def {
    fn bodies(&self) -> Vec<&E> {
        if self.is_gen {
            let mut v: Vec<&E> = vec![];
            for (p, y) in &self.segs {
                v.push(p);
                v.push(y);
            }
            v.push(&self.tail);
            v
        } else {
            vec![&self.body]
        }
    }
}

impl Prog {
    fn all_bodies(&self) -> Vec<&E> {
        let mut v: Vec<&E> = self.defs.iter().flat_map(|d| d.bodies()).collect();
        v.push(&self.main);
        v
    }

    /// The documented shapes of the known findings (and the modelled envelope). A program with a
    /// shape violation is not generated; this is a generation filter, never a suppression rule.
    fn shape_violation(&self) -> Option<&'static str> {
        self.shape_violation_raw()
    }

    fn shape_violation_raw(&self) -> Option<&'static str> {
        for (i, d) in self.defs.iter().enumerate() {
            let s = Shape { in_fn: !d.is_gen, ..Default::default() };
            for b in d.bodies() {
                if let Some(w) = shape_walk(b, s) {
                    return Some(w);
                }
                // calls only to earlier definitions (termination, capture order)
                let mut cs = vec![];
                calls_of(b, &mut cs);
                if cs.iter().any(|c| *c as usize >= i) {
                    return Some("envelope:call to a later definition");
                }
                if has_node(b, &|e| matches!(e, E::MkObj(c) if (*c as usize) < self.classes.len() && self.class_has_ops(*c as usize))) {
                    return Some("envelope:object with operators created outside main");
                }
            }
        }
        for c in &self.classes {
            if let Some(f) = c.disp {
                if f as usize >= self.defs.len() || self.defs[f as usize].is_gen || self.defs[f as usize].nparams != 1 {
                    return Some("envelope:display function");
                }
            }
            for f in [c.add, c.lt].into_iter().flatten() {
                if f as usize >= self.defs.len() || self.defs[f as usize].is_gen || self.defs[f as usize].nparams != 2 {
                    return Some("envelope:operator function");
                }
            }
        }
        let mut cs = vec![];
        calls_of(&self.main, &mut cs);
        if cs.iter().any(|c| *c as usize >= self.defs.len()) {
            return Some("envelope:call to an undefined function");
        }
        shape_walk(&self.main, Shape::default())
    }

    fn call_depth_of(&self, e: &E, memo: &mut Vec<Option<u32>>) -> u32 {
        let mut cs = vec![];
        calls_of(e, &mut cs);
        let mut best = 0;
        for c in cs {
            let c = c as usize;
            if c >= self.defs.len() {
                continue;
            }
            let d = match memo[c] {
                Some(d) => d,
                None => {
                    memo[c] = Some(0);
                    let mut m = 0;
                    for b in self.defs[c].bodies() {
                        m = m.max(self.call_depth_of(b, memo));
                    }
                    memo[c] = Some(m + 1);
                    m + 1
                }
            };
            best = best.max(d);
        }
        best
    }

    fn features(&self) -> Features {
        let mut f = Features::default();
        for b in self.all_bodies() {
            feat_walk(b, 0, &mut f);
        }
        let mut memo = vec![None; self.defs.len()];
        f.call_depth = self.call_depth_of(&self.main, &mut memo);
        if self.defs.iter().any(|d| d.is_gen) {
            f.kinds.insert("generator-def");
        }
        if self.classes.iter().any(|c| c.add.is_some() || c.lt.is_some()) {
            f.kinds.insert("overloaded-operators");
        }
        if self.classes.iter().any(|c| c.disp.is_some()) {
            f.kinds.insert("script-@display-function");
        }
        f
    }

    fn size(&self) -> usize {
        self.sexp().len()
    }

    /// one-step simplifications (AST level)
    fn shrink_candidates(&self) -> Vec<Prog> {
        let mut out = vec![];
        // drop the last definition when nothing refers to it
        if let Some(last) = self.defs.len().checked_sub(1) {
            let mut cs = vec![];
            for b in self.all_bodies() {
                calls_of(b, &mut cs);
            }
            let used_by_class = self.classes.iter().any(|c| c.add == Some(last as u32) || c.lt == Some(last as u32));
            if !cs.iter().any(|c| *c as usize == last) && !used_by_class {
                let mut p = self.clone();
                p.defs.pop();
                out.push(p);
            }
        }
        // main
        for m in shrink_e(&self.main) {
            let mut p = self.clone();
            p.main = m;
            out.push(p);
        }
        for i in 0..self.defs.len() {
            let d = &self.defs[i];
            if d.is_gen {
                for (k, (pre, _)) in d.segs.iter().enumerate() {
                    for x in shrink_e(pre) {
                        let mut p = self.clone();
                        p.defs[i].segs[k].0 = x;
                        out.push(p);
                    }
                }
                if d.segs.len() > 1 {
                    let mut p = self.clone();
                    p.defs[i].segs.pop();
                    out.push(p);
                }
                for x in shrink_e(&d.tail) {
                    let mut p = self.clone();
                    p.defs[i].tail = x;
                    out.push(p);
                }
            } else {
                for x in shrink_e(&d.body) {
                    let mut p = self.clone();
                    p.defs[i].body = x;
                    out.push(p);
                }
            }
        }
        out
    }
}

fn shrink_e(e: &E) -> Vec<E> {
    let mut out = vec![];
    match e {
        E::Seq(es) => {
            // drop one element (not the last: it is the block's value; not an initialisation)
            for i in 0..es.len().saturating_sub(1) {
                let is_init = matches!(&es[i], E::Assign(_, r) if matches!(**r, E::Lit(_) | E::MkList(_) | E::MkObj(_)));
                if es.len() > 1 && !is_init {
                    let mut v = es.clone();
                    v.remove(i);
                    out.push(E::Seq(v));
                }
            }
            for i in 0..es.len() {
                for x in shrink_e(&es[i]) {
                    let mut v = es.clone();
                    v[i] = x;
                    out.push(E::Seq(v));
                }
            }
        }
        E::Try(b, cs, f) => {
            out.push((**b).clone());
            if f.is_some() {
                out.push(E::Try(b.clone(), cs.clone(), None));
            }
            if cs.len() > 1 {
                for i in 0..cs.len() - 1 {
                    let mut v = cs.clone();
                    v.remove(i);
                    out.push(E::Try(b.clone(), v, f.clone()));
                }
            }
            for x in shrink_e(b) {
                out.push(E::Try(Box::new(x), cs.clone(), f.clone()));
            }
            for i in 0..cs.len() {
                for x in shrink_e(&cs[i].2) {
                    let mut v = cs.clone();
                    v[i].2 = x;
                    out.push(E::Try(b.clone(), v, f.clone()));
                }
            }
            if let Some(fb) = f {
                for x in shrink_e(fb) {
                    out.push(E::Try(b.clone(), cs.clone(), Some(Box::new(x))));
                }
            }
        }
        E::If(c, t, el) => {
            out.push((**t).clone());
            out.push((**el).clone());
            for x in shrink_e(t) {
                out.push(E::If(c.clone(), Box::new(x), el.clone()));
            }
            for x in shrink_e(el) {
                out.push(E::If(c.clone(), t.clone(), Box::new(x)));
            }
        }
        E::ForL(x, l, b) => {
            if let E::MkList(items) = &**l {
                if items.len() > 1 {
                    let mut v = items.clone();
                    v.pop();
                    out.push(E::ForL(*x, Box::new(E::MkList(v)), b.clone()));
                }
            }
            for y in shrink_e(b) {
                out.push(E::ForL(*x, l.clone(), Box::new(y)));
            }
        }
        E::ForG(x, g, es, b) => {
            for y in shrink_e(b) {
                out.push(E::ForG(*x, *g, es.clone(), Box::new(y)));
            }
        }
        E::Assign(x, r) => {
            for y in shrink_e(r) {
                out.push(E::Assign(*x, Box::new(y)));
            }
        }
        _ => {}
    }
    out
}

// ------------------------------------------------------------------------------------ generator

#[derive(Clone, Copy, Debug, PartialEq)]
enum Role {
    General, // int parameters, returns an int
    Pred,    // 1 parameter, returns Bool (keep)
    Key,     // 1 parameter, returns an int (sort)
    Fold,    // 2 parameters, returns an int
    OpAny,   // (self, other) for @+ : returns an int
    OpBool,  // (self, other) for @< : returns Bool (sometimes not: planted fault for >=)
    TakesObj, // 1 parameter holding an object with operators
    Disp,     // `@display` function: 1 parameter (self), returns a string
    Gen,
}

/// Variable layout of every frame: params, then [int a, int b, list, catch1, catch2, loopvar]
#[derive(Clone, Debug)]
struct Frame {
    int_params: Vec<u32>,
    obj_param: Option<u32>,
    ia: u32,
    ib: u32,
    lst: u32,
    c1: u32,
    c2: u32,
    lv: u32,
    ign: u32, // catch variable that nothing reads (rendered `_`)
    pk: u32,  // first of three locals bound by map patterns
    objs: Vec<u32>, // main only: locals holding objects with operators
    dvars: Vec<u32>, // main only: [object, object, list] of the class with a `@display` function
    n: u32,
    is_main: bool,
    role: Role,
}

impl Frame {
    fn new(nparams: u32, role: Role, n_objs: u32) -> Frame {
        let base = nparams;
        let (int_params, obj_param) = match role {
            Role::OpAny | Role::OpBool => (vec![], Some(0)),
            Role::TakesObj => (vec![], Some(0)),
            Role::Disp => (vec![], None),
            _ => ((0..nparams).collect(), None),
        };
        Frame {
            int_params,
            obj_param,
            ia: base,
            ib: base + 1,
            lst: base + 2,
            c1: base + 3,
            c2: base + 4,
            lv: base + 5,
            ign: base + 6,
            pk: base + 7,
            objs: (0..n_objs).map(|i| base + 10 + i).collect(),
            dvars: vec![],
            n: base + 10 + n_objs,
            is_main: false,
            role,
        }
    }
    fn int_vars(&self) -> Vec<u32> {
        let mut v = self.int_params.clone();
        v.push(self.ia);
        v.push(self.ib);
        v
    }
}

struct DefInfo {
    role: Role,
    nparams: u32,
}

struct G<'a> {
    rng: &'a mut Rng,
    infos: Vec<DefInfo>,
    err_classes: Vec<u32>, // classes without operators (creatable anywhere)
    op_classes: Vec<u32>,  // classes with operators (objects live in main locals / TakesObj params)
    nglobals: u32,
    tag: u32,
    ctag: u32,
    ftag: u32,
    ttag: u32,
    fault_bias: u32,
}

#[derive(Clone, Copy)]
struct Cx {
    depth: u32,      // statement nesting budget
    try_depth: u32,
    in_loop_ok: bool, // break/continue allowed here (shape rules respected)
    ret_ok: bool,
    args_fault_ok: bool,
    no_escape: bool,
    avail: u32, // defs with index < avail may be called
}

impl<'a> G<'a> {
    fn next_tag(&mut self) -> u32 {
        self.tag += 1;
        self.tag
    }
    fn emit_plain(&mut self) -> E {
        let t = self.next_tag();
        E::Emit(t, None)
    }
    fn small_int(&mut self) -> E {
        E::Lit(Lit::Int(self.rng.range(0, 9)))
    }

    fn int_atom(&mut self, fr: &Frame) -> E {
        if self.rng.chance(1, 2) {
            self.small_int()
        } else {
            let v = fr.int_vars();
            E::Var(*self.rng.pick(&v))
        }
    }

    /// an int-valued expression that cannot fail
    fn int_safe(&mut self, fr: &Frame) -> E {
        self.int_atom(fr)
    }

    /// an int-valued expression, possibly with a planted dynamic fault
    fn int_expr(&mut self, fr: &Frame, cx: Cx, d: u32) -> E {
        if cx.no_escape || d == 0 {
            return self.int_atom(fr);
        }
        match self.rng.weighted(&[4, 3, 2, 2, 1, 2]) {
            5 => self.value_if(fr, cx, d - 1),
            0 => self.int_atom(fr),
            1 => E::Bin(Op::Add, Box::new(self.int_expr(fr, cx, d - 1)), Box::new(self.int_expr(fr, cx, d - 1))),
            2 => {
                // index into the frame's list (3 elements at creation; may have grown) — index 0..4
                let l = if self.rng.chance(2, 3) || self.nglobals == 0 {
                    E::Var(fr.lst)
                } else {
                    E::MkList(vec![E::Lit(Lit::Int(5)), E::Lit(Lit::Int(1)), E::Lit(Lit::Int(3))])
                };
                E::Index(Box::new(l), Box::new(E::Lit(Lit::Int(self.rng.range(0, 4)))))
            }
            3 => match self.pick_def(cx, |i| i.role == Role::General) {
                Some(f) => self.call_general(f, fr, cx, d - 1),
                None => self.int_atom(fr),
            },
            _ => {
                // type mismatch planted in an operator
                let bad = E::Lit(Lit::Str(self.rng.range(0, 3) as u32));
                if self.rng.chance(1, 2) {
                    E::Bin(Op::Add, Box::new(self.int_atom(fr)), Box::new(bad))
                } else {
                    E::Bin(Op::Add, Box::new(E::Lit(Lit::Null)), Box::new(self.int_atom(fr)))
                }
            }
        }
    }

    /// `if c then A else B` in value position where a branch may be a `throw` (of any value kind) or
    /// a failing expression: the error is raised while the value of an operand / right-hand side /
    /// argument / element / hole is being computed
    fn value_if(&mut self, fr: &Frame, cx: Cx, d: u32) -> E {
        let c = E::Bin(Op::Lt, Box::new(self.int_atom(fr)), Box::new(self.int_atom(fr)));
        let mut branch = |g: &mut Self| -> E {
            match g.rng.weighted(&[3, 3, 2]) {
                0 => g.int_atom(fr),
                1 => E::Throw(Box::new(g.throw_value(fr))),
                _ => g.int_expr(fr, cx, d.min(1)),
            }
        };
        let t = branch(self);
        let e = branch(self);
        E::If(Box::new(c), Box::new(E::Seq(vec![t])), Box::new(E::Seq(vec![e])))
    }

    /// the same with block branches (statements before the value / the throw)
    fn value_if_block(&mut self, fr: &Frame, cx: Cx) -> E {
        let c = E::Bin(Op::Lt, Box::new(self.int_atom(fr)), Box::new(self.int_atom(fr)));
        let mut c2 = cx;
        c2.depth = cx.depth.saturating_sub(1);
        let mut branch = |g: &mut Self| -> E {
            let tail = match g.rng.weighted(&[3, 3, 2]) {
                0 => g.int_atom(fr),
                1 => E::Throw(Box::new(g.throw_value(fr))),
                _ => g.fault(fr, cx),
            };
            g.block(fr, c2, 0, 2, Some(tail))
        };
        let t = branch(self);
        let e = branch(self);
        E::If(Box::new(c), Box::new(t), Box::new(e))
    }

    fn pick_def(&mut self, cx: Cx, pred: impl Fn(&DefInfo) -> bool) -> Option<u32> {
        let c: Vec<u32> = (0..cx.avail.min(self.infos.len() as u32)).filter(|i| pred(&self.infos[*i as usize])).collect();
        if c.is_empty() { None } else { Some(*self.rng.pick(&c)) }
    }

    fn call_general(&mut self, f: u32, fr: &Frame, cx: Cx, d: u32) -> E {
        let np = self.infos[f as usize].nparams;
        let args = (0..np).map(|_| self.int_expr(fr, cx, d.min(1))).collect();
        E::Call(f, args)
    }

    fn throw_value(&mut self, fr: &Frame) -> E {
        match self.rng.weighted(&[5, 2, 1, 1, 3, 1, 3]) {
            6 => E::Lit(self.rec_lit()),
            0 => E::Lit(Lit::Str(self.rng.range(0, 4) as u32)),
            1 => E::Lit(Lit::Int(self.rng.range(0, 99))),
            2 => E::Lit(Lit::Null),
            3 => E::Lit(Lit::Bool(self.rng.chance(1, 2))),
            4 => {
                if !self.err_classes.is_empty() {
                    E::MkObj(*self.rng.pick(&self.err_classes.clone()))
                } else {
                    E::Lit(Lit::Str(7))
                }
            }
            _ => E::Var(*self.rng.pick(&fr.int_vars())),
        }
    }

    /// a map literal over the key atoms k0..k2 (1–3 entries, source order random)
    fn rec_lit(&mut self) -> Lit {
        let mut ks: Vec<u32> = vec![0, 1, 2];
        let n = 1 + self.rng.below(3);
        while ks.len() > n {
            let i = self.rng.below(ks.len());
            ks.remove(i);
        }
        if self.rng.chance(1, 2) {
            ks.reverse();
        }
        Lit::Rec(ks.into_iter().map(|k| (k, self.rng.range(0, 9))).collect())
    }

    fn key_pattern(&mut self) -> Ty {
        let mut ks: Vec<u32> = vec![0, 1, 2];
        let n = 1 + self.rng.below(2);
        while ks.len() > n {
            let i = self.rng.below(ks.len());
            ks.remove(i);
        }
        if self.rng.chance(1, 2) {
            ks.reverse();
        }
        Ty::Keys(ks)
    }

    fn fault(&mut self, fr: &Frame, cx: Cx) -> E {
        loop {
            match self.rng.weighted(&[4, 2, 2, 2, 2, 2, 3]) {
                0 => return E::Throw(Box::new(self.throw_value(fr))),
                1 => return E::Fault(FaultKind::Idx),
                2 => return E::Fault(FaultKind::Typ),
                3 => return E::Fault(FaultKind::Asrt),
                4 => return E::Fault(FaultKind::Key),
                5 => {
                    if cx.args_fault_ok {
                        return E::Fault(FaultKind::Args);
                    }
                }
                _ => {
                    // dynamic: out-of-range index assignment / read on the frame's list
                    let i = self.rng.range(3, 7);
                    if self.rng.chance(1, 2) {
                        return E::SetIdx(Box::new(E::Var(fr.lst)), Box::new(E::Lit(Lit::Int(i))), Box::new(self.small_int()));
                    } else {
                        return E::Assign(fr.ia, Box::new(E::Index(Box::new(E::Var(fr.lst)), Box::new(E::Lit(Lit::Int(i))))));
                    }
                }
            }
        }
    }

    /// statements that observe the state
    fn observe(&mut self, fr: &Frame) -> E {
        let t = self.next_tag();
        let mut c: Vec<E> = fr.int_vars().into_iter().map(E::Var).collect();
        // the locals that map patterns bind: a pattern that fails part-way must leave them alone
        // (F-C04-11, repaired in 3d805f4)
        c.push(E::Var(fr.pk));
        c.push(E::Var(fr.pk + 1));
        c.push(E::Var(fr.lst));
        c.push(E::Var(fr.lst));
        for g in 0..self.nglobals {
            c.push(E::GVar(g));
            c.push(E::GVar(g));
        }
        let x = self.rng.pick(&c).clone();
        E::Emit(t, Some(Box::new(x)))
    }

    fn safe_stmt(&mut self, fr: &Frame) -> E {
        match self.rng.weighted(&[3, 3, 2, 2, 2]) {
            0 => {
                if self.rng.chance(1, 3) {
                    let t = self.next_tag();
                    let n = 1 + self.rng.below(2);
                    E::EmitI(t, (0..n).map(|_| self.int_atom(fr)).collect())
                } else {
                    self.emit_plain()
                }
            }
            1 => self.observe(fr),
            2 => {
                let v = if self.rng.chance(1, 2) { fr.ia } else { fr.ib };
                E::Assign(v, Box::new(self.int_safe(fr)))
            }
            3 => E::Push(Box::new(E::Var(fr.lst)), Box::new(self.int_safe(fr))),
            _ => {
                if self.nglobals > 0 {
                    let g = self.rng.below(self.nglobals as usize) as u32;
                    E::Push(Box::new(E::GVar(g)), Box::new(self.int_safe(fr)))
                } else {
                    self.emit_plain()
                }
            }
        }
    }

    fn block(&mut self, fr: &Frame, cx: Cx, min: usize, max: usize, value: Option<E>) -> E {
        let n = min + self.rng.below(max - min + 1);
        let mut v = vec![];
        for _ in 0..n {
            v.push(self.stmt(fr, cx));
        }
        if let Some(t) = value {
            v.push(t);
        }
        E::Seq(v)
    }

    fn catch_chain(&mut self, fr: &Frame, cx: Cx, value: bool, last_pattern_ok: bool) -> Vec<(Option<Ty>, u32, E)> {
        let n_typed = self.rng.weighted(&[5, 3, 2, 1]);
        let mut tys = vec![Ty::String, Ty::Number, Ty::Null, Ty::Bool, Ty::List];
        for c in self.err_classes.iter().chain(self.op_classes.iter()) {
            tys.push(Ty::Obj(*c));
            tys.push(Ty::Obj(*c));
        }
        tys.push(Ty::String);
        tys.push(Ty::Map);
        let mut out = vec![];
        for i in 0..=n_typed {
            // catch argument: id / typed id / `_` / `_: T` / map pattern (any position, also last
            // when `last_pattern_ok`: then the error may leave the try)
            let ty = if i == n_typed {
                if last_pattern_ok && self.rng.chance(1, 5) { Some(self.key_pattern()) } else { None }
            } else if self.rng.chance(1, 4) {
                Some(self.key_pattern())
            } else {
                Some(self.rng.pick(&tys).clone())
            };
            let is_pat = matches!(ty, Some(Ty::Keys(_)));
            let var = if is_pat {
                fr.pk
            } else if self.rng.chance(1, 5) {
                fr.ign
            } else if self.rng.chance(1, 2) {
                fr.c1
            } else {
                fr.c2
            };
            let ct = {
                self.ctag += 1;
                1000 + self.ctag
            };
            let mut body = if var == fr.ign {
                vec![E::Emit(ct, None)]
            } else {
                vec![E::Emit(ct, Some(Box::new(E::Var(var))))]
            };
            if let Some(Ty::Keys(ks)) = &ty {
                for i in 1..ks.len() as u32 {
                    body.push(E::Emit(ct, Some(Box::new(E::Var(var + i)))));
                }
            }
            let inner = self.block(fr, cx, 0, 2, None);
            if let E::Seq(es) = inner {
                body.extend(es);
            }
            if self.rng.chance(1, 3) {
                body.push(self.observe(fr));
            }
            if !cx.no_escape && var != fr.ign && self.rng.chance(1, 7) {
                // re-throw the caught value
                body.push(E::Throw(Box::new(E::Var(var))));
            }
            if value {
                body.push(self.int_safe(fr));
            }
            out.push((ty, var, E::Seq(body)));
        }
        out
    }

    fn try_stmt(&mut self, fr: &Frame, cx: Cx, value: bool) -> E {
        let has_fin = self.rng.chance(2, 5);
        let tt = {
            self.ttag += 1;
            3000 + self.ttag
        };
        // try body
        let mut cb = cx;
        cb.depth = cx.depth.saturating_sub(1);
        cb.try_depth = cx.try_depth + 1;
        // break/continue may leave the try body (F-C04-5 repaired in 0e9e81b) unless the try has finally (F-C04-1)
        if has_fin {
            cb.in_loop_ok = false;
        }
        cb.no_escape = false;
        if has_fin {
            cb.ret_ok = false; // F-C04-1
        }
        let mut body = vec![E::Emit(tt, None)];
        let force_fault = self.rng.chance(self.fault_bias, 10);
        let inner = self.block(fr, cb, 0, 3, None);
        if let E::Seq(es) = inner {
            body.extend(es);
        }
        if force_fault {
            let pos = 1 + self.rng.below(body.len());
            let f = self.faulty_stmt(fr, cb);
            body.insert(pos, f);
        }
        if cb.depth > 0 && self.rng.chance(1, 5) {
            // a loop inside this try block whose inner try leaves the loop from its CATCH or FINALLY
            // block (break / continue / break with value), then a failing statement that is still
            // inside this try block: it must reach this try's handler
            let snippet = self.loop_exit_from_handler(fr, cb);
            body.push(snippet);
            let f = self.faulty_stmt(fr, cb);
            body.push(f);
        }
        if value {
            let t = self.int_expr(fr, cb, 1);
            body.push(t);
        }
        // catch blocks
        let mut cc = cx;
        cc.depth = cx.depth.saturating_sub(1);
        cc.try_depth = cx.try_depth + 1;
        if has_fin {
            cc.ret_ok = false;
            cc.in_loop_ok = false;
            cc.no_escape = true;
        }
        let cs = self.catch_chain(fr, cc, value, !has_fin && !cx.no_escape);
        let fin = if has_fin {
            let ft = {
                self.ftag += 1;
                2000 + self.ftag
            };
            let mut cf = cx;
            cf.depth = cx.depth.saturating_sub(1);
            cf.try_depth = cx.try_depth + 1;
            let mut fb = vec![E::Emit(ft, None)];
            if let E::Seq(es) = self.block(fr, cf, 0, 2, None) {
                fb.extend(es);
            }
            if value {
                fb.push(self.int_safe(fr));
            }
            Some(Box::new(E::Seq(fb)))
        } else {
            None
        };
        E::Try(Box::new(E::Seq(body)), cs, fin)
    }

    fn loop_exit_from_handler(&mut self, fr: &Frame, cx: Cx) -> E {
        let n = 1 + self.rng.below(3);
        let items: Vec<E> = (0..n).map(|_| E::Lit(Lit::Int(self.rng.range(0, 4)))).collect();
        let exit = |g: &mut Self| -> E {
            match g.rng.below(4) {
                0 => E::Brk,
                1 => E::Cont,
                2 => E::BrkV(Box::new(g.int_atom(fr))),
                _ => {
                    let c = E::Bin(Op::Lt, Box::new(g.int_atom(fr)), Box::new(g.int_atom(fr)));
                    E::If(Box::new(c), Box::new(E::Seq(vec![E::Brk])), Box::new(E::Seq(vec![E::Cont])))
                }
            }
        };
        let t1 = self.next_tag();
        let t2 = self.next_tag();
        let ct = {
            self.ctag += 1;
            1000 + self.ctag
        };
        let inner_fault = self.fault(fr, Cx { args_fault_ok: false, ..cx });
        // 0: exit from the catch block; 1: exit from the finally block (catch block plain);
        // 2: the inner try is itself nested in another inner try whose catch block exits
        let inner = match self.rng.below(3) {
            0 => E::Try(
                Box::new(E::Seq(vec![E::Emit(t1, None), inner_fault])),
                vec![(None, fr.c1, E::Seq(vec![E::Emit(ct, Some(Box::new(E::Var(fr.c1)))), exit(self)]))],
                None,
            ),
            1 => {
                let ft = {
                    self.ftag += 1;
                    2000 + self.ftag
                };
                E::Try(
                    Box::new(E::Seq(vec![E::Emit(t1, None), inner_fault])),
                    vec![(None, fr.c1, E::Seq(vec![E::Emit(ct, Some(Box::new(E::Var(fr.c1))))]))],
                    Some(Box::new(E::Seq(vec![E::Emit(ft, None), exit(self)]))),
                )
            }
            _ => {
                let t3 = self.next_tag();
                let inner2 = E::Try(
                    Box::new(E::Seq(vec![E::Emit(t3, None), self.fault(fr, Cx { args_fault_ok: false, ..cx })])),
                    vec![(None, fr.c2, E::Seq(vec![E::Emit(ct, Some(Box::new(E::Var(fr.c2)))), E::Throw(Box::new(E::Var(fr.c2)))]))],
                    None,
                );
                E::Try(
                    Box::new(E::Seq(vec![E::Emit(t1, None), inner2])),
                    vec![(None, fr.c1, E::Seq(vec![E::Emit(ct, Some(Box::new(E::Var(fr.c1)))), exit(self)]))],
                    None,
                )
            }
        };
        E::ForL(fr.lv, Box::new(E::MkList(items)), Box::new(E::Seq(vec![inner, E::Emit(t2, Some(Box::new(E::Var(fr.lv))))])))
    }

    /// a statement that (very likely) raises, directly or in a callee / callback / generator / operator
    fn faulty_stmt(&mut self, fr: &Frame, cx: Cx) -> E {
        if cx.no_escape {
            return self.safe_stmt(fr);
        }
        match self.rng.weighted(&[5, 3, 3, 2, 2]) {
            0 => self.fault(fr, cx),
            1 => match self.pick_def(cx, |i| i.role == Role::General) {
                Some(f) => self.call_general(f, fr, cx, 1),
                None => self.fault(fr, cx),
            },
            2 => self.native_stmt(fr, cx).unwrap_or_else(|| self.fault(fr, cx)),
            3 => self.gen_loop(fr, cx).unwrap_or_else(|| self.fault(fr, cx)),
            _ => self.op_stmt(fr, cx).unwrap_or_else(|| self.fault(fr, cx)),
        }
    }

    fn native_stmt(&mut self, fr: &Frame, cx: Cx) -> Option<E> {
        let kind = *self.rng.pick(&[NatKind::Each, NatKind::Keep, NatKind::Fold, NatKind::Sort]);
        let role = match kind {
            NatKind::Each => Role::General,
            NatKind::Keep => Role::Pred,
            NatKind::Fold => Role::Fold,
            NatKind::Sort => Role::Key,
        };
        let f = self.pick_def(cx, |i| i.role == role && (role != Role::General || i.nparams == 1))?;
        let n = 1 + self.rng.below(4);
        let items: Vec<E> = (0..n).map(|_| E::Lit(Lit::Int(self.rng.range(0, 4)))).collect();
        if kind == NatKind::Sort {
            // sort the frame's own list in place (contents observable afterwards)
            let pre = E::Assign(fr.lst, Box::new(E::MkList(items)));
            let s = E::Native(kind, f, Box::new(E::Var(fr.lst)));
            return Some(E::Seq(vec![pre, s, self.observe_var(fr.lst)]));
        }
        let nat = E::Native(kind, f, Box::new(E::MkList(items)));
        Some(match kind {
            NatKind::Fold => E::Assign(fr.ib, Box::new(nat)),
            _ => E::Seq(vec![E::Assign(fr.lst, Box::new(nat)), self.observe_var(fr.lst)]),
        })
    }

    fn observe_var(&mut self, v: u32) -> E {
        let t = self.next_tag();
        E::Emit(t, Some(Box::new(E::Var(v))))
    }

    fn gen_loop(&mut self, fr: &Frame, cx: Cx) -> Option<E> {
        let g = self.pick_def(cx, |i| i.role == Role::Gen)?;
        let np = self.infos[g as usize].nparams;
        let args = (0..np).map(|_| self.int_atom(fr)).collect();
        let mut cb = cx;
        cb.depth = cx.depth.saturating_sub(1);
        cb.in_loop_ok = true;
        let t = self.next_tag();
        let mut body = vec![E::Emit(t, Some(Box::new(E::Var(fr.lv))))];
        if let E::Seq(es) = self.block(fr, cb, 0, 2, None) {
            body.extend(es);
        }
        Some(E::ForG(fr.lv, g, args, Box::new(E::Seq(body))))
    }

    fn op_stmt(&mut self, fr: &Frame, cx: Cx) -> Option<E> {
        let o = if fr.is_main && !fr.objs.is_empty() {
            *self.rng.pick(&fr.objs)
        } else if fr.role == Role::TakesObj {
            fr.obj_param?
        } else {
            // hand an object to a function that applies operators to it
            return None;
        };
        let _ = cx;
        let op = *self.rng.pick(&[Op::Add, Op::Lt, Op::Ge, Op::Ge]);
        let rhs = self.int_atom(fr);
        let e = E::Bin(op, Box::new(E::Var(o)), Box::new(rhs));
        Some(match op {
            Op::Add => E::Assign(fr.ia, Box::new(e)),
            _ => {
                let t1 = self.emit_plain();
                let t2 = self.emit_plain();
                E::If(Box::new(e), Box::new(E::Seq(vec![t1])), Box::new(E::Seq(vec![t2])))
            }
        })
    }

    fn stmt(&mut self, fr: &Frame, cx: Cx) -> E {
        if cx.no_escape {
            // inside a catch block of a try with finally: nothing may escape (F-C04-1 shape)
            if cx.depth > 0 && cx.try_depth < 3 && self.rng.chance(1, 4) {
                return self.try_stmt(fr, cx, false);
            }
            return self.safe_stmt(fr);
        }
        if fr.is_main && !fr.dvars.is_empty() && self.rng.chance(1, 6) {
            // print / interpolate an object with a script `@display`, alone or inside containers
            let t = self.next_tag();
            let v = *self.rng.pick(&fr.dvars);
            return match self.rng.below(3) {
                0 => E::Emit(t, Some(Box::new(E::Var(v)))),
                1 => E::EmitI(t, vec![E::Var(v), self.int_atom(fr)]),
                _ => E::EmitI(t, vec![self.int_expr(fr, cx, 1), E::MkList(vec![E::Var(fr.dvars[0]), E::Var(fr.dvars[2])])]),
            };
        }
        let w_try = if cx.depth > 0 && cx.try_depth < 3 { 5 } else { 0 };
        let w_nest = if cx.depth > 0 { 2 } else { 0 };
        let w_ctl = if cx.in_loop_ok || cx.ret_ok { 1 } else { 0 };
        match self.rng.weighted(&[8, 3, w_try, w_nest, w_nest, w_ctl, 2, 2, 1, 1, 1]) {
            0 => self.safe_stmt(fr),
            1 => self.faulty_stmt(fr, cx),
            2 => {
                if self.rng.chance(1, 4) {
                    let v = if self.rng.chance(1, 2) { fr.ia } else { fr.ib };
                    E::Assign(v, Box::new(self.try_stmt(fr, cx, true)))
                } else {
                    self.try_stmt(fr, cx, false)
                }
            }
            3 => {
                // conditional
                let c = E::Bin(Op::Lt, Box::new(self.int_atom(fr)), Box::new(self.int_atom(fr)));
                let mut c2 = cx;
                c2.depth -= 1;
                let t = self.block(fr, c2, 1, 2, None);
                let e = self.block(fr, c2, 0, 1, None);
                E::If(Box::new(c), Box::new(t), Box::new(e))
            }
            4 => {
                // loop over a literal list
                let n = 1 + self.rng.below(3);
                let items: Vec<E> = (0..n).map(|_| E::Lit(Lit::Int(self.rng.range(0, 4)))).collect();
                let mut c2 = cx;
                c2.depth -= 1;
                c2.in_loop_ok = true;
                let t = self.next_tag();
                let mut body = vec![E::Emit(t, Some(Box::new(E::Var(fr.lv))))];
                if let E::Seq(es) = self.block(fr, c2, 1, 3, None) {
                    body.extend(es);
                }
                E::ForL(fr.lv, Box::new(E::MkList(items)), Box::new(E::Seq(body)))
            }
            5 => {
                // control transfer, guarded so that the rest of the block stays reachable
                let c = E::Bin(Op::Lt, Box::new(self.int_atom(fr)), Box::new(self.int_atom(fr)));
                let mut opts = vec![];
                if cx.in_loop_ok {
                    opts.push(E::Brk);
                    opts.push(E::Cont);
                    opts.push(E::BrkV(Box::new(self.int_expr(fr, cx, 2))));
                    opts.push(E::BrkV(Box::new(self.value_if(fr, cx, 1))));
                }
                if cx.ret_ok {
                    opts.push(E::Ret(Box::new(self.int_safe(fr))));
                }
                let x = self.rng.pick(&opts).clone();
                let t = self.emit_plain();
                E::If(Box::new(c), Box::new(E::Seq(vec![t, x])), Box::new(E::Seq(vec![])))
            }
            6 => match self.rng.below(6) {
                3 => {
                    let v = if self.rng.chance(1, 2) { fr.ia } else { fr.ib };
                    E::Assign(v, Box::new(self.value_if_block(fr, cx)))
                }
                4 => {
                    let v = if self.rng.chance(1, 2) { fr.ia } else { fr.ib };
                    E::Assign(v, Box::new(E::Bin(Op::Add, Box::new(E::Var(v)), Box::new(self.value_if(fr, cx, 1)))))
                }
                5 => E::SetIdx(
                    Box::new(E::Var(fr.lst)),
                    Box::new(E::Lit(Lit::Int(self.rng.range(0, 2)))),
                    Box::new(self.value_if(fr, cx, 1)),
                ),
                0 => {
                    let n = 1 + self.rng.below(3);
                    let items = (0..n).map(|_| self.int_expr(fr, cx, 1)).collect();
                    E::Assign(fr.lst, Box::new(E::MkList(items)))
                }
                1 => E::Push(Box::new(E::Var(fr.lst)), Box::new(self.int_expr(fr, cx, 2))),
                _ => {
                    let v = if self.rng.chance(1, 2) { fr.ia } else { fr.ib };
                    E::Assign(v, Box::new(self.int_expr(fr, cx, 2)))
                }
            },
            7 => match self.pick_def(cx, |i| i.role == Role::General) {
                Some(f) => {
                    let c = self.call_general(f, fr, cx, 1);
                    match self.rng.below(3) {
                        0 => E::Assign(fr.ib, Box::new(c)),
                        1 => {
                            // the call sits in a hole of an interpolated string (string builder open)
                            let t = self.next_tag();
                            let mut holes = vec![self.int_atom(fr), c];
                            if self.rng.chance(1, 2) {
                                holes.push(self.int_expr(fr, cx, 1));
                            }
                            E::EmitI(t, holes)
                        }
                        _ => c,
                    }
                }
                None => {
                    let t = self.next_tag();
                    let n = 1 + self.rng.below(3);
                    E::EmitI(t, (0..n).map(|_| self.int_expr(fr, cx, 2)).collect())
                }
            },
            8 => self.native_stmt(fr, cx).unwrap_or_else(|| self.safe_stmt(fr)),
            9 => self.gen_loop(fr, cx).unwrap_or_else(|| self.safe_stmt(fr)),
            _ => {
                // hand an object to a function that applies operators to it / use it here
                if fr.is_main && !fr.objs.is_empty() && self.rng.chance(1, 2) {
                    if let Some(f) = self.pick_def(cx, |i| i.role == Role::TakesObj) {
                        let o = *self.rng.pick(&fr.objs);
                        return E::Call(f, vec![E::Var(o)]);
                    }
                }
                self.op_stmt(fr, cx).unwrap_or_else(|| self.safe_stmt(fr))
            }
        }
    }

    fn prologue(&mut self, fr: &Frame) -> Vec<E> {
        let mut v = vec![
            E::Assign(fr.ia, Box::new(self.small_int())),
            E::Assign(fr.ib, Box::new(self.small_int())),
            E::Assign(fr.lst, Box::new(E::MkList(vec![self.small_int(), self.small_int(), self.small_int()]))),
            E::Assign(fr.c1, Box::new(E::Lit(Lit::Null))),
            E::Assign(fr.c2, Box::new(E::Lit(Lit::Null))),
            E::Assign(fr.lv, Box::new(E::Lit(Lit::Int(0)))),
            E::Assign(fr.ign, Box::new(E::Lit(Lit::Null))),
            E::Assign(fr.pk, Box::new(E::Lit(Lit::Int(0)))),
            E::Assign(fr.pk + 1, Box::new(E::Lit(Lit::Int(0)))),
            E::Assign(fr.pk + 2, Box::new(E::Lit(Lit::Int(0)))),
        ];
        if fr.is_main {
            for (i, o) in fr.objs.iter().enumerate() {
                let c = self.op_classes[i % self.op_classes.len()];
                v.push(E::Assign(*o, Box::new(E::MkObj(c))));
            }
        }
        v
    }
}

fn gen_prog(rng: &mut Rng) -> Prog {
    let ndefs = rng.weighted(&[1, 2, 3, 3, 3, 3, 2, 2]);
    let nglobals = rng.weighted(&[1, 3, 2]) as u32;
    let n_err_classes = rng.weighted(&[1, 2, 1]) as u32;
    let want_ops = rng.chance(1, 3);
    let fault_bias = 3 + rng.below(6) as u32;
    let mut g = G {
        rng,
        infos: vec![],
        err_classes: (0..n_err_classes).collect(),
        op_classes: vec![],
        nglobals,
        tag: 0,
        ctag: 0,
        ftag: 0,
        ttag: 0,
        fault_bias,
    };
    let mut defs: Vec<Def> = vec![];
    let mut classes: Vec<Cls> = (0..n_err_classes).map(|_| Cls::default()).collect();
    let mut op_add: Option<u32> = None;
    let mut op_lt: Option<u32> = None;
    for i in 0..ndefs as u32 {
        let role = if want_ops && op_add.is_none() && i + 3 >= ndefs as u32 && g.rng.chance(1, 2) {
            Role::OpAny
        } else if want_ops && op_lt.is_none() && i + 2 >= ndefs as u32 {
            Role::OpBool
        } else if want_ops && (op_lt.is_some() || op_add.is_some()) && g.rng.chance(1, 2) {
            Role::TakesObj
        } else {
            *g.rng.pick(&[
                Role::General,
                Role::General,
                Role::General,
                Role::General,
                Role::Disp,
                Role::Pred,
                Role::Key,
                Role::Fold,
                Role::Gen,
                Role::Gen,
            ])
        };
        let nparams = match role {
            Role::General => g.rng.weighted(&[2, 4, 1]) as u32,
            Role::Pred | Role::Key | Role::TakesObj | Role::Disp => 1,
            Role::Fold | Role::OpAny | Role::OpBool => 2,
            Role::Gen => g.rng.weighted(&[2, 1]) as u32,
        };
        let fr = Frame::new(nparams, role, 0);
        let cx = Cx {
            depth: 2,
            try_depth: 0,
            in_loop_ok: false,
            ret_ok: role != Role::Gen && role != Role::Disp,
            args_fault_ok: true,
            no_escape: false,
            avail: i,
        };
        let d = if role == Role::Gen {
            let nseg = 1 + g.rng.below(3);
            let mut segs = vec![];
            for k in 0..nseg {
                let mut pre = if k == 0 { g.prologue(&fr) } else { vec![] };
                if let E::Seq(es) = g.block(&fr, cx, 0, 2, None) {
                    pre.extend(es);
                }
                segs.push((E::Seq(pre), g.int_atom(&fr)));
            }
            let tail = g.block(&fr, cx, 0, 2, None);
            Def { is_gen: true, nparams, nlocals: fr.n, body: E::Seq(vec![]), segs, tail }
        } else {
            let mut body = g.prologue(&fr);
            if let E::Seq(es) = g.block(&fr, cx, 1, 4, None) {
                body.extend(es);
            }
            if g.rng.chance(1, 2) {
                // chain to the most recent general function (call depth)
                if let Some(prev) = (0..i).rev().find(|j| g.infos[*j as usize].role == Role::General) {
                    let c = g.call_general(prev, &fr, cx, 0);
                    let pos = 6 + g.rng.below(body.len() - 5);
                    body.insert(pos.min(body.len()), E::Assign(fr.ib, Box::new(c)));
                }
            }
            let tail = match role {
                Role::Pred => E::Bin(Op::Lt, Box::new(E::Var(0)), Box::new(g.small_int())),
                Role::OpBool => {
                    if g.rng.chance(1, 6) {
                        g.small_int() // not a Bool: `>=` must report it
                    } else {
                        E::Bin(Op::Lt, Box::new(g.small_int()), Box::new(g.small_int()))
                    }
                }
                Role::Key => E::Index(
                    Box::new(E::MkList(vec![
                        E::Lit(Lit::Int(5)),
                        E::Lit(Lit::Int(1)),
                        E::Lit(Lit::Int(3)),
                        E::Lit(Lit::Int(1)),
                        E::Lit(Lit::Int(0)),
                    ])),
                    Box::new(E::Var(0)),
                ),
                Role::Fold => E::Bin(Op::Add, Box::new(E::Var(0)), Box::new(E::Var(1))),
                Role::Disp => E::Lit(Lit::Str(g.rng.range(0, 5) as u32)),
                _ => g.int_safe(&fr),
            };
            body.push(tail);
            Def { is_gen: false, nparams, nlocals: fr.n, body: E::Seq(body), segs: vec![], tail: E::Seq(vec![]) }
        };
        defs.push(d);
        g.infos.push(DefInfo { role, nparams });
        match role {
            Role::OpAny => op_add = Some(i),
            Role::OpBool => op_lt = Some(i),
            _ => {}
        }
        if role == Role::OpAny || role == Role::OpBool {
            // the class is known as soon as one operator exists, so later TakesObj defs can be typed
            if g.op_classes.is_empty() {
                g.op_classes.push(classes.len() as u32);
                classes.push(Cls::default());
            }
        }
    }
    if let Some(c) = g.op_classes.first().copied() {
        classes[c as usize] = Cls { add: op_add, lt: op_lt, disp: None };
    }
    let n_objs = if g.op_classes.is_empty() { 0 } else { 1 + g.rng.below(2) as u32 };
    let mut fr = Frame::new(0, Role::General, n_objs);
    fr.is_main = true;
    // a class whose `@display` is a script function (objects live in main, shown alone and inside
    // nested lists by print / interpolation)
    let disp_def = (0..defs.len()).find(|i| g.infos[*i].role == Role::Disp);
    let mut disp_class = None;
    if let Some(d) = disp_def {
        disp_class = Some(classes.len() as u32);
        classes.push(Cls { add: None, lt: None, disp: Some(d as u32) });
        fr.dvars = vec![fr.n, fr.n + 1, fr.n + 2];
        fr.n += 3;
    }
    let cx = Cx {
        depth: 3,
        try_depth: 0,
        in_loop_ok: false,
        ret_ok: false,
        args_fault_ok: true,
        no_escape: false,
        avail: defs.len() as u32,
    };
    let mut body = g.prologue(&fr);
    if let Some(dc) = disp_class {
        body.push(E::Assign(fr.dvars[0], Box::new(E::MkObj(dc))));
        body.push(E::Assign(fr.dvars[1], Box::new(E::MkObj(dc))));
        // the object 0–3 containers deep
        let depth = g.rng.below(4);
        let mut inner = E::Var(fr.dvars[1]);
        for _ in 0..depth {
            let mut items = vec![inner];
            if g.rng.chance(1, 2) {
                items.insert(0, E::Lit(Lit::Int(g.rng.range(0, 9))));
            }
            if g.rng.chance(1, 2) {
                items.push(E::Lit(Lit::Str(g.rng.range(0, 3) as u32)));
            }
            inner = E::MkList(items);
        }
        let top = if depth == 0 { E::MkList(vec![E::Lit(Lit::Int(1)), inner]) } else { inner };
        body.push(E::Assign(fr.dvars[2], Box::new(top)));
    }
    if let E::Seq(es) = g.block(&fr, cx, 2, 6, None) {
        body.extend(es);
    }
    // final observations: every observable local and global
    for v in [fr.ia, fr.ib, fr.lst, fr.pk, fr.pk + 1, fr.pk + 2, fr.c1, fr.c2] {
        let t = g.next_tag();
        if v == fr.c1 || v == fr.c2 {
            // caught values may be objects/lists: show them only when they are plain
            let _ = t;
            continue;
        }
        body.push(E::Emit(t, Some(Box::new(E::Var(v)))));
    }
    for k in 0..nglobals {
        let t = g.next_tag();
        body.push(E::Emit(t, Some(Box::new(E::GVar(k)))));
    }
    body.push(E::Var(fr.ia));
    Prog { nglobals, classes, defs, main_locals: fr.n, main: E::Seq(body) }
}
